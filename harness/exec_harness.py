"""Implementation side of the C04 correspondence: build real instruction objects
from a small JSON-able program representation, run them on the REAL
netqasm.backend.executor.Executor (sub-classed only to bound the number of
handler calls and to turn the busy-wait of the wait_* instructions into an
observable 'blocked' result), canonicalise the observable state.

Program representation (JSON-able):
  register      "R3" / "C0" / "Q15" / "M7"        (bank letter + index)
  entry index / slice bound:  a register string or an int (the executor accepts both)
  instruction   [mnemonic, operand, ...]
     ["set", reg, imm]            ["lea", reg, addr]           ["array", sizereg, addr]
     ["load", reg, addr, idx]     ["store", reg, addr, idx]    ["undef", addr, idx]
     ["add"|"sub", rd, ra, rb]    ["addm"|"subm", rd, ra, rb, rm]
     ["jmp", line]  ["bez"|"bnz", reg, line]  ["beq"|"bne"|"blt"|"bge", ra, rb, line]
     ["ret_reg", reg]  ["ret_arr", addr]  ["qalloc", reg]  ["qfree", reg]
     ["wait_all"|"wait_any", addr, start, stop]   ["wait_single", addr, idx]
A case is  dict(cap=<unit module size>, fuel=<handler-call bound>, subs=[program, ...]).
"""
import re

BANKS = "RCQM"
MAX_ARRAY = 64
# tags of the abstract gate events (the same numbers as in coq/Proofs/Bridge_Nv.v / Bridge_Sdk.v)
QTAGS = {"init": 0, "x": 10, "y": 11, "z": 12, "h": 13, "k": 14, "s": 15, "t": 16,
         "rot_x": 20, "rot_y": 21, "rot_z": 22, "cnot": 30, "cphase": 31}
G1 = ["init", "x", "y", "z", "h", "k", "s", "t"]
ROT = ["rot_x", "rot_y", "rot_z"]
G2 = ["cnot", "cphase"]

_state = {}


def _load():
    """Import the live implementation (sys.path[0] is the repo under test)."""
    if _state:
        return _state
    from netqasm.backend.executor import Executor
    from netqasm.lang import operand
    from netqasm.lang.encoding import RegisterName
    from netqasm.lang.instr import core
    from netqasm.lang.subroutine import Subroutine
    from netqasm.sdk.shared_memory import SharedMemoryManager

    from netqasm.lang.instr import vanilla

    by_mn = {}
    for mod in (core, vanilla):
        for name in dir(mod):
            cls = getattr(mod, name)
            if isinstance(cls, type) and getattr(cls, "mnemonic", "") and cls.__module__ == mod.__name__:
                by_mn[cls.mnemonic] = cls

    class StepLimit(Exception):
        pass

    class Blocked(Exception):
        pass

    class TooBig(Exception):
        pass

    class StepBoundExecutor(Executor):
        """The real Executor; only extension points are filled in."""

        def __init__(self, fuel):
            super().__init__(name="c04")
            self._fuel = fuel
            self._calls = 0
            self.final_pc = None
            self.events = []
            self.script = []

        @property
        def node_id(self):
            return 0

        def set_fuel(self, fuel):
            self._fuel, self._calls = fuel, 0

        def _execute_command(self, subroutine_id, command):
            if self._calls >= self._fuel:
                raise StepLimit()
            if command.mnemonic == "array":
                # harness guard (not part of the comparison): a generated program may
                # compute a huge length; such a case is discarded, not executed
                app_id = self._get_app_id(subroutine_id)
                try:
                    n = self._get_register(app_id, command.size)
                except Exception:  # noqa
                    n = None
                # (and [None] * n overflows CPython's ssize_t for n < -2**63: platform artefact)
                if n is not None and (n > MAX_ARRAY or n < -(2 ** 62)):
                    raise TooBig()
            self._calls += 1
            return super()._execute_command(subroutine_id, command)

        # extension points for quantum instructions: record the event, nothing else
        def _do_single_qubit_instr(self, instr, subroutine_id, address):
            self.events.append(["gate", QTAGS[instr.mnemonic], [], [address]])

        def _do_single_qubit_rotation(self, instr, subroutine_id, address, angle):
            self.events.append(["gate", QTAGS[instr.mnemonic], [instr.angle_num.value, instr.angle_denom.value], [address]])

        def _do_two_qubit_instr(self, instr, subroutine_id, address1, address2):
            self.events.append(["gate", QTAGS[instr.mnemonic], [], [address1, address2]])

        def _do_meas(self, subroutine_id, q_address):
            o = self.script.pop(0) if self.script else 0
            self.events.append(["meas", q_address, o])
            return o

        def _do_wait(self):
            # environment contract of this check: nobody else writes the arrays,
            # so an unsatisfied wait would spin forever
            raise Blocked()

        def _wait_to_handle_epr_responses(self):
            pass

        def _clear_subroutine(self, subroutine_id):
            self.final_pc = self._program_counters[subroutine_id]
            super()._clear_subroutine(subroutine_id)

    _state.update(Executor=Executor, operand=operand, RN=RegisterName, core=core, Subroutine=Subroutine,
                  SMM=SharedMemoryManager, by_mn=by_mn, StepLimit=StepLimit, Blocked=Blocked, TooBig=TooBig,
                  StepBoundExecutor=StepBoundExecutor)
    return _state


def mk_reg(s):
    st = _load()
    return st["operand"].Register(st["RN"][s[0]], int(s[1:]))


def mk_ix(x):
    return mk_reg(x) if isinstance(x, str) else int(x)


def build_instr(t):
    st = _load()
    op = st["operand"]
    mn = t[0]
    cls = st["by_mn"][mn]
    if mn == "set":
        ops = [mk_reg(t[1]), op.Immediate(t[2])]
    elif mn in ("lea", "array"):
        ops = [mk_reg(t[1]), op.Address(t[2])]
    elif mn in ("load", "store"):
        ops = [mk_reg(t[1]), op.ArrayEntry(op.Address(t[2]), mk_ix(t[3]))]
    elif mn in ("undef", "wait_single"):
        ops = [op.ArrayEntry(op.Address(t[1]), mk_ix(t[2]))]
    elif mn in ("add", "sub"):
        ops = [mk_reg(t[1]), mk_reg(t[2]), mk_reg(t[3])]
    elif mn in ("addm", "subm"):
        ops = [mk_reg(t[1]), mk_reg(t[2]), mk_reg(t[3]), mk_reg(t[4])]
    elif mn == "jmp":
        ops = [op.Immediate(t[1])]
    elif mn in ("bez", "bnz"):
        ops = [mk_reg(t[1]), op.Immediate(t[2])]
    elif mn in ("beq", "bne", "blt", "bge"):
        ops = [mk_reg(t[1]), mk_reg(t[2]), op.Immediate(t[3])]
    elif mn in ("ret_reg", "qalloc", "qfree"):
        ops = [mk_reg(t[1])]
    elif mn == "ret_arr":
        ops = [op.Address(t[1])]
    elif mn in ("wait_all", "wait_any"):
        ops = [op.ArraySlice(op.Address(t[1]), mk_ix(t[2]), mk_ix(t[3]))]
    elif mn in G1:
        ops = [mk_reg(t[1])]
    elif mn in ROT:
        ops = [mk_reg(t[1]), op.Immediate(t[2]), op.Immediate(t[3])]
    elif mn in G2 or mn == "meas":
        ops = [mk_reg(t[1]), mk_reg(t[2])]
    else:
        raise ValueError(f"unknown mnemonic {mn}")
    return cls.from_operands(ops)


EXC_CLASSES = ["RuntimeError", "AssertionError", "IndexError", "ValueError", "TypeError", "OverflowError"]
# codes used by coq/Exec/ExecCheck.kind_class (5 = anything else)
EXC_CODE = {"RuntimeError": 0, "AssertionError": 1, "IndexError": 2, "ValueError": 3, "TypeError": 4, "OverflowError": 6}


def canon_exc(exc):
    """(outcome tag, exception class or '', line) -- the line is what the error
    message *names* ('At line N: ...'), never anything from the message body."""
    st = _load()
    m = re.match(r"At line (-?\d+):", str(exc))
    line = int(m.group(1)) if m else None
    if isinstance(exc, st["StepLimit"]):
        return ("fuel", "", line)
    if isinstance(exc, st["Blocked"]):
        return ("blocked", "", line)
    name = type(exc).__name__
    if line is None:
        return ("crash", name if name in EXC_CLASSES else "Other", None)
    return ("fault", name if name in EXC_CLASSES else "Other", line)


def view_state(ex, app=0):
    """Canonical observable state of application `app`."""
    st = _load()
    RN = st["RN"]
    regs = []
    for b, letter in enumerate(BANKS):
        # read the group's dictionary itself, not through RegisterGroup.__getitem__: an observation
        # must not fault (or hide a register) when the implementation's index check is what is wrong
        grp = ex._registers[app][RN[letter]]
        for i, v in sorted(grp._register.items()):
            if v is not None:
                regs.append([b, i, v])
    arrays = sorted([a, list(l)] for a, l in ex._app_arrays[app]._arrays.items())
    shm = ex._shared_memories[app]
    sregs = []
    for b, letter in enumerate(BANKS):
        grp = shm._registers[RN[letter]]
        for i, v in sorted(grp._register.items()):
            if v is not None:
                sregs.append([b, i, v])
    sarrays = sorted([a, list(l)] for a, l in shm._arrays._arrays.items())
    um = list(ex._qubit_unit_modules[app])       # physical id mapped to each virtual id (None = free)
    used = sorted(ex._used_physical_qubit_addresses)
    return dict(regs=regs, arrays=arrays, sregs=sregs, sarrays=sarrays, um=um, used=used)


def host_lineno(sub_index, k):
    """host-program line stamped on instruction k of subroutine sub_index: unrelated to k"""
    return 40 + 11 * k + 3 * sub_index


def run_case(case):
    """Run all subroutines of a case against ONE application state on the real
    Executor.  Returns a list (one per subroutine) of
    dict(out=(tag, class, line), pc=int, state=view), or None when the case is
    discarded (an array longer than MAX_ARRAY would be created).
    case["hostlines"]: two thirds of the instructions carry a HostLine (the SDK's
    line tracker), as in a Subroutine handed over without serialisation.
    case["hardware"]: run with set_is_using_hardware(True) (reset afterwards)."""
    st = _load()
    from netqasm.runtime.settings import set_is_using_hardware
    from netqasm.util.log import HostLine

    st["SMM"].reset_memories()
    hardware = bool(case.get("hardware"))
    set_is_using_hardware(hardware)
    try:
        ex = st["StepBoundExecutor"](case["fuel"])
        ex.init_new_application(app_id=0, max_qubits=case["cap"])
        ex.script = list(case.get("script", []))
        results = []
        for si, prog in enumerate(case["subs"]):
            instrs = [build_instr(t) for t in prog]
            if case.get("hostlines"):
                for k, ins_ in enumerate(instrs):
                    if k % 3 != 1:
                        ins_.lineno = HostLine("host_program.py", host_lineno(si, k))
            sub = st["Subroutine"](instructions=instrs, app_id=0)
            ex.set_fuel(case["fuel"])
            ex.final_pc = None
            sid = ex._next_subroutine_id
            try:
                for _ in ex.execute_subroutine(sub):
                    pass
                out, pc = ("halt", "", None), ex.final_pc
            except Exception as exc:  # noqa: the executor re-raises the class of the original error
                if isinstance(exc, st["TooBig"]):
                    return None
                out = canon_exc(exc)
                pc = ex._program_counters.get(sid)
            results.append(dict(out=list(out), pc=pc, state=view_state(ex), events=[list(e) for e in ex.events]))
        return results
    finally:
        set_is_using_hardware(False)


def narrow_case(case):
    """keep every immediate inside the hardware width (32-bit signed) -- for the hardware configuration
    (cases aimed at the width checks are left alone)"""
    if case.get("tag", "").split(":")[-1] in OVF_TARGETS:
        return case
    for prog in case["subs"]:
        for t in prog:
            if t[0] == "set" and not (-2 ** 31 <= t[2] < 2 ** 31):
                t[2] = t[2] % 97
    return case


# ---------------------------------------------------------------- Coq emission
def cq_z(n):
    n = int(n)
    return f"({n})" if n < 0 else str(n)


def cq_reg(s):
    return f"(B{s[0]}, {cq_z(int(s[1:]))})"


def cq_op(x):
    return f"(OReg {cq_reg(x)})" if isinstance(x, str) else f"(OImm {cq_z(x)})"


UCOND = {"bez": "Cez", "bnz": "Cnz"}
BCOND = {"beq": "Ceq", "bne": "Cne", "blt": "Clt", "bge": "Cge"}


def cq_instr(t):
    mn = t[0]
    if mn == "set":
        return f"ISet {cq_reg(t[1])} {cq_z(t[2])}"
    if mn == "lea":
        return f"ILea {cq_reg(t[1])} {cq_z(t[2])}"
    if mn == "array":
        return f"IArray {cq_reg(t[1])} {cq_z(t[2])}"
    if mn == "load":
        return f"ILoad {cq_reg(t[1])} {cq_z(t[2])} {cq_op(t[3])}"
    if mn == "store":
        return f"IStore {cq_reg(t[1])} {cq_z(t[2])} {cq_op(t[3])}"
    if mn == "undef":
        return f"IUndef {cq_z(t[1])} {cq_op(t[2])}"
    if mn in ("add", "sub"):
        o = "OAdd" if mn == "add" else "OSub"
        return f"IClassical (COp {o} {cq_reg(t[1])} {cq_reg(t[2])} {cq_reg(t[3])})"
    if mn in ("addm", "subm"):
        o = "OAdd" if mn == "addm" else "OSub"
        return f"IClassical (COpm {o} {cq_reg(t[1])} {cq_reg(t[2])} {cq_reg(t[3])} {cq_reg(t[4])})"
    if mn == "jmp":
        return f"IBranch (BJmp {cq_z(t[1])})"
    if mn in UCOND:
        return f"IBranch (BUn {UCOND[mn]} {cq_reg(t[1])} {cq_z(t[2])})"
    if mn in BCOND:
        return f"IBranch (BBin {BCOND[mn]} {cq_reg(t[1])} {cq_reg(t[2])} {cq_z(t[3])})"
    if mn == "ret_reg":
        return f"IRetReg {cq_reg(t[1])}"
    if mn == "ret_arr":
        return f"IRetArr {cq_z(t[1])}"
    if mn == "qalloc":
        return f"IQalloc {cq_reg(t[1])}"
    if mn == "qfree":
        return f"IQfree {cq_reg(t[1])}"
    if mn == "wait_all":
        return f"IWaitAll {cq_z(t[1])} {cq_op(t[2])} {cq_op(t[3])}"
    if mn == "wait_any":
        return f"IWaitAny {cq_z(t[1])} {cq_op(t[2])} {cq_op(t[3])}"
    if mn == "wait_single":
        return f"IWaitSingle {cq_z(t[1])} {cq_op(t[2])}"
    raise ValueError(mn)


def cq_qinstr(t):
    """an instruction of a quantum case as a SemQ.qinstr"""
    mn = t[0]
    if mn in G1:
        return f"QGate {QTAGS[mn]} [] [{cq_reg(t[1])}]"
    if mn in ROT:
        return f"QGate {QTAGS[mn]} [{cq_z(t[2])}; {cq_z(t[3])}] [{cq_reg(t[1])}]"
    if mn in G2:
        return f"QGate {QTAGS[mn]} [] [{cq_reg(t[1])}; {cq_reg(t[2])}]"
    if mn == "meas":
        return f"QMeas {cq_reg(t[1])} {cq_reg(t[2])}"
    return f"QC ({cq_instr(t)})"


def cq_event(e):
    if e[0] == "gate":
        return f"QEvGate {e[1]} {cq_list(cq_z(x) for x in e[2])} {cq_list(cq_z(x) for x in e[3])}"
    return f"QEvMeas {cq_z(e[1])} {cq_z(e[2])}"


def cq_qcase(case, results):
    subs = cq_list((cq_list(cq_qinstr(t) for t in prog) for prog in case["subs"]), sep=";\n     ")
    exp = cq_list((f"({cq_expect(r)}, {cq_list(cq_event(e) for e in r['events'])})" for r in results), sep=";\n     ")
    script = cq_list(cq_z(x) for x in case.get("script", []))
    return f"mkQCase {case['cap']}%nat {case['fuel']}%nat {script}\n    {subs}\n    {exp}"


def write_qcase_file(path, coq_cases):
    with open(path, "w") as f:
        f.write(CASE_HEADER.replace("Exec.ExecCheck.", "Exec.SemQ Exec.ExecCheck."))
        f.write("Definition cases : list qcase :=\n [" + ";\n  ".join(coq_cases) + "].\n")
        f.write("Eval vm_compute in (semq_failing cases).\n")
        f.write("Eval vm_compute in (semq_open cases).\n")


def cq_list(items, sep="; "):
    return "[" + sep.join(items) + "]"


def cq_cell(v):
    return "None" if v is None else f"(Some {cq_z(v)})"


def cq_out(out):
    tag, cls, line = out
    if tag == "halt":
        return "IHalt"
    if tag == "fault":
        c = EXC_CODE.get(cls, 5)
        return f"(IFault {c} {cq_z(line)})"
    if tag == "blocked":
        return f"(IBlocked {cq_z(line)})"
    if tag == "fuel":
        return "IFuel"
    return "ICrash"


def cq_expect(r):
    s = r["state"]
    regs = cq_list(f"({b}, {i}, {cq_z(v)})" for b, i, v in s["regs"])
    sregs = cq_list(f"({b}, {i}, {cq_z(v)})" for b, i, v in s["sregs"])
    arrs = cq_list(f"({cq_z(a)}, {cq_list(cq_cell(x) for x in l)})" for a, l in s["arrays"])
    sarrs = cq_list(f"({cq_z(a)}, {cq_list(cq_cell(x) for x in l)})" for a, l in s["sarrays"])
    um = cq_list(cq_cell(x) for x in s["um"])
    used = cq_list(cq_z(x) for x in s["used"])
    pc = -999999 if r["pc"] is None else r["pc"]
    return f"mkX {cq_out(r['out'])} {cq_z(pc)} {regs} {arrs} {sregs} {sarrs} {um} {used}"


def cq_case(case, results):
    subs = cq_list((cq_list(cq_instr(t) for t in prog) for prog in case["subs"]), sep=";\n     ")
    exp = cq_list((cq_expect(r) for r in results), sep=";\n     ")
    return f"mkCase {case['cap']}%nat {case['fuel']}%nat\n    {subs}\n    {exp}"


CASE_HEADER = """From Coq Require Import ZArith List Bool.
From NQ Require Import Exec.State Exec.Sem Exec.Exec Exec.ExecCheck.
Import ListNotations.
Open Scope Z_scope.
"""


def write_case_file(path, coq_cases, hardware=False):
    """hardware=True: compare with the models under cfg_hardware (width checks active)"""
    pre = "h" if hardware else ""
    with open(path, "w") as f:
        f.write(CASE_HEADER)
        f.write("Definition cases : list ecase :=\n [" + ";\n  ".join(coq_cases) + "].\n")
        f.write(f"Eval vm_compute in ({pre}exec_failing cases).\n")
        f.write(f"Eval vm_compute in ({pre}sem_failing cases).\n")
        f.write(f"Eval vm_compute in ({pre}sem_open cases).\n")


def parse_lists(out):
    parts = re.findall(r"=\s*(\[[^\]]*\]|nil)\s*:\s*list Z", out.replace("\n", " "))
    return [[int(x) for x in re.findall(r"-?\d+", p)] for p in parts]


# ---------------------------------------------------------------- generation
def _val(rng, wide=True):
    m = rng.random()
    if m < 0.72:
        return rng.randint(0, 12)
    if m < 0.84:
        return rng.randint(-5, -1)
    if m < 0.94 or not wide:
        return rng.randint(13, 40)
    return rng.choice([2 ** 31 - 1, 2 ** 31, -2 ** 31, 2 ** 64 + 3, -(2 ** 70) - 1, 255, 256])


class Pools:
    def __init__(self, rng):
        self.regs = []
        for b in BANKS:
            k = rng.choice([1, 2, 2, 3])
            self.regs += [f"{b}{i}" for i in rng.sample(range(16), k)]
        self.addrs = rng.sample([0, 1, 2, 3, 7, 100, 2 ** 31 - 1], rng.choice([1, 2, 2, 3]))

    def reg(self, rng):
        return rng.choice(self.regs)

    def addr(self, rng):
        return rng.choice(self.addrs) if rng.random() < 0.93 else rng.choice([4, 5, 6])

    def ix(self, rng):
        if rng.random() < 0.7:
            return self.reg(rng)
        return rng.randint(0, 6) if rng.random() < 0.7 else _val(rng, wide=False)


KINDS = ["set", "set", "set", "lea", "array", "load", "load", "store", "store", "undef", "add", "sub", "addm", "subm",
         "jmp", "bez", "bnz", "beq", "bne", "blt", "bge", "ret_reg", "ret_arr", "qalloc", "qfree",
         "wait_all", "wait_any", "wait_single"]


def gen_instr(rng, P, n, kind=None):
    """one random instruction for a program of n lines"""
    mn = kind or rng.choice(KINDS)
    r, a, ix = (lambda: P.reg(rng)), (lambda: P.addr(rng)), (lambda: P.ix(rng))

    def line():
        m = rng.random()
        if m < 0.9:
            return rng.randint(0, n)
        if m < 0.95:
            return n + rng.randint(1, 3)
        return -rng.randint(1, n + 2)

    if mn == "set":
        return [mn, r(), _val(rng)]
    if mn in ("lea", "array"):
        return [mn, r(), a()]
    if mn in ("load", "store"):
        return [mn, r(), a(), ix()]
    if mn in ("undef", "wait_single"):
        return [mn, a(), ix()]
    if mn in ("add", "sub"):
        return [mn, r(), r(), r()]
    if mn in ("addm", "subm"):
        return [mn, r(), r(), r(), r()]
    if mn == "jmp":
        return [mn, line()]
    if mn in ("bez", "bnz"):
        return [mn, r(), line()]
    if mn in ("beq", "bne", "blt", "bge"):
        return [mn, r(), r(), line()]
    if mn in ("ret_reg", "qalloc", "qfree"):
        return [mn, r()]
    if mn == "ret_arr":
        return [mn, a()]
    if mn in ("wait_all", "wait_any"):
        return [mn, a(), ix(), ix()]
    raise ValueError(mn)


def gen_prelude(rng, P, p_def=0.85):
    """define most registers with small non-negative values, declare most arrays"""
    pre = []
    for reg in P.regs:
        if rng.random() < p_def:
            pre.append(["set", reg, rng.randint(0, 12) if rng.random() < 0.9 else _val(rng)])
    for ad in P.addrs:
        if rng.random() < 0.85:
            sz = P.reg(rng)
            pre.append(["set", sz, rng.randint(0, 12)])
            pre.append(["array", sz, ad])
            # fill some entries
            for _ in range(rng.randint(0, 4)):
                pre.append(["store", P.reg(rng), ad, rng.randint(0, 12)])
            pre.append(["set", sz, rng.randint(0, 12)])
    return pre


def gen_program(rng, P, max_len, with_prelude):
    pre = gen_prelude(rng, P) if with_prelude else []
    nbody = rng.choice([0, 1, 2, 3, 5, 8, max_len]) if rng.random() < 0.4 else rng.randint(0, max_len)
    n = len(pre) + nbody
    body = [gen_instr(rng, P, n) for _ in range(nbody)]
    # jump targets of the body prefer the body region so that loops do not redo the prelude only
    return pre + body


def gen_case(rng, max_len=18, fuel=60):
    P = Pools(rng)
    nsubs = rng.choice([1, 1, 2, 2, 3, 4])
    subs = []
    for k in range(nsubs):
        subs.append(gen_program(rng, P, max_len, with_prelude=(k == 0 and rng.random() < 0.9) or rng.random() < 0.15))
    return dict(cap=rng.choice([0, 1, 2, 3, 5, 13]), fuel=fuel, subs=subs, tag="random")


def gen_loop_case(rng, P, free, cap, fuel):
    """a structured counting loop: for i in range(lo, hi, step): arr[i] = (x op i) mod m, with a
    randomly chosen exit test (blt/bge/bne/beq + jmp), then ret_arr / ret_reg"""
    i, n, one, x, m, t, sz = rng.sample(free, 7)
    A = P.addrs[0]
    lo, hi = rng.randint(0, 3), rng.randint(0, 9)
    length = rng.randint(0, 12)
    op = rng.choice(["addm", "subm", "add", "sub"])
    pre = [["set", sz, length], ["array", sz, A], ["set", i, lo], ["set", n, hi], ["set", one, 1],
           ["set", x, _val(rng)], ["set", m, rng.choice([1, 2, 3, 5, 7, 2 ** 31])]]
    top = len(pre)
    body = [[op, t, x, i, m] if op.endswith("m") else [op, t, x, i], ["store", t, A, i], ["add", i, i, one]]
    kind = rng.choice(["blt", "bne", "bge", "beq"])
    if kind in ("blt", "bne"):
        tail = [[kind, i, n, top]]
    else:  # exit when i >= n / i == n, otherwise jump back
        tail = [[kind, i, n, top + len(body) + 2], ["jmp", top]]
    post = [["ret_arr", A], ["ret_reg", t], ["undef", A, lo], ["wait_all", A, lo, i]]
    prog = pre + body + tail + post[:rng.randint(0, 4)]
    subs = [prog]
    if rng.random() < 0.3:
        subs.append([["load", t, A, i], ["ret_reg", t]])
    return dict(cap=cap, fuel=fuel, subs=subs, tag="aimed:counting-loop")


FAULT_TARGETS = ["store-undef-reg", "store-undef-index", "load-undef-entry", "load-missing-array", "load-undef-index",
                 "modulus-zero", "modulus-negative", "modulus-undef", "double-alloc", "free-unallocated",
                 "index-eq-len", "index-gt-len", "store-missing-array", "undef-index-past", "ret-reg-undef",
                 "ret-arr-missing", "qalloc-outside", "qalloc-undef", "qfree-outside", "qfree-undef",
                 "add-undef", "array-undef-size", "wait-all-blocked", "wait-any-empty", "wait-single-missing",
                 "wait-all-missing", "store-after-ret-arr", "redeclare-after-ret-arr", "branch-undef",
                 "negative-index", "jump-negative", "jump-past-end", "reg-index-16",
                 "alloc-free-cycle", "counting-loop", "undef-then-load",
                 "ovf-set", "ovf-add", "ovf-store-value", "ovf-store-index", "ovf-address", "ovf-undef-index",
                 "ovf-addm", "ovf-ret-reg", "ovf-boundary"]
OVF_TARGETS = {t for t in FAULT_TARGETS if t.startswith("ovf-")}


ALLOC_TARGETS = {"double-alloc", "free-unallocated", "qalloc-outside", "qalloc-undef", "qfree-outside",
                 "qfree-undef", "alloc-free-cycle"}


def gen_fault_case(rng, target, fuel=60):
    """a mostly valid program with ONE instruction aimed at the given fault, placed
    between filler instructions; later subroutines see the state left behind"""
    P = Pools(rng)
    used = set(P.regs)
    free = [f"{b}{i}" for b in BANKS for i in range(16) if f"{b}{i}" not in used]
    u = rng.choice(free)           # a register that is never written: undefined
    A = P.addrs[0]
    missing = rng.choice([x for x in [11, 12, 13] if x not in P.addrs])
    n_arr = rng.randint(0, 12)
    d, e, f_, g = (P.reg(rng) for _ in range(4))
    q = rng.choice(free)
    cap = rng.choice([1, 2, 3, 5])
    pre = [["set", r, rng.randint(1, 9)] for r in P.regs]
    pre += [["set", q, n_arr], ["array", q, A]]
    pre += [["store", d, A, i] for i in range(n_arr) if rng.random() < 0.5]
    aim = {
        "store-undef-reg": [["store", u, A, 0]],
        "store-undef-index": [["store", d, A, u]],
        "load-undef-entry": [["set", q, n_arr + 1], ["array", q, A], ["load", d, A, rng.randint(0, n_arr)]],
        "load-missing-array": [["load", d, missing, 0]],
        "load-undef-index": [["load", d, A, u]],
        "modulus-zero": [["set", q, 0], [rng.choice(["addm", "subm"]), d, e, f_, q]],
        "modulus-negative": [["set", q, -rng.randint(1, 9)], [rng.choice(["addm", "subm"]), d, e, f_, q]],
        "modulus-undef": [[rng.choice(["addm", "subm"]), d, e, f_, u]],
        "double-alloc": [["set", q, rng.randint(0, cap - 1)], ["qalloc", q], ["qalloc", q]],
        "free-unallocated": [["set", q, rng.randint(0, cap - 1)], ["qfree", q]],
        "index-eq-len": [["set", q, n_arr], [rng.choice(["load", "store"]), d, A, q]],
        "index-gt-len": [["set", q, n_arr + rng.randint(1, 5)], [rng.choice(["load", "store"]), d, A, q]],
        "store-missing-array": [["store", d, missing, 0]],
        "undef-index-past": [["undef", A, n_arr]],
        "ret-reg-undef": [["ret_reg", u]],
        "ret-arr-missing": [["ret_arr", missing]],
        "qalloc-outside": [["set", q, cap + rng.randint(0, 3)], ["qalloc", q]],
        "qalloc-undef": [["qalloc", u]],
        "qfree-outside": [["set", q, cap + rng.randint(0, 3)], ["qfree", q]],
        "qfree-undef": [["qfree", u]],
        "add-undef": [[rng.choice(["add", "sub"]), d, rng.choice([u, e]), u]],
        "array-undef-size": [["array", u, A]],
        "wait-all-blocked": [["set", q, n_arr + 1], ["array", q, A], ["set", q, 0], ["wait_all", A, q, rng.randint(1, n_arr + 1)]],
        "wait-any-empty": [["wait_any", A, 0, 0]],
        "wait-single-missing": [["wait_single", missing, 0]],
        "wait-all-missing": [[rng.choice(["wait_all", "wait_any"]), missing, 0, 1]],
        "store-after-ret-arr": [["set", q, 3], ["array", q, A], ["ret_arr", A], ["store", d, A, 1]],
        "redeclare-after-ret-arr": [["set", q, 2], ["array", q, A], ["store", d, A, 0], ["ret_arr", A], ["array", q, A], ["store", e, A, 1]],
        "branch-undef": [[rng.choice(["bez", "bnz"]), u, 0] if rng.random() < 0.4 else
                         [rng.choice(["beq", "bne", "blt", "bge"]), rng.choice([u, d]), u, 0]],
        "negative-index": [["set", q, -rng.randint(1, n_arr + 2)], [rng.choice(["load", "store"]), d, A, q]],
        "jump-negative": [["jmp", -rng.randint(1, 30)]],
        "jump-past-end": [["jmp", 200]],
        "reg-index-16": [["set", rng.choice(BANKS) + str(rng.choice([16, 17, 255, -1])), 1]],
        "alloc-free-cycle": [["set", q, rng.randint(0, cap - 1)]] + [[rng.choice(["qalloc", "qfree"]), q] if rng.random() < 0.25
                                                                      else [["qalloc", q], ["qfree", q]][k % 2] for k in range(rng.randint(2, 7))],
        "counting-loop": None,
        # values at / beyond the 32-bit width: OverflowError in the hardware configuration, plain values in simulation
        "ovf-set": [["set", d, rng.choice([2 ** 31, -2 ** 31 - 1, 2 ** 40, -2 ** 63])]],
        "ovf-add": [["set", q, 2 ** 31 - 1], ["set", e, rng.randint(1, 5)], [rng.choice(["add", "sub"]), d, q, e],
                    ["set", q, -2 ** 31], ["sub", d, q, e]],
        "ovf-store-value": [["set", q, n_arr + 1], ["array", q, A], ["set", q, 2 ** 31 - 1], ["set", e, 1], ["store", q, A, 0],
                            ["add", q, q, e], ["store", q, A, 0]],
        "ovf-store-index": [["set", e, 1], ["store", e, A, rng.choice([2 ** 31, 2 ** 35])], ["store", e, missing, 2 ** 31]],
        "ovf-address": [[rng.choice(["load", "store"]), d, 2 ** 31, 0], ["undef", 2 ** 33, 0], ["ret_arr", 2 ** 31],
                        ["wait_all", -2 ** 31 - 1, 0, 0]][rng.randint(0, 3):][:1] + [["lea", d, 2 ** 31], ["array", d, 2 ** 32]],
        "ovf-undef-index": [["undef", A, 2 ** 31]],
        "ovf-addm": [["set", q, 2 ** 33], ["set", e, 2 ** 32 + 5], ["set", f_, 1], ["addm", d, e, f_, q],
                     ["set", q, 2 ** 31], ["addm", d, e, f_, q]],
        "ovf-ret-reg": [["set", q, 2 ** 31 - 1], ["ret_reg", q], ["set", e, 1], ["add", q, q, e], ["ret_reg", q]],
        "ovf-boundary": [["set", d, 2 ** 31 - 1], ["set", e, -2 ** 31], ["lea", f_, 2 ** 31 - 1], ["set", q, 1],
                         ["array", q, 2 ** 31 - 1], ["store", d, 2 ** 31 - 1, 0], ["ret_arr", 2 ** 31 - 1], ["ret_reg", e]],
        "undef-then-load": [["set", q, n_arr + 2], ["array", q, A], ["store", d, A, 0], ["store", d, A, 1], ["undef", A, 1],
                            ["load", e, A, 0], ["load", f_, A, 1]],
    }[target]
    if target == "counting-loop":
        return gen_loop_case(rng, P, free, cap, fuel)
    filler1 = [gen_instr(rng, P, 0, kind=rng.choice(["set", "add", "sub", "lea", "ret_reg"])) for _ in range(rng.randint(0, 3))]
    filler2 = [gen_instr(rng, P, 0, kind=rng.choice(["set", "add", "sub", "lea", "ret_reg"])) for _ in range(rng.randint(0, 3))]
    prog = pre + filler1 + aim + filler2
    # the application goes on after the fault: further subroutines run against the state it left
    subs = [prog, gen_program(rng, P, 8, with_prelude=False)]
    if target in ALLOC_TARGETS or rng.random() < 0.25:
        # bookkeeping probes: allocate every virtual id in random order (one subroutine each, so
        # that a fault on an id that is already taken does not hide the others), then free some
        order = list(range(cap))
        rng.shuffle(order)
        for v in order:
            subs.append([["set", q, v], ["qalloc", q]])
        for v in order[:rng.randint(0, cap)]:
            subs.append([["set", q, v], ["qfree", q]])
        subs.append([["set", q, rng.randint(0, cap - 1)], ["qalloc", q], ["ret_reg", q]])
    return dict(cap=cap, fuel=fuel, subs=subs, tag="aimed:" + target)


QKINDS = ["qalloc", "qalloc", "qfree", "init", "x", "h", "z", "t", "k", "s", "y", "rot_x", "rot_y", "rot_z", "cnot", "cphase",
          "meas", "meas", "set", "add", "store", "load", "bez", "bnz", "beq", "blt", "jmp", "ret_reg", "ret_arr"]


def gen_qcase(rng, max_len=16, fuel=60):
    """programs mixing classical instructions with gates, rotations, two-qubit gates and
    measurements (scripted outcomes); the quantum extension points only record events"""
    P = Pools(rng)
    qregs = [r for r in P.regs if r[0] == "Q"] or ["Q0"]
    cap = rng.choice([1, 2, 3, 5])
    script = [rng.randint(0, 1) for _ in range(rng.randint(0, 4))]

    def one(n):
        mn = rng.choice(QKINDS)
        q = lambda: rng.choice(qregs) if rng.random() < 0.85 else P.reg(rng)
        if mn in G1:
            return [mn, q()]
        if mn in ROT:
            return [mn, q(), rng.randint(0, 31), rng.randint(0, 5)]
        if mn in G2:
            return [mn, q(), q()]
        if mn == "meas":
            return [mn, q(), P.reg(rng)]
        if mn in ("qalloc", "qfree"):
            return [mn, q()]
        return gen_instr(rng, P, n, kind=mn)

    subs = []
    for k in range(rng.choice([1, 1, 2])):
        pre = []
        if k == 0:
            for r in P.regs:
                if rng.random() < 0.85:
                    pre.append(["set", r, rng.randint(0, cap) if r[0] == "Q" else rng.randint(0, 6)])
            for r in qregs:
                if rng.random() < 0.6:
                    pre.append(["qalloc", r])
        nbody = rng.randint(0, max_len)
        n = len(pre) + nbody
        subs.append(pre + [one(n) for _ in range(nbody)])
    return dict(cap=cap, fuel=fuel, subs=subs, script=script, tag="quantum")
