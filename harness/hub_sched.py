"""Line-level deterministic scheduler for the real thread-socket hub (C18).

The REAL `_SocketHub` / `ThreadSocket` code runs in real threads.  Every thread is
traced with sys.settrace and parks at each 'line' event whose code lives in
socket_hub.py (optionally socket.py too); the main thread decides who runs next.
The hub's shared containers are replaced by logging subclasses (same behaviour,
each shared access is appended to one global access log), the lock by a
cooperative lock, `sleep` by a parking no-op; every other blocking primitive the
traced modules can name (threading.Lock/RLock/Event/Condition/Semaphore, time.sleep, the
threading / time modules themselves) is replaced in their namespaces by a schedulable
version, and a wall-clock watchdog bounds every resume: a thread that does not come
back (blocked in a wait the scheduler cannot see) ends the run as "stuck".

A configuration is a list of threads  dict(key=[app, remote, sid], cb=bool, ops=[...])
with ops  ["connect"] | ["send", m] | ["recv"] | ["recvnb"] | ["disconnect"].
A schedule is a list of thread ids.  Two granularities:
  mode="line"    one entry = resume that thread for one source line
  mode="access"  threads park BEFORE every shared access (no tracing); one entry =
                 that thread performs exactly its pending access (a pending lock
                 acquisition that finds the lock taken performs nothing)
"""
import importlib
import sys
import threading
import time as _time

LEAKED = 0        # threads left blocked for real (un-patched blocking primitive) over the whole process
from collections import defaultdict


def _taken_lock():
    l = threading.Lock()
    l.acquire()
    return l


def _give(l):
    try:
        l.release()
    except RuntimeError:      # already free (only while a run is being torn down)
        pass


def _raised_in_harness(e):
    """an exception whose innermost frame is harness code, unless the real object behind a proxy raised it"""
    import traceback
    if getattr(e, "_from_impl", False):
        return False
    tb = traceback.extract_tb(e.__traceback__)
    return bool(tb) and tb[-1].filename.endswith(("hub_sched.py", "hub_common.py"))


class _Abort(BaseException):
    pass


class _Stuck(Exception):
    pass


class Run:
    """One execution of a configuration under a schedule."""
    STALE = 220
    WATCHDOG = 2.5       # seconds of wall clock a resumed thread may take to reach its next scheduling point

    def __init__(self, cfg, trace_socket_py=False, max_steps=6000, live=False, reset_api=False):
        self.cfg = cfg
        self.live = live              # use the hub object the exported socket classes are bound to (module global)
        self.reset_api = reset_api    # start this run by calling the public reset_socket_hub()
        self.n = len(cfg)
        self.hubmod = importlib.import_module("netqasm.sdk.classical_communication.thread_socket.socket_hub")
        self.sockmod = importlib.import_module("netqasm.sdk.classical_communication.thread_socket.socket")
        self.bcmod = importlib.import_module("netqasm.sdk.classical_communication.broadcast_channel")
        self.tbcmod = importlib.import_module("netqasm.sdk.classical_communication.thread_socket.broadcast_channel")
        self.files = {self.hubmod.__file__, self.bcmod.__file__, self.tbcmod.__file__}
        if trace_socket_py:
            self.files.add(self.sockmod.__file__)
        self.max_steps = max_steps
        self.log = []          # (tid, label, arg)
        self.stamp = 0         # global step counter (incremented at every resume)
        self.results = [[] for _ in cfg]      # per thread: (op index, result, start stamp, end stamp, log length at start, at end)
        self.storage = [[] for _ in cfg]
        self.lost = [0] * self.n
        self.status = ["new"] * self.n        # new | parked | done | blocked
        # hand-off between the scheduler and the threads: raw locks used as binary semaphores (initially taken)
        self.sems = [_taken_lock() for _ in cfg]
        self.main = _taken_lock()
        self.aborting = False
        self.tls = threading.local()
        self.sleeps = [0] * self.n            # consecutive sleeps without anybody's access in between
        self.stale = [0] * self.n             # line steps of a thread since shared state last changed / it finished an op
        self.appended = {}                    # ground truth: payloads appended to each hub queue, in order
        self.chans = [None] * self.n
        self.cb_events = []
        self.sobj = [None] * self.n           # structured senders: the one message object / payload list they re-use
        self.spl = [None] * self.n
        self.snaps = {}                       # header -> (header, payload) deep copy taken at send time
        self.altered = []                     # structured messages received with a value they never had when sent
        self.away = [False] * self.n
        self.away_where = {}
        self.cur_op = [0] * self.n
        self.threads = []
        self.bsocks = [[] for _ in cfg]
        self.line_sched = []                  # the line-level schedule actually executed
        self.failed_acq = [False] * self.n
        self.errors = []
        self.harness_errors = []      # the harness itself failed: never reported as a property violation
        self.mode = "line"
        self.end_reason = None
        self._build()

    # ---------------------------------------------------------------- instrumented hub
    def _build(self):
        run = self

        def me():
            return getattr(run.tls, "tid", -1)

        MUT = ("_add", "_del", "_discard", "_set", "_pop", "q_app", "q_pop", "q_insert", "q_clear", "q_del", "call_",
               "cv_notify", "ev_set", "ev_clear", "sem_rel")

        def touched():
            for i in range(run.n):
                run.sleeps[i] = 0
                run.stale[i] = 0

        def rec(label, arg=None, pre=True, mut=None, defer=False):
            if run.aborting:          # unwinding of blocked threads at the end of a run is not part of the execution
                return
            if pre and run.mode == "access":
                run.park()            # access granularity: park BEFORE every shared access
            run.log.append((me(), label, arg))
            if defer:
                return                # the proxy decides after the operation whether shared state changed
            if mut or (mut is None and any(m in label for m in MUT)):      # only a change of shared state restarts the quiescence count
                touched()

        # ---- generic recording proxy: whatever container the hub creates (set, dict, defaultdict, list, deque, ...)
        # is wrapped; every attribute / operator is forwarded to the real object, every use is one recorded shared
        # access.  The label is derived at run time from the kind of the real object and the operation; whether the
        # access wrote is found by comparing the object before and after; an operation that is not known to be a
        # pure read and changed nothing still counts as a write (read+write).
        import collections
        import collections.abc as cabc
        PREFIX = {"_open_sockets": "open", "_remote_sockets": "rem", "_messages": "q",
                  "_recv_callbacks": "rcb", "_conn_lost_callbacks": "lcb"}
        READS = {"__len__", "__bool__", "__iter__", "__contains__", "__getitem__", "get", "keys", "values", "items",
                 "copy", "count", "index", "__eq__", "__ne__", "__repr__", "__str__", "__reversed__", "issubset",
                 "issuperset", "isdisjoint", "union", "intersection", "difference", "__or__", "__and__", "__sub__",
                 "__add__", "__lt__", "__le__", "__gt__", "__ge__"}
        SET_OPS = {"__contains__": "has", "add": "add", "remove": "del", "discard": "discard"}
        MAP_OPS = {"__getitem__": "get", "get": "get", "__contains__": "has", "__setitem__": "set", "pop": "pop",
                   "__delitem__": "pop", "setdefault": "setdefault"}
        SEQ_OPS = {"__len__": "len", "__bool__": "len", "append": "app", "popleft": "pop", "insert": "insert",
                   "appendleft": "insert", "clear": "clear", "__delitem__": "del", "__getitem__": "getitem",
                   "__iter__": "iter", "extend": "extend"}
        CONTAINERS = (set, frozenset, dict, list, collections.deque)

        def kind_of(raw):
            if isinstance(raw, (set, frozenset, cabc.Set)):
                return "set"
            if isinstance(raw, cabc.Mapping):
                return "map"
            return "seq"

        def snap(raw):
            try:
                if isinstance(raw, cabc.Mapping):
                    return [(k, snap(v) if isinstance(v, CONTAINERS) else id(v)) for k, v in list(dict.items(raw))
                            ] if isinstance(raw, dict) else list(raw.items())
                if isinstance(raw, (set, frozenset)):
                    return set(raw)
                return list(raw)
            except Exception:
                return None

        def label_of(p, op, args):
            kind, pre = p._kind, p._nm
            if kind == "set":
                nm = SET_OPS.get(op, op)
            elif kind == "map":
                if pre == "q" and op in ("__getitem__", "get", "setdefault"):
                    return "q_ref"
                nm = MAP_OPS.get(op, op)
            else:
                if op == "pop":
                    nm = "pop" if args[:1] == (0,) else "pop_other"
                else:
                    nm = SEQ_OPS.get(op, op)
            return f"{pre}_{nm}"

        children = {}

        def wrap(v, nm, key=None):
            """wrap containers (only), one proxy per real object"""
            if isinstance(v, Rec) or not isinstance(v, CONTAINERS):
                return v
            pr = children.get(id(v))
            if pr is None or pr._raw is not v:
                pr = Rec(v, nm, key)
                children[id(v)] = pr
            return pr

        class Rec:
            __slots__ = ("_raw", "_nm", "_key", "_kind", "__weakref__")

            def __init__(s, raw, nm, key=None):
                object.__setattr__(s, "_raw", raw)
                object.__setattr__(s, "_nm", nm)
                object.__setattr__(s, "_key", key)
                object.__setattr__(s, "_kind", kind_of(raw))

            @property
            def __class__(s):          # isinstance(proxy, list / dict / ...) answers like the real object
                return type(s._raw)

            def _do(s, op, *a, **k):
                raw = s._raw
                args = tuple(x._raw if isinstance(x, Rec) else x for x in a)
                arg = s._key if s._kind == "seq" else (list(args[0]) if args and isinstance(args[0], tuple) else None)
                lab = label_of(s, op, args)
                known_read = op in READS and not (isinstance(raw, collections.defaultdict) and op == "__getitem__")
                rec(lab, arg, mut=False if known_read else None, defer=True)
                before = None if known_read else snap(raw)
                try:
                    res = getattr(raw, op)(*args, **k) if op != "__bool__" else bool(raw)
                except BaseException as e:      # the real object refused: that is the implementation's doing
                    try:
                        e._from_impl = True
                    except Exception:
                        pass
                    raise
                if not known_read:
                    after = snap(raw)
                    changed = before is None or after is None or before != after or (op not in READS and lab.split("_")[-1] not in ("ref",))
                    if s._nm == "q" and s._kind == "seq" and before is not None and after is not None and len(after) > len(before):
                        new = after[len(before):] if after[:len(before)] == before else after[:len(after) - len(before)]
                        run.appended.setdefault(tuple(s._key or ()), []).extend(new)
                    if changed:
                        touched()
                if s._kind == "map" and isinstance(res, CONTAINERS):
                    res = wrap(res, s._nm, list(args[0]) if args and isinstance(args[0], tuple) else None)
                return res

            def __getattr__(s, name):
                try:
                    attr = getattr(s._raw, name)
                except AttributeError as e:        # the real object has no such attribute: the implementation's doing
                    e._from_impl = True
                    raise
                if callable(attr):
                    return lambda *a, **k: s._do(name, *a, **k)
                return attr

            def __setattr__(s, name, value):
                setattr(s._raw, name, value)

            def __len__(s): return s._do("__len__")
            def __bool__(s): return s._do("__bool__")
            def __iter__(s): return s._do("__iter__")
            def __reversed__(s): return s._do("__reversed__")
            def __contains__(s, x): return s._do("__contains__", x)
            def __getitem__(s, k): return s._do("__getitem__", k)
            def __setitem__(s, k, v): return s._do("__setitem__", k, v)
            def __delitem__(s, k): return s._do("__delitem__", k)
            def __eq__(s, o): return s._do("__eq__", o)
            def __ne__(s, o): return s._do("__ne__", o)
            def __repr__(s): return repr(s._raw)
            def __str__(s): return str(s._raw)
            def __or__(s, o): return s._do("__or__", o)
            def __and__(s, o): return s._do("__and__", o)
            def __sub__(s, o): return s._do("__sub__", o)
            def __add__(s, o): return s._do("__add__", o)
            def __ior__(s, o): s._do("__ior__", o); return s
            def __iand__(s, o): s._do("__iand__", o); return s
            def __isub__(s, o): s._do("__isub__", o); return s
            def __iadd__(s, o): s._do("__iadd__", o); return s
            __hash__ = None

        self.Rec = Rec

        def wait_park(label):
            """a blocking wait that is not satisfied yet: a scheduling point that counts like a polling sleep"""
            tid = me()
            if run.aborting:
                raise _Abort()
            if run.mode == "access":
                run.park()
            run.log.append((tid, label, None))
            run.sleeps[tid] += 1
            if run.mode != "access":
                run.park()

        class CoopLock:
            """cooperative stand-in for threading.Lock / RLock"""
            def __init__(s, reentrant=False):
                s.owner = None
                s.count = 0
                s.reentrant = reentrant

            def acquire(s, blocking=True, timeout=-1):
                tries = 0
                while True:
                    if run.mode == "access" and not run.aborting:
                        run.park()
                    if s.owner is None or (s.reentrant and s.owner == me()):
                        s.owner = me()
                        s.count += 1
                        rec("acq", pre=False)
                        return True
                    if not blocking:
                        return False
                    tries += 1
                    if timeout is not None and timeout >= 0 and tries > 3:     # no wall clock: a timed acquire gives up
                        return False
                    run.failed_acq[me()] = True
                    if run.mode != "access":
                        run.park()

            def release(s):
                if run.mode == "access" and not run.aborting:
                    run.park()
                if s.owner != me() and not run.aborting:
                    run.errors.append("release of a lock not held by the releasing thread")
                s.count = max(0, s.count - 1)
                if s.count == 0:
                    s.owner = None
                rec("rel", pre=False)

            def locked(s):
                return s.owner is not None

            def _is_owned(s):
                return s.owner == me()

            def __enter__(s):
                s.acquire()
                return s

            def __exit__(s, *a):
                s.release()
                return False

        class CoopEvent:
            """cooperative stand-in for threading.Event: wait() is a scheduling point"""
            def __init__(s):
                s.flag = False

            def is_set(s):
                rec("ev_isset")
                return s.flag

            isSet = is_set

            def set(s):
                rec("ev_set")
                s.flag = True

            def clear(s):
                rec("ev_clear")
                s.flag = False

            def wait(s, timeout=None):
                tries = 0
                while True:
                    if s.flag:
                        rec("ev_wait_ok")
                        return True
                    tries += 1
                    if timeout is not None and tries > 3:      # no wall clock: a timed wait expires after a few rounds
                        rec("ev_wait_timeout")
                        return False
                    wait_park("wait")

        class CoopCondition:
            """cooperative stand-in for threading.Condition (FIFO wake-up like CPython's)"""
            def __init__(s, lock=None):
                s.lock = lock if lock is not None else CoopLock(reentrant=True)
                s.waiters = []
                s.acquire = s.lock.acquire
                s.release = s.lock.release

            def __enter__(s):
                s.lock.acquire()
                return s

            def __exit__(s, *a):
                s.lock.release()
                return False

            def wait(s, timeout=None):
                if s.lock.owner != me():
                    raise RuntimeError("cannot wait on un-acquired lock")
                ticket = [False]
                s.waiters.append(ticket)
                saved = s.lock.count
                s.lock.count = 1
                s.lock.release()
                tries = 0
                ok = True
                while not ticket[0]:
                    tries += 1
                    if timeout is not None and tries > 3:
                        ok = False
                        if ticket in s.waiters:
                            s.waiters.remove(ticket)
                        break
                    wait_park("wait")
                s.lock.acquire()
                s.lock.count = saved
                return ok

            def wait_for(s, predicate, timeout=None):
                result = predicate()
                tries = 0
                while not result:
                    tries += 1
                    if timeout is not None and tries > 3:
                        break
                    s.wait(timeout)
                    result = predicate()
                return result

            def notify(s, n=1):
                if s.lock.owner != me():
                    raise RuntimeError("cannot notify on un-acquired lock")
                rec("cv_notify")
                for ticket in s.waiters[:n]:
                    ticket[0] = True
                del s.waiters[:n]

            def notify_all(s):
                s.notify(len(s.waiters))

            notifyAll = notify_all

        class CoopSemaphore:
            def __init__(s, value=1):
                s.value = value

            def acquire(s, blocking=True, timeout=None):
                tries = 0
                while True:
                    if s.value > 0:
                        s.value -= 1
                        rec("sem_acq")
                        return True
                    if not blocking:
                        return False
                    tries += 1
                    if timeout is not None and tries > 3:
                        return False
                    wait_park("wait")

            def release(s, n=1):
                rec("sem_rel")
                s.value += n

            __enter__ = acquire

            def __exit__(s, *a):
                s.release()

        self.CoopLock = CoopLock
        # ---- every blocking primitive the traced modules can name is replaced by a schedulable one (found by
        # introspection of the module namespaces, so a rewrite of the hub to events / conditions is still explored)
        import time as _time
        import types
        coop = {id(threading.Lock): lambda *a, **k: CoopLock(), id(threading.RLock): lambda *a, **k: CoopLock(reentrant=True),
                id(threading.Event): CoopEvent, id(threading.Condition): CoopCondition,
                id(threading.Semaphore): CoopSemaphore, id(threading.BoundedSemaphore): CoopSemaphore}

        def psleep(t=0):
            wait_park("sleep")

        self.psleep = psleep
        thr_proxy = types.SimpleNamespace(**{k: getattr(threading, k) for k in dir(threading) if not k.startswith("__")})
        for nm in ("Lock", "RLock", "Event", "Condition", "Semaphore", "BoundedSemaphore"):
            setattr(thr_proxy, nm, coop[id(getattr(threading, nm))])
        time_proxy = types.SimpleNamespace(**{k: getattr(_time, k) for k in dir(_time) if not k.startswith("__")})
        time_proxy.sleep = psleep
        self._patched = []
        for mod in (self.hubmod, self.sockmod, self.bcmod, self.tbcmod):
            for nm, val in list(vars(mod).items()):
                rep = None
                if id(val) in coop and val in (threading.Lock, threading.RLock, threading.Event, threading.Condition,
                                               threading.Semaphore, threading.BoundedSemaphore):
                    rep = coop[id(val)]
                elif val is _time.sleep:
                    rep = psleep
                elif val is threading:
                    rep = thr_proxy
                elif val is _time:
                    rep = time_proxy
                if rep is not None:
                    self._patched.append((mod, nm, val))
                    setattr(mod, nm, rep)

        def hub_setattr(h, name, value):
            object.__setattr__(h, name, wrap(value, PREFIX.get(name, name.lstrip("_"))))

        if not self.live:
            RecHub = type("RecHub", (self.hubmod._SocketHub,), {"__setattr__": hub_setattr})
            hub = RecHub()
        else:
            # the hub the exported socket classes really use (bound at import time), instrumented in place
            hub = self.sockmod.ThreadSocket._SOCKET_HUB
            plain = next(c for c in type(hub).__mro__ if c.__name__ != "RecHub")
            self._live_plain = plain
            object.__setattr__(hub, "__class__", type("RecHub", (plain,), {"__setattr__": hub_setattr}))
            if self.reset_api:
                self.hubmod.reset_socket_hub()        # the public way of starting from a fresh hub
            else:
                hub.__init__()
            hub = self.sockmod.ThreadSocket._SOCKET_HUB
            for name, val in list(vars(hub).items()):  # take over whatever state is there now
                raw = val._raw if type(val).__name__ == "Rec" else val
                object.__setattr__(hub, name, wrap(raw, PREFIX.get(name, name.lstrip("_"))))
        if not isinstance(getattr(hub, "_lock", None), CoopLock):
            object.__setattr__(hub, "_lock", CoopLock())
        self.hub = hub


        # every socket class socket.py exports (ThreadSocket, StorageThreadSocket, ...) gets a thin subclass that
        # tags the owning thread, records callback calls and does not disconnect on garbage collection
        import inspect
        base = self.sockmod.ThreadSocket
        exported = [c for c in vars(self.sockmod).values() if isinstance(c, type) and issubclass(c, base)]

        def make_h(C):
            class H(C):
                _tid = -1

                def __init__(s, tid, *a, **kw):
                    s._tid = tid
                    C.__init__(s, *a, **kw)

                def recv_callback(s, msg):
                    if run.mode == "access" and not run.aborting:
                        run.park()
                    C.recv_callback(s, msg)          # the class's own behaviour (StorageThreadSocket stores the message)
                    rec("call_recv", s._tid, pre=False)          # recorded when the message has been taken (its effect)
                    at = len(run.log) - 1
                    run.cb_events.append((at, s._tid, msg))     # when the callback observed the message
                    run.storage[s._tid].append(msg)

                def conn_lost_callback(s):
                    rec("call_lost", s._tid)
                    run.lost[s._tid] += 1

                def __del__(s):     # no implicit disconnect: Disconnect is an explicit op
                    pass

            H.__name__ = "H" + C.__name__
            H._takes_cb = "use_callbacks" in inspect.signature(C.__init__).parameters
            if not run.live:
                H._SOCKET_HUB = hub
            return H

        self.hcls = {C.__name__: make_h(C) for C in exported}
        HSock = self.hcls["ThreadSocket"]
        self.HSock = HSock
        self.socks = [None] * self.n

    # ---------------------------------------------------------------- worker side
    def park(self):
        tid = self.tls.tid
        if self.aborting:          # the run is being torn down (also reached from line events while unwinding)
            raise _Abort()
        if self.away[tid]:
            # this thread had been given up by the watchdog (it sat in a wait the scheduler cannot see) and
            # has come back by itself: it becomes schedulable again, the scheduler is not waiting for it
            self.away[tid] = False
            self.status[tid] = "parked"
        else:
            self.status[tid] = "parked"
            _give(self.main)
        self.sems[tid].acquire()
        if self.aborting:
            raise _Abort()

    def _tracer(self):
        run = self

        def local(frame, event, arg):
            if event == "line":
                run.park()
            return local

        sockfile = self.sockmod.__file__

        def glob(frame, event, arg):
            fn = frame.f_code.co_filename
            if fn in run.files or (fn == sockfile and frame.f_code.co_name == "__init__"):
                return local        # hub / broadcast code, and the CONSTRUCTORS of the socket classes
            return None

        return glob

    def _do(self, tid, op):
        th = self.cfg[tid]
        if th.get("kind") == "bc":
            return self._do_bc(tid, th, op)
        k = th["key"]
        if op[0] == "connect":
            H = self.hcls[th.get("cls", "ThreadSocket")]
            s = H.__new__(H)
            self.socks[tid] = s     # keep alive even when the constructor is aborted
            kw = dict(socket_id=k[2])
            if H._takes_cb:
                kw["use_callbacks"] = bool(th["cb"])
            s.__init__(tid, k[0], k[1], **kw)
            return "ok"
        s = self.socks[tid]
        if s is None:               # an endpoint object that never connected: build it without connecting
            s = self.HSock.__new__(self.HSock)
            s._tid = tid
            s._app_name, s._remote_app_name, s._id = k[0], k[1], k[2]
            s._use_callbacks = bool(th["cb"])
            s._line_tracker = None
            s._comm_logger = None
            self.socks[tid] = s
        if th.get("structured"):
            # structured delivery: the sender re-uses ONE StructuredMessage object and ONE payload list, changing them
            # in place before every send; the receiver observes by value; what was sent = a deep copy at send time
            if op[0] == "send":
                if self.sobj[tid] is None:
                    from netqasm.sdk.classical_communication.message import StructuredMessage
                    self.spl[tid] = []
                    self.sobj[tid] = StructuredMessage(header="", payload=self.spl[tid])
                self.spl[tid].append(op[1])
                self.sobj[tid].header = "h:" + op[1]
                self.snaps["h:" + op[1]] = ("h:" + op[1], list(self.spl[tid]))
                s.send_structured(self.sobj[tid])
                return "ok"
            if op[0] in ("recv", "recvnb"):
                import copy
                msg = s.recv_structured(block=(op[0] == "recv"))
                got = (getattr(msg, "header", None), copy.deepcopy(getattr(msg, "payload", msg)))
                want = self.snaps.get(got[0])
                if want is not None and (want[0], want[1]) == (got[0], got[1]):
                    return ["msg", got[0][2:]]
                self.altered.append((tid, got, want))
                return ["msg", "<altered>"]
        if op[0] == "send":
            s.send(op[1])
            return "ok"
        if op[0] == "recv":
            return ["msg", s.recv()]
        if op[0] == "recvnb":
            return ["msg", s.recv(block=False)]
        if op[0] == "disconnect":
            self.hub.disconnect(s)
            return "ok"
        if op[0] == "setcb":            # the use_callbacks setter on an existing socket
            s.use_callbacks = bool(op[1])
            return "ok"
        raise ValueError(op)

    def _do_bc(self, tid, th, op):
        """a ThreadBroadcastChannel endpoint: one thread socket per remote node"""
        run = self
        if op[0] == "bconnect":
            HS = self.HSock

            class S(HS):
                def __init__(s, app_name, remote_app_name, **kw):
                    run.bsocks[tid].append(s)        # keep alive, also when the constructor is aborted
                    HS.__init__(s, tid, app_name, remote_app_name, **kw)

            class C(self.tbcmod.ThreadBroadcastChannel):
                _socket_class = S

            self.bsocks[tid] = []
            self.chans[tid] = C(th["app"], list(th["remotes"]))
            return "ok"
        ch = self.chans[tid]
        if op[0] == "bsend":
            ch.send(op[1])
            return "ok"
        if op[0] == "brecv":
            who, msg = ch.recv()
            return ["bmsg", who, msg]
        if op[0] == "bclose":
            for sk in ch._sockets.values():
                self.hub.disconnect(sk)
            return "ok"
        raise ValueError(op)

    def _worker(self, tid):
        self.tls.tid = tid
        self.sems[tid].acquire()          # wait for the first resume
        cur = [0]
        try:
            if self.aborting:
                raise _Abort()
            if self.mode != "access":
                sys.settrace(self._tracer())
            for i, op in enumerate(self.cfg[tid]["ops"]):
                cur[0] = i
                self.cur_op[tid] = i
                start = self.stamp
                lstart = len(self.log)
                try:
                    r = self._do(tid, op)
                except ConnectionError:
                    r = "connerr"
                except IndexError:
                    r = "indexerr"
                except RuntimeError:
                    r = "empty" if op[0] == "recvnb" else "runtime"
                except KeyError:
                    r = "keyerr"
                except Exception as e:          # any other exception: the implementation's or the harness's?
                    if _raised_in_harness(e):
                        raise
                    r = "crash:" + type(e).__name__
                self.results[tid].append((i, r, start, self.stamp, lstart, len(self.log)))
                self.stale[tid] = 0
            self.status[tid] = "done"
        except _Abort:
            self.status[tid] = "blocked"
            self.results[tid].append((cur[0], "blocked", -1, -1, -1, len(self.log)))
        except BaseException as e:       # noqa: a defect of the harness, never a verdict about the hub
            import traceback
            self.status[tid] = "done"
            tb = traceback.extract_tb(e.__traceback__)[-1]
            self.harness_errors.append(f"thread {tid}: {type(e).__name__}: {e} (at {tb.filename.split('/')[-1]}:{tb.lineno})")
        finally:
            sys.settrace(None)
            if self.away[tid]:
                self.away[tid] = False
            else:
                _give(self.main)

    # ---------------------------------------------------------------- main side
    def runnable(self):
        return [t for t in range(self.n) if self.status[t] in ("new", "parked")]

    def _resume(self, tid):
        self.stamp += 1
        self.stale[tid] += 1
        self.line_sched.append(tid)
        _give(self.sems[tid])
        if not self.main.acquire(True, self.WATCHDOG):
            self._stuck(tid)
        if self.failed_acq[tid]:
            self.stale[tid] -= 1          # a step spent waiting for a lock is not idle spinning

    def _stuck(self, tid):
        """the resumed thread reached no scheduling point within the wall-clock bound: it is blocked inside
        something the scheduler cannot see (a C-level wait on an un-patched primitive).  It is taken off the
        schedule ("away") until it comes back by itself; the run goes on with the other threads."""
        import traceback
        self.away[tid] = True
        if self.main.acquire(False):          # it came back this very moment
            self.away[tid] = False
            return
        where = "?"
        fr = sys._current_frames().get(self.threads[tid].ident)
        if fr is not None:
            st = traceback.extract_stack(fr)[-3:]
            where = " <- ".join(f"{f.filename.split('/')[-1]}:{f.lineno} {f.name}" for f in reversed(st))
        self.status[tid] = "away"
        self.away_where[tid] = where

    def step(self, tid, mode):
        """Resume thread tid.  Returns False when it cannot run."""
        if self.status[tid] not in ("new", "parked"):
            return False
        self.failed_acq[tid] = False
        self._resume(tid)
        return True

    def quiescent(self):
        """every unfinished thread has slept twice in a row while nobody touched shared state"""
        r = self.runnable()
        # (a busy-waiting loop without sleep, e.g. BroadcastChannel.recv, counts as blocked after
        # STALE line steps during which nobody changed shared state and it finished no op)
        return bool(r) and all(self.sleeps[t] >= 2 or self.stale[t] >= self.STALE for t in r)

    def execute(self, chooser, mode="line"):
        """chooser(run, runnable) -> tid.  Runs to completion or quiescence."""
        self.mode = mode
        ths = [threading.Thread(target=self._worker, args=(t,), daemon=True) for t in range(self.n)]
        self.threads = ths
        for t in ths:
            t.start()
        try:
            steps = 0
            if mode == "access":      # bring every thread to its first shared access (local code only)
                for t in range(self.n):
                    self._resume(t)
                self.line_sched = []
            while True:
                r = self.runnable()
                if not r and "away" in self.status:
                    # only threads blocked for real are left: give them a moment to come back
                    t_end = _time.time() + 0.4
                    while _time.time() < t_end and not self.runnable():
                        _time.sleep(0.02)
                    r = self.runnable()
                    if not r:
                        self.end_reason = "quiescent"
                        break
                if not r:
                    self.end_reason = "done"
                    break
                if self.quiescent():
                    self.end_reason = "quiescent"
                    break
                if steps >= self.max_steps:
                    self.end_reason = "budget"
                    self.harness_errors.append("step budget exhausted (no completion, no quiescence)")
                    break
                tid = chooser(self, r)
                if tid is None:
                    self.end_reason = "schedule-exhausted"
                    break
                self.step(tid, mode)
                steps += 1
        finally:
            self.aborting = True
            global LEAKED
            for t in range(self.n):
                if self.status[t] in ("new", "parked"):
                    _give(self.sems[t])
                elif self.status[t] == "away":       # cannot be unwound: the thread stays blocked (daemon), it is leaked
                    self.status[t] = "blocked"
                    self.results[t].append((self.cur_op[t], "blocked", -1, -1, -1, len(self.log)))
                    LEAKED += 1
            for i, t in enumerate(ths):
                t.join(timeout=0.05 if i in self.away_where and self.away[i] else 5)
            self.restore()
        return self

    def cleanup_live(self):
        """give the module-level hub back: plain class, fresh state (call after the last live run)"""
        hub = self.sockmod.ThreadSocket._SOCKET_HUB
        object.__setattr__(hub, "__class__", self._live_plain)
        hub.__init__()

    def restore(self):
        for mod, nm, val in reversed(self._patched):
            setattr(mod, nm, val)
        self._patched = []

    # ---------------------------------------------------------------- raw views of the hub (no recording)
    def _rawattr(self, name):
        v = getattr(self.hub, name, None)
        return v._raw if isinstance(v, self.Rec) else v

    def raw_queues(self):
        """{key tuple: [payloads]} of the hub's pending messages, whatever containers it uses"""
        out = {}
        m = self._rawattr("_messages")
        try:
            for k, v in list(m.items()):
                v = v._raw if isinstance(v, self.Rec) else v
                out[tuple(k)] = list(v)
        except Exception:
            pass
        return out

    def raw_keys(self, name):
        v = self._rawattr(name)
        try:
            return [tuple(k) for k in list(v)]
        except Exception:
            return []

    # ---------------------------------------------------------------- observations
    def outcome(self):
        """Canonical observable outcome (same shape as the model's)."""
        th = []
        for t in range(self.n):
            res = []
            for (_i, r, *_rest) in self.results[t]:
                res.append(r if isinstance(r, str) else list(r))
            th.append(dict(res=res, store=list(self.storage[t]), lost=self.lost[t]))
        q = {}
        for k, v in self.raw_queues().items():
            if v:
                q[str(list(k))] = list(v)
        return dict(threads=th, queues=q,
                    open=sorted(list(k) for k in self.raw_keys("_open_sockets")),
                    rem=sorted(list(k) for k in self.raw_keys("_remote_sockets")))

    def access_schedule(self):
        return [t for (t, _l, _a) in self.log]

    def labels(self):
        return [l for (_t, l, _a) in self.log]


def random_chooser(rng, p_switch=0.3):
    """PCT-flavoured: keep running the current thread, pre-empt with probability p_switch."""
    state = {"cur": None}

    def ch(run, runnable):
        c = state["cur"]
        if c in runnable and rng.random() > p_switch and not run.failed_acq[c] and run.sleeps[c] == 0 \
                and (run.stale[c] < 50 or run.stale[c] % 50):
            return c
        c = rng.choice(runnable)
        state["cur"] = c
        return c

    return ch


def list_chooser(schedule, then_round_robin=True):
    it = iter(schedule)
    rr = {"i": 0}

    def ch(run, runnable):
        for t in it:
            if t in runnable:
                return t
        if not then_round_robin:
            return None
        rr["i"] += 1
        return runnable[rr["i"] % len(runnable)]

    return ch


def pct_chooser(rng, n, depth=3, est_len=150):
    """PCT-style: random thread priorities, the highest-priority runnable thread runs;
    at depth-1 random steps the running thread drops to the lowest priority.  A
    thread that just slept in a poll loop or failed to take the lock is demoted too
    (otherwise a polling thread would starve the thread it waits for)."""
    prio = list(range(n))
    rng.shuffle(prio)
    pr = {t: float(prio[t] + 1) for t in range(n)}
    low = [0.0]
    change = set(rng.randrange(1, est_len) for _ in range(max(0, depth - 1)))
    cnt = [0]
    last = [None]

    def demote(t):
        low[0] -= 1.0
        pr[t] = low[0]

    def ch(run, runnable):
        cnt[0] += 1
        c = last[0]
        if c is not None and (run.failed_acq[c] or (run.log and run.log[-1][0] == c and run.log[-1][1] in ("sleep", "wait"))
                              or (run.stale[c] >= 50 and run.stale[c] % 50 == 0)):   # busy-waiting without sleep
            demote(c)
        t = max(runnable, key=lambda x: pr[x])
        if cnt[0] in change:
            demote(t)
            t = max(runnable, key=lambda x: pr[x])
        last[0] = t
        return t

    return ch
