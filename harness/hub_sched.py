"""Line-level deterministic scheduler for the real thread-socket hub (C18).

The REAL `_SocketHub` / `ThreadSocket` code runs in real threads.  Every thread is
traced with sys.settrace and parks at each 'line' event whose code lives in
socket_hub.py (optionally socket.py too); the main thread decides who runs next.
The hub's shared containers are replaced by logging subclasses (same behaviour,
each shared access is appended to one global access log), the lock by a
cooperative lock, `sleep` by a parking no-op.

A configuration is a list of threads  dict(key=[app, remote, sid], cb=bool, ops=[...])
with ops  ["connect"] | ["send", m] | ["recv"] | ["recvnb"] | ["disconnect"].
A schedule is a list of thread ids.  Two granularities:
  mode="line"    one entry = resume that thread for one source line
  mode="access"  threads park BEFORE every shared access (no tracing); one entry =
                 that thread performs exactly its pending access (a pending lock
                 acquisition that finds the lock taken performs nothing)
"""
import importlib
import sys
import threading
from collections import defaultdict


class _Abort(BaseException):
    pass


class Run:
    """One execution of a configuration under a schedule."""
    STALE = 220

    def __init__(self, cfg, trace_socket_py=False, max_steps=6000):
        self.cfg = cfg
        self.n = len(cfg)
        self.hubmod = importlib.import_module("netqasm.sdk.classical_communication.thread_socket.socket_hub")
        self.sockmod = importlib.import_module("netqasm.sdk.classical_communication.thread_socket.socket")
        self.bcmod = importlib.import_module("netqasm.sdk.classical_communication.broadcast_channel")
        self.tbcmod = importlib.import_module("netqasm.sdk.classical_communication.thread_socket.broadcast_channel")
        self.files = {self.hubmod.__file__, self.bcmod.__file__, self.tbcmod.__file__}
        if trace_socket_py:
            self.files.add(self.sockmod.__file__)
        self.max_steps = max_steps
        self.log = []          # (tid, label, arg)
        self.stamp = 0         # global step counter (incremented at every resume)
        self.results = [[] for _ in cfg]      # per thread: (op index, result, start stamp, end stamp, log length at start, at end)
        self.storage = [[] for _ in cfg]
        self.lost = [0] * self.n
        self.status = ["new"] * self.n        # new | parked | done | blocked
        self.sems = [threading.Semaphore(0) for _ in cfg]
        self.main = threading.Semaphore(0)
        self.aborting = False
        self.tls = threading.local()
        self.sleeps = [0] * self.n            # consecutive sleeps without anybody's access in between
        self.stale = [0] * self.n             # line steps of a thread since shared state last changed / it finished an op
        self.appended = {}                    # ground truth: payloads appended to each hub queue, in order
        self.chans = [None] * self.n
        self.cb_events = []
        self.bsocks = [[] for _ in cfg]
        self.line_sched = []                  # the line-level schedule actually executed
        self.failed_acq = [False] * self.n
        self.errors = []
        self.mode = "line"
        self.end_reason = None
        self._build()

    # ---------------------------------------------------------------- instrumented hub
    def _build(self):
        run = self

        def me():
            return getattr(run.tls, "tid", -1)

        MUT = ("_add", "_del", "_discard", "_set", "_pop", "q_app", "q_pop", "q_insert", "q_clear", "q_del", "call_")

        def rec(label, arg=None, pre=True):
            if run.aborting:          # unwinding of blocked threads at the end of a run is not part of the execution
                return
            if pre and run.mode == "access":
                run.park()            # access granularity: park BEFORE every shared access
            run.log.append((me(), label, arg))
            if any(m in label for m in MUT):      # only a change of shared state restarts the quiescence count
                for i in range(run.n):
                    run.sleeps[i] = 0
                    run.stale[i] = 0

        class LSet(set):
            def __init__(s, nm):
                super().__init__()
                s.nm = nm

            def __contains__(s, k):
                rec(s.nm + "_has", list(k))
                return set.__contains__(s, k)

            def add(s, k):
                rec(s.nm + "_add", list(k))
                set.add(s, k)

            def remove(s, k):
                rec(s.nm + "_del", list(k))
                set.remove(s, k)

            def discard(s, k):
                rec(s.nm + "_discard", list(k))
                set.discard(s, k)

        class LList(list):
            key = None

            def __len__(s):
                rec("q_len", s.key)
                return list.__len__(s)

            def append(s, m):
                rec("q_app", s.key)
                run.appended.setdefault(tuple(s.key), []).append(m)
                list.append(s, m)

            def pop(s, *a):
                rec("q_pop" if a == (0,) else "q_pop_other", s.key)
                return list.pop(s, *a)

            def insert(s, *a):
                rec("q_insert", s.key)
                return list.insert(s, *a)

            def clear(s):
                rec("q_clear", s.key)
                return list.clear(s)

            def __delitem__(s, i):
                rec("q_del", s.key)
                return list.__delitem__(s, i)

            def __getitem__(s, i):
                rec("q_getitem", s.key)
                return list.__getitem__(s, i)

            def __iter__(s):
                rec("q_iter", s.key)
                return list.__iter__(s)

        class LDD(defaultdict):
            def __getitem__(s, k):
                rec("q_ref", list(k))
                if not dict.__contains__(s, k):
                    v = LList()
                    v.key = list(k)
                    dict.__setitem__(s, k, v)
                return dict.__getitem__(s, k)

            def get(s, k, d=None):
                rec("q_get", list(k))
                return dict.get(s, k, d)

        class LDict(dict):
            def __init__(s, nm):
                super().__init__()
                s.nm = nm

            def get(s, k, d=None):
                rec(s.nm + "_get", list(k))
                return dict.get(s, k, d)

            def __getitem__(s, k):
                rec(s.nm + "_get", list(k))
                return dict.__getitem__(s, k)

            def __contains__(s, k):
                rec(s.nm + "_has", list(k))
                return dict.__contains__(s, k)

            def __setitem__(s, k, v):
                rec(s.nm + "_set", list(k))
                dict.__setitem__(s, k, v)

            def pop(s, k, *d):
                rec(s.nm + "_pop", list(k))
                return dict.pop(s, k, *d)

            def __delitem__(s, k):
                rec(s.nm + "_pop", list(k))
                dict.__delitem__(s, k)

        class CoopLock:
            def __init__(s):
                s.owner = None

            def acquire(s, blocking=True, timeout=-1):
                while True:
                    if run.mode == "access" and not run.aborting:
                        run.park()
                    if s.owner is None:
                        s.owner = me()
                        rec("acq", pre=False)
                        return True
                    if not blocking:
                        return False
                    run.failed_acq[me()] = True
                    if run.mode != "access":
                        run.park()

            def release(s):
                if run.mode == "access" and not run.aborting:
                    run.park()
                if s.owner != me() and not run.aborting:
                    run.errors.append("release of a lock not held by the releasing thread")
                s.owner = None
                rec("rel", pre=False)

            def locked(s):
                return s.owner is not None

            def __enter__(s):
                s.acquire()
                return s

            def __exit__(s, *a):
                s.release()
                return False

        hub = self.hubmod._SocketHub()
        hub._open_sockets = LSet("open")
        hub._remote_sockets = LSet("rem")
        hub._messages = LDD(list)
        hub._recv_callbacks = LDict("rcb")
        hub._conn_lost_callbacks = LDict("lcb")
        hub._lock = CoopLock()
        self.hub = hub

        def psleep(t):
            tid = me()
            if run.aborting:
                raise _Abort()
            if run.mode == "access":
                run.park()
            run.log.append((tid, "sleep", None))
            run.sleeps[tid] += 1
            if run.mode != "access":
                run.park()

        self.psleep = psleep

        class HSock(self.sockmod.ThreadSocket):
            _SOCKET_HUB = hub
            _tid = -1

            def __init__(s, tid, *a, **kw):
                s._tid = tid
                super().__init__(*a, **kw)

            def recv_callback(s, msg):
                rec("call_recv", s._tid)
                run.cb_events.append((len(run.log) - 1, s._tid, msg))     # when the callback observed the message
                run.storage[s._tid].append(msg)

            def conn_lost_callback(s):
                rec("call_lost", s._tid)
                run.lost[s._tid] += 1

            def __del__(s):     # no implicit disconnect: Disconnect is an explicit op
                pass

        self.HSock = HSock
        self.socks = [None] * self.n

    # ---------------------------------------------------------------- worker side
    def park(self):
        tid = self.tls.tid
        self.status[tid] = "parked"
        self.main.release()
        self.sems[tid].acquire()
        if self.aborting:
            raise _Abort()

    def _tracer(self):
        run = self

        def local(frame, event, arg):
            if event == "line":
                run.park()
            return local

        def glob(frame, event, arg):
            if frame.f_code.co_filename in run.files:
                return local
            return None

        return glob

    def _do(self, tid, op):
        th = self.cfg[tid]
        if th.get("kind") == "bc":
            return self._do_bc(tid, th, op)
        k = th["key"]
        if op[0] == "connect":
            s = self.HSock.__new__(self.HSock)
            self.socks[tid] = s     # keep alive even when the constructor is aborted
            s.__init__(tid, k[0], k[1], socket_id=k[2], use_callbacks=bool(th["cb"]))
            return "ok"
        s = self.socks[tid]
        if s is None:               # an endpoint object that never connected: build it without connecting
            s = self.HSock.__new__(self.HSock)
            s._tid = tid
            s._app_name, s._remote_app_name, s._id = k[0], k[1], k[2]
            s._use_callbacks = bool(th["cb"])
            s._line_tracker = None
            s._comm_logger = None
            self.socks[tid] = s
        if op[0] == "send":
            s.send(op[1])
            return "ok"
        if op[0] == "recv":
            return ["msg", s.recv()]
        if op[0] == "recvnb":
            return ["msg", s.recv(block=False)]
        if op[0] == "disconnect":
            self.hub.disconnect(s)
            return "ok"
        if op[0] == "setcb":            # the use_callbacks setter on an existing socket
            s.use_callbacks = bool(op[1])
            return "ok"
        raise ValueError(op)

    def _do_bc(self, tid, th, op):
        """a ThreadBroadcastChannel endpoint: one thread socket per remote node"""
        run = self
        if op[0] == "bconnect":
            HS = self.HSock

            class S(HS):
                def __init__(s, app_name, remote_app_name, **kw):
                    run.bsocks[tid].append(s)        # keep alive, also when the constructor is aborted
                    HS.__init__(s, tid, app_name, remote_app_name, **kw)

            class C(self.tbcmod.ThreadBroadcastChannel):
                _socket_class = S

            self.bsocks[tid] = []
            self.chans[tid] = C(th["app"], list(th["remotes"]))
            return "ok"
        ch = self.chans[tid]
        if op[0] == "bsend":
            ch.send(op[1])
            return "ok"
        if op[0] == "brecv":
            who, msg = ch.recv()
            return ["bmsg", who, msg]
        if op[0] == "bclose":
            for sk in ch._sockets.values():
                self.hub.disconnect(sk)
            return "ok"
        raise ValueError(op)

    def _worker(self, tid):
        self.tls.tid = tid
        self.sems[tid].acquire()          # wait for the first resume
        cur = [0]
        try:
            if self.aborting:
                raise _Abort()
            if self.mode != "access":
                sys.settrace(self._tracer())
            for i, op in enumerate(self.cfg[tid]["ops"]):
                cur[0] = i
                start = self.stamp
                lstart = len(self.log)
                try:
                    r = self._do(tid, op)
                except ConnectionError:
                    r = "connerr"
                except IndexError:
                    r = "indexerr"
                except RuntimeError:
                    r = "empty" if op[0] == "recvnb" else "runtime"
                except KeyError:
                    r = "keyerr"
                self.results[tid].append((i, r, start, self.stamp, lstart, len(self.log)))
                self.stale[tid] = 0
            self.status[tid] = "done"
        except _Abort:
            self.status[tid] = "blocked"
            self.results[tid].append((cur[0], "blocked", -1, -1, -1, len(self.log)))
        except BaseException as e:       # noqa
            self.status[tid] = "done"
            self.errors.append(f"thread {tid}: {type(e).__name__}: {e}")
        finally:
            sys.settrace(None)
            self.main.release()

    # ---------------------------------------------------------------- main side
    def runnable(self):
        return [t for t in range(self.n) if self.status[t] in ("new", "parked")]

    def _resume(self, tid):
        self.stamp += 1
        self.stale[tid] += 1
        self.line_sched.append(tid)
        self.sems[tid].release()
        self.main.acquire()

    def step(self, tid, mode):
        """Resume thread tid.  Returns False when it cannot run."""
        if self.status[tid] not in ("new", "parked"):
            return False
        self.failed_acq[tid] = False
        self._resume(tid)
        return True

    def quiescent(self):
        """every unfinished thread has slept twice in a row while nobody touched shared state"""
        r = self.runnable()
        # (a busy-waiting loop without sleep, e.g. BroadcastChannel.recv, counts as blocked after
        # STALE line steps during which nobody changed shared state and it finished no op)
        return bool(r) and all(self.sleeps[t] >= 2 or self.stale[t] >= self.STALE for t in r)

    def execute(self, chooser, mode="line"):
        """chooser(run, runnable) -> tid.  Runs to completion or quiescence."""
        self.mode = mode
        old_sleep = self.hubmod.sleep
        self.hubmod.sleep = self.psleep
        ths = [threading.Thread(target=self._worker, args=(t,), daemon=True) for t in range(self.n)]
        for t in ths:
            t.start()
        try:
            steps = 0
            if mode == "access":      # bring every thread to its first shared access (local code only)
                for t in range(self.n):
                    self._resume(t)
                self.line_sched = []
            while True:
                r = self.runnable()
                if not r:
                    self.end_reason = "done"
                    break
                if self.quiescent():
                    self.end_reason = "quiescent"
                    break
                if steps >= self.max_steps:
                    self.end_reason = "budget"
                    self.errors.append("step budget exhausted")
                    break
                tid = chooser(self, r)
                if tid is None:
                    self.end_reason = "schedule-exhausted"
                    break
                self.step(tid, mode)
                steps += 1
        finally:
            self.aborting = True
            for t in range(self.n):
                if self.status[t] in ("new", "parked"):
                    self.sems[t].release()
            for t in ths:
                t.join(timeout=5)
            self.hubmod.sleep = old_sleep
        return self

    # ---------------------------------------------------------------- observations
    def outcome(self):
        """Canonical observable outcome (same shape as the model's)."""
        th = []
        for t in range(self.n):
            res = []
            for (_i, r, *_rest) in self.results[t]:
                res.append(r if isinstance(r, str) else list(r))
            th.append(dict(res=res, store=list(self.storage[t]), lost=self.lost[t]))
        q = {}
        for k, v in dict.items(self.hub._messages):
            if list.__len__(v):
                q[str(list(k))] = list(list.__iter__(v))
        return dict(threads=th, queues=q,
                    open=sorted(list(k) for k in set.__iter__(self.hub._open_sockets)),
                    rem=sorted(list(k) for k in set.__iter__(self.hub._remote_sockets)))

    def access_schedule(self):
        return [t for (t, _l, _a) in self.log]

    def labels(self):
        return [l for (_t, l, _a) in self.log]


def random_chooser(rng, p_switch=0.3):
    """PCT-flavoured: keep running the current thread, pre-empt with probability p_switch."""
    state = {"cur": None}

    def ch(run, runnable):
        c = state["cur"]
        if c in runnable and rng.random() > p_switch and not run.failed_acq[c] and run.sleeps[c] == 0 \
                and (run.stale[c] < 50 or run.stale[c] % 50):
            return c
        c = rng.choice(runnable)
        state["cur"] = c
        return c

    return ch


def list_chooser(schedule, then_round_robin=True):
    it = iter(schedule)
    rr = {"i": 0}

    def ch(run, runnable):
        for t in it:
            if t in runnable:
                return t
        if not then_round_robin:
            return None
        rr["i"] += 1
        return runnable[rr["i"] % len(runnable)]

    return ch


def pct_chooser(rng, n, depth=3, est_len=150):
    """PCT-style: random thread priorities, the highest-priority runnable thread runs;
    at depth-1 random steps the running thread drops to the lowest priority.  A
    thread that just slept in a poll loop or failed to take the lock is demoted too
    (otherwise a polling thread would starve the thread it waits for)."""
    prio = list(range(n))
    rng.shuffle(prio)
    pr = {t: float(prio[t] + 1) for t in range(n)}
    low = [0.0]
    change = set(rng.randrange(1, est_len) for _ in range(max(0, depth - 1)))
    cnt = [0]
    last = [None]

    def demote(t):
        low[0] -= 1.0
        pr[t] = low[0]

    def ch(run, runnable):
        cnt[0] += 1
        c = last[0]
        if c is not None and (run.failed_acq[c] or (run.log and run.log[-1][0] == c and run.log[-1][1] == "sleep")
                              or (run.stale[c] >= 50 and run.stale[c] % 50 == 0)):   # busy-waiting without sleep
            demote(c)
        t = max(runnable, key=lambda x: pr[x])
        if cnt[0] in change:
            demote(t)
            t = max(runnable, key=lambda x: pr[x])
        last[0] = t
        return t

    return ch
