"""Line-level deterministic scheduler for the real thread-socket hub (C18).

The REAL `_SocketHub` / `ThreadSocket` code runs in real threads.  Every thread is
traced with sys.settrace and parks at each 'line' event whose code lives in
socket_hub.py (optionally socket.py too); the main thread decides who runs next.
The hub's shared containers are replaced by logging subclasses (same behaviour,
each shared access is appended to one global access log), the lock by a
cooperative lock, `sleep` by a parking no-op; every other blocking primitive the
traced modules can name (threading.Lock/RLock/Event/Condition/Semaphore, time.sleep, the
threading / time modules themselves) is replaced in their namespaces by a schedulable
version, and a wall-clock watchdog bounds every resume: a thread that does not come
back (blocked in a wait the scheduler cannot see) ends the run as "stuck".

A configuration is a list of threads  dict(key=[app, remote, sid], cb=bool, ops=[...])
with ops  ["connect"] | ["send", m] | ["recv"] | ["recvnb"] | ["disconnect"].
A schedule is a list of thread ids.  Two granularities:
  mode="line"    one entry = resume that thread for one source line
  mode="access"  threads park BEFORE every shared access (no tracing); one entry =
                 that thread performs exactly its pending access (a pending lock
                 acquisition that finds the lock taken performs nothing)
"""
import importlib
import sys
import threading
import time as _time

LEAKED = 0        # threads left blocked for real (un-patched blocking primitive) over the whole process
from collections import defaultdict


def _taken_lock():
    l = threading.Lock()
    l.acquire()
    return l


def _give(l):
    try:
        l.release()
    except RuntimeError:      # already free (only while a run is being torn down)
        pass


class _Abort(BaseException):
    pass


class _Stuck(Exception):
    pass


class Run:
    """One execution of a configuration under a schedule."""
    STALE = 220
    WATCHDOG = 2.5       # seconds of wall clock a resumed thread may take to reach its next scheduling point

    def __init__(self, cfg, trace_socket_py=False, max_steps=6000):
        self.cfg = cfg
        self.n = len(cfg)
        self.hubmod = importlib.import_module("netqasm.sdk.classical_communication.thread_socket.socket_hub")
        self.sockmod = importlib.import_module("netqasm.sdk.classical_communication.thread_socket.socket")
        self.bcmod = importlib.import_module("netqasm.sdk.classical_communication.broadcast_channel")
        self.tbcmod = importlib.import_module("netqasm.sdk.classical_communication.thread_socket.broadcast_channel")
        self.files = {self.hubmod.__file__, self.bcmod.__file__, self.tbcmod.__file__}
        if trace_socket_py:
            self.files.add(self.sockmod.__file__)
        self.max_steps = max_steps
        self.log = []          # (tid, label, arg)
        self.stamp = 0         # global step counter (incremented at every resume)
        self.results = [[] for _ in cfg]      # per thread: (op index, result, start stamp, end stamp, log length at start, at end)
        self.storage = [[] for _ in cfg]
        self.lost = [0] * self.n
        self.status = ["new"] * self.n        # new | parked | done | blocked
        # hand-off between the scheduler and the threads: raw locks used as binary semaphores (initially taken)
        self.sems = [_taken_lock() for _ in cfg]
        self.main = _taken_lock()
        self.aborting = False
        self.tls = threading.local()
        self.sleeps = [0] * self.n            # consecutive sleeps without anybody's access in between
        self.stale = [0] * self.n             # line steps of a thread since shared state last changed / it finished an op
        self.appended = {}                    # ground truth: payloads appended to each hub queue, in order
        self.chans = [None] * self.n
        self.cb_events = []
        self.away = [False] * self.n
        self.away_where = {}
        self.cur_op = [0] * self.n
        self.threads = []
        self.bsocks = [[] for _ in cfg]
        self.line_sched = []                  # the line-level schedule actually executed
        self.failed_acq = [False] * self.n
        self.errors = []
        self.mode = "line"
        self.end_reason = None
        self._build()

    # ---------------------------------------------------------------- instrumented hub
    def _build(self):
        run = self

        def me():
            return getattr(run.tls, "tid", -1)

        MUT = ("_add", "_del", "_discard", "_set", "_pop", "q_app", "q_pop", "q_insert", "q_clear", "q_del", "call_")

        def rec(label, arg=None, pre=True):
            if run.aborting:          # unwinding of blocked threads at the end of a run is not part of the execution
                return
            if pre and run.mode == "access":
                run.park()            # access granularity: park BEFORE every shared access
            run.log.append((me(), label, arg))
            if any(m in label for m in MUT):      # only a change of shared state restarts the quiescence count
                for i in range(run.n):
                    run.sleeps[i] = 0
                    run.stale[i] = 0

        class LSet(set):
            def __init__(s, nm):
                super().__init__()
                s.nm = nm

            def __contains__(s, k):
                rec(s.nm + "_has", list(k))
                return set.__contains__(s, k)

            def add(s, k):
                rec(s.nm + "_add", list(k))
                set.add(s, k)

            def remove(s, k):
                rec(s.nm + "_del", list(k))
                set.remove(s, k)

            def discard(s, k):
                rec(s.nm + "_discard", list(k))
                set.discard(s, k)

        class LList(list):
            key = None

            def __len__(s):
                rec("q_len", s.key)
                return list.__len__(s)

            def append(s, m):
                rec("q_app", s.key)
                run.appended.setdefault(tuple(s.key), []).append(m)
                list.append(s, m)

            def pop(s, *a):
                rec("q_pop" if a == (0,) else "q_pop_other", s.key)
                return list.pop(s, *a)

            def insert(s, *a):
                rec("q_insert", s.key)
                return list.insert(s, *a)

            def clear(s):
                rec("q_clear", s.key)
                return list.clear(s)

            def __delitem__(s, i):
                rec("q_del", s.key)
                return list.__delitem__(s, i)

            def __getitem__(s, i):
                rec("q_getitem", s.key)
                return list.__getitem__(s, i)

            def __iter__(s):
                rec("q_iter", s.key)
                return list.__iter__(s)

        class LDD(defaultdict):
            def __getitem__(s, k):
                rec("q_ref", list(k))
                if not dict.__contains__(s, k):
                    v = LList()
                    v.key = list(k)
                    dict.__setitem__(s, k, v)
                return dict.__getitem__(s, k)

            def get(s, k, d=None):
                rec("q_get", list(k))
                return dict.get(s, k, d)

        class LDict(dict):
            def __init__(s, nm):
                super().__init__()
                s.nm = nm

            def get(s, k, d=None):
                rec(s.nm + "_get", list(k))
                return dict.get(s, k, d)

            def __getitem__(s, k):
                rec(s.nm + "_get", list(k))
                return dict.__getitem__(s, k)

            def __contains__(s, k):
                rec(s.nm + "_has", list(k))
                return dict.__contains__(s, k)

            def __setitem__(s, k, v):
                rec(s.nm + "_set", list(k))
                dict.__setitem__(s, k, v)

            def pop(s, k, *d):
                rec(s.nm + "_pop", list(k))
                return dict.pop(s, k, *d)

            def __delitem__(s, k):
                rec(s.nm + "_pop", list(k))
                dict.__delitem__(s, k)

        def wait_park(label):
            """a blocking wait that is not satisfied yet: a scheduling point that counts like a polling sleep"""
            tid = me()
            if run.aborting:
                raise _Abort()
            if run.mode == "access":
                run.park()
            run.log.append((tid, label, None))
            run.sleeps[tid] += 1
            if run.mode != "access":
                run.park()

        class CoopLock:
            """cooperative stand-in for threading.Lock / RLock"""
            def __init__(s, reentrant=False):
                s.owner = None
                s.count = 0
                s.reentrant = reentrant

            def acquire(s, blocking=True, timeout=-1):
                tries = 0
                while True:
                    if run.mode == "access" and not run.aborting:
                        run.park()
                    if s.owner is None or (s.reentrant and s.owner == me()):
                        s.owner = me()
                        s.count += 1
                        rec("acq", pre=False)
                        return True
                    if not blocking:
                        return False
                    tries += 1
                    if timeout is not None and timeout >= 0 and tries > 3:     # no wall clock: a timed acquire gives up
                        return False
                    run.failed_acq[me()] = True
                    if run.mode != "access":
                        run.park()

            def release(s):
                if run.mode == "access" and not run.aborting:
                    run.park()
                if s.owner != me() and not run.aborting:
                    run.errors.append("release of a lock not held by the releasing thread")
                s.count = max(0, s.count - 1)
                if s.count == 0:
                    s.owner = None
                rec("rel", pre=False)

            def locked(s):
                return s.owner is not None

            def _is_owned(s):
                return s.owner == me()

            def __enter__(s):
                s.acquire()
                return s

            def __exit__(s, *a):
                s.release()
                return False

        class CoopEvent:
            """cooperative stand-in for threading.Event: wait() is a scheduling point"""
            def __init__(s):
                s.flag = False

            def is_set(s):
                rec("ev_isset")
                return s.flag

            isSet = is_set

            def set(s):
                rec("ev_set")
                s.flag = True

            def clear(s):
                rec("ev_clear")
                s.flag = False

            def wait(s, timeout=None):
                tries = 0
                while True:
                    if s.flag:
                        rec("ev_wait_ok")
                        return True
                    tries += 1
                    if timeout is not None and tries > 3:      # no wall clock: a timed wait expires after a few rounds
                        rec("ev_wait_timeout")
                        return False
                    wait_park("wait")

        class CoopCondition:
            """cooperative stand-in for threading.Condition (FIFO wake-up like CPython's)"""
            def __init__(s, lock=None):
                s.lock = lock if lock is not None else CoopLock(reentrant=True)
                s.waiters = []
                s.acquire = s.lock.acquire
                s.release = s.lock.release

            def __enter__(s):
                s.lock.acquire()
                return s

            def __exit__(s, *a):
                s.lock.release()
                return False

            def wait(s, timeout=None):
                if s.lock.owner != me():
                    raise RuntimeError("cannot wait on un-acquired lock")
                ticket = [False]
                s.waiters.append(ticket)
                saved = s.lock.count
                s.lock.count = 1
                s.lock.release()
                tries = 0
                ok = True
                while not ticket[0]:
                    tries += 1
                    if timeout is not None and tries > 3:
                        ok = False
                        if ticket in s.waiters:
                            s.waiters.remove(ticket)
                        break
                    wait_park("wait")
                s.lock.acquire()
                s.lock.count = saved
                return ok

            def wait_for(s, predicate, timeout=None):
                result = predicate()
                tries = 0
                while not result:
                    tries += 1
                    if timeout is not None and tries > 3:
                        break
                    s.wait(timeout)
                    result = predicate()
                return result

            def notify(s, n=1):
                if s.lock.owner != me():
                    raise RuntimeError("cannot notify on un-acquired lock")
                rec("cv_notify")
                for ticket in s.waiters[:n]:
                    ticket[0] = True
                del s.waiters[:n]

            def notify_all(s):
                s.notify(len(s.waiters))

            notifyAll = notify_all

        class CoopSemaphore:
            def __init__(s, value=1):
                s.value = value

            def acquire(s, blocking=True, timeout=None):
                tries = 0
                while True:
                    if s.value > 0:
                        s.value -= 1
                        rec("sem_acq")
                        return True
                    if not blocking:
                        return False
                    tries += 1
                    if timeout is not None and tries > 3:
                        return False
                    wait_park("wait")

            def release(s, n=1):
                rec("sem_rel")
                s.value += n

            __enter__ = acquire

            def __exit__(s, *a):
                s.release()

        self.CoopLock = CoopLock
        # ---- every blocking primitive the traced modules can name is replaced by a schedulable one (found by
        # introspection of the module namespaces, so a rewrite of the hub to events / conditions is still explored)
        import time as _time
        import types
        coop = {id(threading.Lock): lambda *a, **k: CoopLock(), id(threading.RLock): lambda *a, **k: CoopLock(reentrant=True),
                id(threading.Event): CoopEvent, id(threading.Condition): CoopCondition,
                id(threading.Semaphore): CoopSemaphore, id(threading.BoundedSemaphore): CoopSemaphore}

        def psleep(t=0):
            wait_park("sleep")

        self.psleep = psleep
        thr_proxy = types.SimpleNamespace(**{k: getattr(threading, k) for k in dir(threading) if not k.startswith("__")})
        for nm in ("Lock", "RLock", "Event", "Condition", "Semaphore", "BoundedSemaphore"):
            setattr(thr_proxy, nm, coop[id(getattr(threading, nm))])
        time_proxy = types.SimpleNamespace(**{k: getattr(_time, k) for k in dir(_time) if not k.startswith("__")})
        time_proxy.sleep = psleep
        self._patched = []
        for mod in (self.hubmod, self.sockmod, self.bcmod, self.tbcmod):
            for nm, val in list(vars(mod).items()):
                rep = None
                if id(val) in coop and val in (threading.Lock, threading.RLock, threading.Event, threading.Condition,
                                               threading.Semaphore, threading.BoundedSemaphore):
                    rep = coop[id(val)]
                elif val is _time.sleep:
                    rep = psleep
                elif val is threading:
                    rep = thr_proxy
                elif val is _time:
                    rep = time_proxy
                if rep is not None:
                    self._patched.append((mod, nm, val))
                    setattr(mod, nm, rep)

        hub = self.hubmod._SocketHub()
        hub._open_sockets = LSet("open")
        hub._remote_sockets = LSet("rem")
        hub._messages = LDD(list)
        hub._recv_callbacks = LDict("rcb")
        hub._conn_lost_callbacks = LDict("lcb")
        if not isinstance(getattr(hub, "_lock", None), CoopLock):
            hub._lock = CoopLock()
        self.hub = hub


        class HSock(self.sockmod.ThreadSocket):
            _SOCKET_HUB = hub
            _tid = -1

            def __init__(s, tid, *a, **kw):
                s._tid = tid
                super().__init__(*a, **kw)

            def recv_callback(s, msg):
                rec("call_recv", s._tid)
                run.cb_events.append((len(run.log) - 1, s._tid, msg))     # when the callback observed the message
                run.storage[s._tid].append(msg)

            def conn_lost_callback(s):
                rec("call_lost", s._tid)
                run.lost[s._tid] += 1

            def __del__(s):     # no implicit disconnect: Disconnect is an explicit op
                pass

        self.HSock = HSock
        self.socks = [None] * self.n

    # ---------------------------------------------------------------- worker side
    def park(self):
        tid = self.tls.tid
        if self.away[tid]:
            # this thread had been given up by the watchdog (it sat in a wait the scheduler cannot see) and
            # has come back by itself: it becomes schedulable again, the scheduler is not waiting for it
            self.away[tid] = False
            self.status[tid] = "parked"
        else:
            self.status[tid] = "parked"
            _give(self.main)
        self.sems[tid].acquire()
        if self.aborting:
            raise _Abort()

    def _tracer(self):
        run = self

        def local(frame, event, arg):
            if event == "line":
                run.park()
            return local

        def glob(frame, event, arg):
            if frame.f_code.co_filename in run.files:
                return local
            return None

        return glob

    def _do(self, tid, op):
        th = self.cfg[tid]
        if th.get("kind") == "bc":
            return self._do_bc(tid, th, op)
        k = th["key"]
        if op[0] == "connect":
            s = self.HSock.__new__(self.HSock)
            self.socks[tid] = s     # keep alive even when the constructor is aborted
            s.__init__(tid, k[0], k[1], socket_id=k[2], use_callbacks=bool(th["cb"]))
            return "ok"
        s = self.socks[tid]
        if s is None:               # an endpoint object that never connected: build it without connecting
            s = self.HSock.__new__(self.HSock)
            s._tid = tid
            s._app_name, s._remote_app_name, s._id = k[0], k[1], k[2]
            s._use_callbacks = bool(th["cb"])
            s._line_tracker = None
            s._comm_logger = None
            self.socks[tid] = s
        if op[0] == "send":
            s.send(op[1])
            return "ok"
        if op[0] == "recv":
            return ["msg", s.recv()]
        if op[0] == "recvnb":
            return ["msg", s.recv(block=False)]
        if op[0] == "disconnect":
            self.hub.disconnect(s)
            return "ok"
        if op[0] == "setcb":            # the use_callbacks setter on an existing socket
            s.use_callbacks = bool(op[1])
            return "ok"
        raise ValueError(op)

    def _do_bc(self, tid, th, op):
        """a ThreadBroadcastChannel endpoint: one thread socket per remote node"""
        run = self
        if op[0] == "bconnect":
            HS = self.HSock

            class S(HS):
                def __init__(s, app_name, remote_app_name, **kw):
                    run.bsocks[tid].append(s)        # keep alive, also when the constructor is aborted
                    HS.__init__(s, tid, app_name, remote_app_name, **kw)

            class C(self.tbcmod.ThreadBroadcastChannel):
                _socket_class = S

            self.bsocks[tid] = []
            self.chans[tid] = C(th["app"], list(th["remotes"]))
            return "ok"
        ch = self.chans[tid]
        if op[0] == "bsend":
            ch.send(op[1])
            return "ok"
        if op[0] == "brecv":
            who, msg = ch.recv()
            return ["bmsg", who, msg]
        if op[0] == "bclose":
            for sk in ch._sockets.values():
                self.hub.disconnect(sk)
            return "ok"
        raise ValueError(op)

    def _worker(self, tid):
        self.tls.tid = tid
        self.sems[tid].acquire()          # wait for the first resume
        cur = [0]
        try:
            if self.aborting:
                raise _Abort()
            if self.mode != "access":
                sys.settrace(self._tracer())
            for i, op in enumerate(self.cfg[tid]["ops"]):
                cur[0] = i
                self.cur_op[tid] = i
                start = self.stamp
                lstart = len(self.log)
                try:
                    r = self._do(tid, op)
                except ConnectionError:
                    r = "connerr"
                except IndexError:
                    r = "indexerr"
                except RuntimeError:
                    r = "empty" if op[0] == "recvnb" else "runtime"
                except KeyError:
                    r = "keyerr"
                self.results[tid].append((i, r, start, self.stamp, lstart, len(self.log)))
                self.stale[tid] = 0
            self.status[tid] = "done"
        except _Abort:
            self.status[tid] = "blocked"
            self.results[tid].append((cur[0], "blocked", -1, -1, -1, len(self.log)))
        except BaseException as e:       # noqa
            self.status[tid] = "done"
            self.errors.append(f"thread {tid}: {type(e).__name__}: {e}")
        finally:
            sys.settrace(None)
            if self.away[tid]:
                self.away[tid] = False
            else:
                _give(self.main)

    # ---------------------------------------------------------------- main side
    def runnable(self):
        return [t for t in range(self.n) if self.status[t] in ("new", "parked")]

    def _resume(self, tid):
        self.stamp += 1
        self.stale[tid] += 1
        self.line_sched.append(tid)
        _give(self.sems[tid])
        if not self.main.acquire(True, self.WATCHDOG):
            self._stuck(tid)

    def _stuck(self, tid):
        """the resumed thread reached no scheduling point within the wall-clock bound: it is blocked inside
        something the scheduler cannot see (a C-level wait on an un-patched primitive).  It is taken off the
        schedule ("away") until it comes back by itself; the run goes on with the other threads."""
        import traceback
        self.away[tid] = True
        if self.main.acquire(False):          # it came back this very moment
            self.away[tid] = False
            return
        where = "?"
        fr = sys._current_frames().get(self.threads[tid].ident)
        if fr is not None:
            st = traceback.extract_stack(fr)[-3:]
            where = " <- ".join(f"{f.filename.split('/')[-1]}:{f.lineno} {f.name}" for f in reversed(st))
        self.status[tid] = "away"
        self.away_where[tid] = where

    def step(self, tid, mode):
        """Resume thread tid.  Returns False when it cannot run."""
        if self.status[tid] not in ("new", "parked"):
            return False
        self.failed_acq[tid] = False
        self._resume(tid)
        return True

    def quiescent(self):
        """every unfinished thread has slept twice in a row while nobody touched shared state"""
        r = self.runnable()
        # (a busy-waiting loop without sleep, e.g. BroadcastChannel.recv, counts as blocked after
        # STALE line steps during which nobody changed shared state and it finished no op)
        return bool(r) and all(self.sleeps[t] >= 2 or self.stale[t] >= self.STALE for t in r)

    def execute(self, chooser, mode="line"):
        """chooser(run, runnable) -> tid.  Runs to completion or quiescence."""
        self.mode = mode
        ths = [threading.Thread(target=self._worker, args=(t,), daemon=True) for t in range(self.n)]
        self.threads = ths
        for t in ths:
            t.start()
        try:
            steps = 0
            if mode == "access":      # bring every thread to its first shared access (local code only)
                for t in range(self.n):
                    self._resume(t)
                self.line_sched = []
            while True:
                r = self.runnable()
                if not r and "away" in self.status:
                    # only threads blocked for real are left: give them a moment to come back
                    t_end = _time.time() + 0.4
                    while _time.time() < t_end and not self.runnable():
                        _time.sleep(0.02)
                    r = self.runnable()
                    if not r:
                        self.end_reason = "quiescent"
                        break
                if not r:
                    self.end_reason = "done"
                    break
                if self.quiescent():
                    self.end_reason = "quiescent"
                    break
                if steps >= self.max_steps:
                    self.end_reason = "budget"
                    self.errors.append("step budget exhausted")
                    break
                tid = chooser(self, r)
                if tid is None:
                    self.end_reason = "schedule-exhausted"
                    break
                self.step(tid, mode)
                steps += 1
        finally:
            self.aborting = True
            global LEAKED
            for t in range(self.n):
                if self.status[t] in ("new", "parked"):
                    _give(self.sems[t])
                elif self.status[t] == "away":       # cannot be unwound: the thread stays blocked (daemon), it is leaked
                    self.status[t] = "blocked"
                    self.results[t].append((self.cur_op[t], "blocked", -1, -1, -1, len(self.log)))
                    LEAKED += 1
            for i, t in enumerate(ths):
                t.join(timeout=0.05 if i in self.away_where and self.away[i] else 5)
            self.restore()
        return self

    def restore(self):
        for mod, nm, val in reversed(self._patched):
            setattr(mod, nm, val)
        self._patched = []

    # ---------------------------------------------------------------- observations
    def outcome(self):
        """Canonical observable outcome (same shape as the model's)."""
        th = []
        for t in range(self.n):
            res = []
            for (_i, r, *_rest) in self.results[t]:
                res.append(r if isinstance(r, str) else list(r))
            th.append(dict(res=res, store=list(self.storage[t]), lost=self.lost[t]))
        q = {}
        for k, v in dict.items(self.hub._messages):
            if list.__len__(v):
                q[str(list(k))] = list(list.__iter__(v))
        return dict(threads=th, queues=q,
                    open=sorted(list(k) for k in set.__iter__(self.hub._open_sockets)),
                    rem=sorted(list(k) for k in set.__iter__(self.hub._remote_sockets)))

    def access_schedule(self):
        return [t for (t, _l, _a) in self.log]

    def labels(self):
        return [l for (_t, l, _a) in self.log]


def random_chooser(rng, p_switch=0.3):
    """PCT-flavoured: keep running the current thread, pre-empt with probability p_switch."""
    state = {"cur": None}

    def ch(run, runnable):
        c = state["cur"]
        if c in runnable and rng.random() > p_switch and not run.failed_acq[c] and run.sleeps[c] == 0 \
                and (run.stale[c] < 50 or run.stale[c] % 50):
            return c
        c = rng.choice(runnable)
        state["cur"] = c
        return c

    return ch


def list_chooser(schedule, then_round_robin=True):
    it = iter(schedule)
    rr = {"i": 0}

    def ch(run, runnable):
        for t in it:
            if t in runnable:
                return t
        if not then_round_robin:
            return None
        rr["i"] += 1
        return runnable[rr["i"] % len(runnable)]

    return ch


def pct_chooser(rng, n, depth=3, est_len=150):
    """PCT-style: random thread priorities, the highest-priority runnable thread runs;
    at depth-1 random steps the running thread drops to the lowest priority.  A
    thread that just slept in a poll loop or failed to take the lock is demoted too
    (otherwise a polling thread would starve the thread it waits for)."""
    prio = list(range(n))
    rng.shuffle(prio)
    pr = {t: float(prio[t] + 1) for t in range(n)}
    low = [0.0]
    change = set(rng.randrange(1, est_len) for _ in range(max(0, depth - 1)))
    cnt = [0]
    last = [None]

    def demote(t):
        low[0] -= 1.0
        pr[t] = low[0]

    def ch(run, runnable):
        cnt[0] += 1
        c = last[0]
        if c is not None and (run.failed_acq[c] or (run.log and run.log[-1][0] == c and run.log[-1][1] in ("sleep", "wait"))
                              or (run.stale[c] >= 50 and run.stale[c] % 50 == 0)):   # busy-waiting without sleep
            demote(c)
        t = max(runnable, key=lambda x: pr[x])
        if cnt[0] in change:
            demote(t)
            t = max(runnable, key=lambda x: pr[x])
        last[0] = t
        return t

    return ch
