"""qcommon — shared by the quantum-operator checks (C07, C20, C10 ring part).

* parse values printed by `Eval vm_compute in ...` (lists of Z) in coqc output
* evaluate serialised K32 elements / matrices (QMat.kser / mser) numerically
* an INDEPENDENT numpy definition of the gates from their mathematical
  definitions (the oracle side; nothing here is imported from netqasm)
* 50-digit evaluation of rotation matrices for angles outside the exact ring
"""
import ast
import cmath
import math
import re
from decimal import Decimal, getcontext
from fractions import Fraction

import numpy as np

TOL = 1e-9


# ------------------------------------------------------------------ coqc output
def parse_evals(out):
    """All values printed by `Eval vm_compute in` (Z_scope open, lists of Z only),
    in order, as python lists/ints."""
    vals = []
    for m in re.finditer(r"^\s*= (.*?)^\s*: ", out, flags=re.S | re.M):
        txt = m.group(1).strip()
        txt = re.sub(r"%\w+", "", txt)
        txt = txt.replace(";", ",")
        txt = re.sub(r"\btrue\b", "True", txt)
        txt = re.sub(r"\bfalse\b", "False", txt)
        vals.append(ast.literal_eval(txt))
    return vals


W = [cmath.exp(1j * math.pi * k / 32) for k in range(64)]


def k32(ser):
    """[e, c0, c1, ...] -> complex"""
    e, cs = ser[0], ser[1:]
    return sum(c * W[k] for k, c in enumerate(cs)) / (2 ** e)


def mat32(ser):
    return np.array([[k32(x) for x in row] for row in ser], dtype=complex)


# ------------------------------------------------------------------ independent gate definitions
I2 = np.eye(2, dtype=complex)
SX = np.array([[0, 1], [1, 0]], dtype=complex)
SY = np.array([[0, -1j], [1j, 0]], dtype=complex)
SZ = np.array([[1, 0], [0, -1]], dtype=complex)
PAULI = {"x": SX, "y": SY, "z": SZ, "I": I2, "X": SX, "Y": SY, "Z": SZ}
R2 = math.sqrt(0.5)
GATES = {
    "X": SX, "Y": SY, "Z": SZ,
    "H": (SX + SZ) * R2,
    "K": (SY + SZ) * R2,
    "S": np.array([[1, 0], [0, 1j]], dtype=complex),
    "T": np.array([[1, 0], [0, cmath.exp(1j * math.pi / 4)]], dtype=complex),
    "CNOT": np.array([[1, 0, 0, 0], [0, 1, 0, 0], [0, 0, 0, 1], [0, 0, 1, 0]], dtype=complex),
    "CPHASE": np.diag([1, 1, 1, -1]).astype(complex),
}
SWAP = np.array([[1, 0, 0, 0], [0, 0, 1, 0], [0, 1, 0, 0], [0, 0, 0, 1]], dtype=complex)


def rot(axis, theta):
    """exp(-i theta/2 sigma_axis)"""
    c, s = math.cos(theta / 2), math.sin(theta / 2)
    return c * I2 - 1j * s * PAULI[axis]


def rot_nd(axis, n, d):
    """angle n*pi/2^d with exact range reduction (n/2^(d+1) mod 2 as a Fraction)"""
    half = Fraction(n, 2 ** (d + 1)) % 2  # theta/2 in units of pi, mod 2 pi
    return rot(axis, 2 * float(half) * math.pi)


def crot_nd(axis, n, d):
    """NV conditional rotation |0><0| (x) R(theta) + |1><1| (x) R(-theta)"""
    p0 = np.array([[1, 0], [0, 0]], dtype=complex)
    p1 = np.array([[0, 0], [0, 1]], dtype=complex)
    r = rot_nd(axis, n, d)
    return np.kron(p0, r) + np.kron(p1, r.conj().T)


# 50-digit evaluation -------------------------------------------------
getcontext().prec = 60
PI50 = Decimal("3.14159265358979323846264338327950288419716939937510582097494")


def _cos_sin_dec(x):
    """cos, sin of a Decimal |x| <= 2*pi by Taylor series (60 digits)."""
    c, s = Decimal(0), Decimal(0)
    term = Decimal(1)
    k = 0
    while abs(term) > Decimal(10) ** -58 or k < 4:
        if k % 4 == 0:
            c += term
        elif k % 4 == 1:
            s += term
        elif k % 4 == 2:
            c -= term
        else:
            s -= term
        k += 1
        term = term * x / k
        if k > 400:
            break
    return c, s


def rot_nd_hp(axis, n, d):
    half = Fraction(n, 2 ** (d + 1)) % 2
    x = (Decimal(half.numerator) / Decimal(half.denominator)) * PI50
    c, s = _cos_sin_dec(x)
    c, s = float(c), float(s)
    return c * I2 - 1j * s * PAULI[axis]


def crot_nd_hp(axis, n, d):
    p0 = np.array([[1, 0], [0, 0]], dtype=complex)
    p1 = np.array([[0, 0], [0, 1]], dtype=complex)
    r = rot_nd_hp(axis, n, d)
    return np.kron(p0, r) + np.kron(p1, r.conj().T)


# ------------------------------------------------------------------ wires
def embed(n, wires, G):
    """G on the given wires of an n-wire register; wire 0 = most significant bit."""
    dim = 2 ** n
    U = np.zeros((dim, dim), dtype=complex)
    k = len(wires)

    def bit(r, j):
        return (r >> (n - 1 - j)) & 1

    for r in range(dim):
        for c in range(dim):
            if all(bit(r, j) == bit(c, j) for j in range(n) if j not in wires):
                sr = sum(bit(r, w) << (k - 1 - i) for i, w in enumerate(wires))
                sc = sum(bit(c, w) << (k - 1 - i) for i, w in enumerate(wires))
                U[r, c] = G[sr, sc]
    return U


def phase_equal(A, B, tol=TOL):
    """A = e^{i a} B for some a"""
    if A.shape != B.shape:
        return False
    idx = np.unravel_index(np.argmax(np.abs(B)), B.shape)
    if abs(B[idx]) < 1e-12 or abs(A[idx]) < 1e-12:
        return bool(np.allclose(A, B, atol=tol))
    ph = A[idx] / B[idx]
    if abs(abs(ph) - 1) > 1e-6:
        return False
    return bool(np.max(np.abs(A - ph * B)) < tol)


def maxdiff(A, B):
    A, B = np.asarray(A, dtype=complex), np.asarray(B, dtype=complex)
    if A.shape != B.shape:
        return float("inf")
    return float(np.max(np.abs(A - B)))


# ------------------------------------------------------------------ Print Assumptions
def axioms_printed(out):
    """Names of all axioms listed in `Print Assumptions` blocks of a coqc output
    (an axiom name may stand alone on its line with the type on continuation lines)."""
    names = []
    in_block = False
    for line in out.splitlines():
        if line.startswith("Axioms:"):
            in_block = True
            continue
        if line.startswith("Closed under the global context"):
            in_block = False
            continue
        if in_block:
            m = re.match(r"^([A-Za-z_][\w.']*)\s*(:|$)", line)
            if m:
                if m.group(1) not in names:
                    names.append(m.group(1))
            elif not line.startswith(" "):
                in_block = False
    return names


REAL_AXIOMS_EXPECTED = ["ClassicalDedekindReals.sig_forall_dec", "ClassicalDedekindReals.sig_not_dec",
                        "FunctionalExtensionality.functional_extensionality_dep"]


def complex_props(ctx, name):
    """Compile coq/props/<name>.v (instantiation at the complex numbers) and record the
    exact axiom list its theorems depend on."""
    res = ctx.props(name)
    if res.ok:
        ax = axioms_printed(res.out)
        ctx.coverage["complex_instance_axioms"] = ax
        for a in ax:
            if a not in ctx.assumptions_printed.setdefault("axioms", []):
                ctx.assumptions_printed["axioms"].append(a)
        ctx.trusted.append(f"props/{name}.v only (instantiation at Coquelicot's complex numbers, Proofs/ComplexInstance.v): "
                           "axioms of Coq's real numbers as printed by Print Assumptions: " + ", ".join(ax) +
                           "; every other theorem of this property is closed under the global context")
        unexpected = [a for a in ax if a not in REAL_AXIOMS_EXPECTED]
        ctx.gen_obligation(f"{name}: only the standard axioms of the real numbers are used", not unexpected,
                           "unexpected axioms: " + ", ".join(unexpected))
    return res
