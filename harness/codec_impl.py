"""Implementation side of the codec correspondence (C01, C02, C16): build real
instruction objects from (class, operand leaves), run bytes(Subroutine) and
deserialize(), canonicalise; case generation; Coq case-file emission."""
import codec_tables as ct
from coqemit import lst, s, z

RANGE_OF_FIELD = None


def leaf_ranges(row):
    """[(lo, hi)] per operand leaf from the encode layout."""
    out = []
    for (_, _pos, w, signed, *_rest) in row["enc"][1:]:
        out.append((-(2 ** (w - 1)), 2 ** (w - 1) - 1) if signed else (0, 2 ** w - 1))
    return out


class Impl:
    def __init__(self, repo):
        self.t = ct.tables(repo)
        self.encoding, self.operand, self.fl = ct.load(repo)
        from netqasm.lang.parsing import deserialize
        from netqasm.lang.subroutine import Subroutine

        self.deserialize = deserialize
        self.Subroutine = Subroutine
        self.rows = {}
        for fname, ft in self.t["flavours"].items():
            self.rows[fname] = {r["name"]: r for r in ft["rows"]}

    def build_instr(self, row, leaves):
        ops, i = [], 0
        for k in row["kinds"]:
            n = ct.NLEAVES[k]
            ops.append(self.mk_operand(k, leaves[i : i + n]))
            i += n
        return row["cls"].from_operands(ops)

    def mk_operand(self, kind, lv):
        operand, RN = self.operand, self.encoding.RegisterName
        w = getattr(self, "int_wrapper", None)
        if w is not None:   # values handed over as integer-like objects (numpy integers, __index__ classes)
            lv = [lv[0] if kind in ("KReg",) else w(lv[0])] + [w(x) for x in lv[1:]]
            if kind in ("KEntry", "KSlice"):
                lv[1] = int(lv[1])
                if kind == "KSlice":
                    lv[3] = int(lv[3])
        if kind == "KReg":
            return operand.Register(RN(lv[0]), lv[1])
        if kind == "KImm":
            return operand.Immediate(lv[0])
        if kind == "KAddr":
            return operand.Address(lv[0])
        if kind == "KEntry":
            return operand.ArrayEntry(operand.Address(lv[0]), operand.Register(RN(lv[1]), lv[2]))
        return operand.ArraySlice(operand.Address(lv[0]), operand.Register(RN(lv[1]), lv[2]),
                                  operand.Register(RN(lv[3]), lv[4]))

    def view_instr(self, instr):
        cls = type(instr)
        name = f"{cls.__module__.split('.')[-1]}.{cls.__name__}"
        flat = []
        for op in instr.operands:
            flat.extend(ct.operand_leaves(self.operand, op))
        return (name, flat)

    def run_ecase(self, fname, v0, v1, app, body):
        """body: [(class name, leaves)].  Returns dict(bytes, dec, oracle_ok)."""
        rows = self.rows[fname]
        try:
            # a refusal may come at construction, at instantiate() or at bytes(): all count as "rejected"
            instrs = [self.build_instr(rows[n], lv) for n, lv in body]
            if getattr(self, "app_via_instantiate", False):
                sub = self.Subroutine(instructions=instrs, netqasm_version=(v0, v1), app_id=0)
                sub.instantiate(app, {})
            else:
                sub = self.Subroutine(instructions=instrs, netqasm_version=(v0, v1), app_id=app)
            raw = bytes(sub)
        except Exception as e:  # any refusal to encode
            # a refusal must be stable: encoding the same object again must refuse again
            # (a half-built cache left behind by the first attempt would show here)
            try:
                raw2 = bytes(sub)
            except Exception:
                return dict(bytes=None, dec=None, oracle_ok=None, err=type(e).__name__)
            flav = self.t["flavours"][fname]["flavour"]
            try:
                back = self.deserialize(raw2, flavour=flav)
                dec = (back.netqasm_version[0], back.netqasm_version[1], back.app_id,
                       [self.view_instr(i) for i in back.instructions])
            except Exception:
                dec = None
            return dict(bytes=list(raw2), dec=dec, oracle_ok=False, err="second-encoding-accepted-after-" + type(e).__name__)
        flav = self.t["flavours"][fname]["flavour"]
        # a decoder must not carry anything over from a buffer it rejected: first offer the same
        # commands followed by one command with an opcode the flavour does not know (rejected after
        # the valid commands were read), to the module-level deserialize() and to the long-lived object
        try:  # the plain round trip first, so that a failure is attributed correctly
            back0 = self.deserialize(raw, flavour=flav)
            plain_ok = (list(back0.instructions) == instrs and tuple(back0.netqasm_version) == (v0, v1) and back0.app_id == app)
        except Exception:
            plain_ok = False
        poisoned = self.poison(fname, raw) if plain_ok else None
        if poisoned is not None:
            for dec_fn in (lambda b: self.deserialize(b, flavour=flav),
                           lambda b: self.persistent_deserializer(fname).deserialize_subroutine(b)):
                try:
                    dec_fn(poisoned)
                except Exception:
                    pass
        try:
            back = self.deserialize(raw, flavour=flav)
        except Exception as e:
            return dict(bytes=list(raw), dec=None, oracle_ok=False, err="decode:" + type(e).__name__)
        # a long-lived Deserializer object (one per flavour, reused for every buffer, also after failed
        # decodes) must read the same thing as a fresh one
        try:
            back_p = self.persistent_deserializer(fname).deserialize_subroutine(raw)
            same = (list(back_p.instructions) == list(back.instructions) and back_p.app_id == back.app_id)
        except Exception as e:  # noqa
            same = False
        if not same:
            return dict(bytes=list(raw), dec=None, oracle_ok=False, err="persistent Deserializer object reads differently")
        dec = (back.netqasm_version[0], back.netqasm_version[1], back.app_id,
               [self.view_instr(i) for i in back.instructions])
        ok = (list(back.instructions) == instrs and tuple(back.netqasm_version) == (v0, v1) and back.app_id == app)
        if not ok and poisoned is not None:
            return dict(bytes=list(raw), dec=dec, oracle_ok=False,
                        err="decoded right after a rejected buffer (the same commands followed by an unknown opcode) was offered to the decoder")
        if ok:
            # a decoded subroutine belongs to its caller: changing it in place (as the NV transpiler
            # and the SDK do) must not change what the same bytes decode to afterwards
            again = self.redecode_after_scramble(fname, raw, back, back_p)
            if again is not None and again != dec:
                return dict(bytes=list(raw), dec=again, oracle_ok=False,
                            err="second decoding of the same bytes differs after the first result was modified in place")
        return dict(bytes=list(raw), dec=dec, oracle_ok=ok, err=None)

    def poison(self, fname, raw):
        """raw + one command whose opcode the flavour does not know (None if every opcode is taken)."""
        used = {r["id"] for r in self.t["flavours"][fname]["rows"]}
        free = [i for i in range(255, -1, -1) if i not in used]
        if not free:
            return None
        return bytes(raw) + bytes([free[0]] + [0] * (self.t["command_bytes"] - 1))

    def scramble(self, obj, depth=0, seen=None):
        """Change every integer / enum leaf of a decoded instruction IN PLACE (best effort): mutable
        dataclasses are assigned to, frozen ones (operands) are replaced in the field that holds them.
        Every object once, also when it is reachable twice (shared operands, cached instructions).
        Returns the object to store in the parent's field."""
        import dataclasses
        import enum
        seen = self._seen if seen is None else seen
        if depth > 4 or not dataclasses.is_dataclass(obj) or id(obj) in seen:
            return obj
        seen[id(obj)] = obj
        frozen = getattr(obj, "__dataclass_params__", None) is not None and obj.__dataclass_params__.frozen
        changes = {}
        for f in dataclasses.fields(obj):
            if f.name in ("id", "mnemonic", "lineno"):
                continue
            try:
                v = getattr(obj, f.name)
                if isinstance(v, enum.Enum):
                    members = list(type(v))
                    nv = members[(members.index(v) + 1) % len(members)]
                elif isinstance(v, bool) or v is None:
                    continue
                elif isinstance(v, int):
                    nv = type(v)(int(v) ^ 1) if type(v) is not int else v ^ 1
                elif dataclasses.is_dataclass(v):
                    nv = self.scramble(v, depth + 1, seen)
                    if nv is v:
                        continue
                else:
                    continue
                if frozen:
                    changes[f.name] = nv
                else:
                    setattr(obj, f.name, nv)
            except Exception:
                continue
        if frozen and changes:
            try:
                return dataclasses.replace(obj, **changes)
            except Exception:
                return obj
        return obj

    def redecode_after_scramble(self, fname, raw, *decoded):
        flav = self.t["flavours"][fname]["flavour"]
        self._seen = {}
        for sub in decoded:
            for ins in list(sub.instructions):
                self.scramble(ins)
            try:
                sub.app_id = (sub.app_id or 0) ^ 1
            except Exception:
                pass
        try:
            b2 = self.deserialize(bytes(raw), flavour=flav)
            b3 = self.persistent_deserializer(fname).deserialize_subroutine(bytes(raw))
        except Exception:
            return ("raises",)
        v2 = (b2.netqasm_version[0], b2.netqasm_version[1], b2.app_id, [self.view_instr(i) for i in b2.instructions])
        v3 = (b3.netqasm_version[0], b3.netqasm_version[1], b3.app_id, [self.view_instr(i) for i in b3.instructions])
        return v2 if v2 == v3 else ('fresh and long-lived deserializer disagree', v2, v3)

    def run_history(self, fname, v0, v1, app, body, muts):
        """One Subroutine OBJECT through a history: serialize, mutate in place, serialize again.
        muts: list of ("app_setter", a) | ("instantiate", a) | ("replace", i, (name, leaves)) |
              ("setop", i) [re-assign operand fields of instruction i to those of the final body] |
              ("append", (name, leaves)) | ("debug", i, text) [insert a DebugInstruction].
        Returns dict(final_body, final_app, bytes_obj, bytes_fresh, dec) — bytes_obj from the mutated
        object, bytes_fresh from a freshly built Subroutine with the final content."""
        import dataclasses
        from netqasm.lang.instr import DebugInstruction
        rows = self.rows[fname]
        instrs = [self.build_instr(rows[n], lv) for n, lv in body]
        sub = self.Subroutine(instructions=instrs, netqasm_version=(v0, v1), app_id=app)
        try:
            first = bytes(sub)
        except Exception as e:  # the implementation refuses what its own layout calls in range
            return dict(final_body=[(n, list(lv)) for n, lv in body], final_app=app, bytes_obj=None, bytes_fresh=None,
                        dec=None, err="first serialisation: " + type(e).__name__ + ": " + str(e)[:120], first=None)
        str(sub)  # printing is another reader of the object
        final = [(n, list(lv)) for n, lv in body]
        ndebug = 0
        for m in muts:
            if m[0] == "app_setter":
                sub.app_id = m[1]; app = m[1]
            elif m[0] == "instantiate":
                sub.instantiate(m[1], {}); app = m[1]
            elif m[0] == "replace" and final:
                i = m[1] % len(final)
                pos = self._real_pos(sub, i)
                sub.instructions[pos] = self.build_instr(rows[m[2][0]], m[2][1]); final[i] = (m[2][0], list(m[2][1]))
            elif m[0] == "setop" and final:
                i = m[1] % len(final)
                pos = self._real_pos(sub, i)
                import random as _r
                lv_new = gen_in_range_instr(_r.Random(m[2]), rows[final[i][0]])[1]  # leaves for the CURRENT class
                new = self.build_instr(rows[final[i][0]], lv_new)
                tgt = sub.instructions[pos]
                for f in dataclasses.fields(tgt):
                    if f.name not in ("id", "mnemonic", "lineno"):
                        setattr(tgt, f.name, getattr(new, f.name))
                final[i] = (final[i][0], list(lv_new))
            elif m[0] == "append":
                sub.instructions.append(self.build_instr(rows[m[1][0]], m[1][1])); final.append((m[1][0], list(m[1][1])))
            elif m[0] == "debug":
                sub.instructions.insert(m[1] % (len(sub.instructions) + 1), DebugInstruction(text=m[2])); ndebug += 1
        try:
            raw = bytes(sub)
        except Exception as e:  # noqa
            return dict(final_body=final, final_app=app, bytes_obj=None, bytes_fresh=None, dec=None, err=type(e).__name__, first=list(first))
        fresh = self.Subroutine(instructions=[self.build_instr(rows[n], lv) for n, lv in final],
                                netqasm_version=(v0, v1), app_id=app)
        flav = self.t["flavours"][fname]["flavour"]
        try:
            back = self.deserialize(raw, flavour=flav)
            dec = (back.netqasm_version[0], back.netqasm_version[1], back.app_id, [self.view_instr(i) for i in back.instructions])
        except Exception as e:  # noqa
            dec = None
        return dict(final_body=final, final_app=app, bytes_obj=list(raw), bytes_fresh=list(bytes(fresh)), dec=dec,
                    err=None, first=list(first), ndebug=ndebug)

    @staticmethod
    def _real_pos(sub, i):
        """list position of the i-th non-debug instruction"""
        from netqasm.lang.instr import DebugInstruction
        k = -1
        for pos, ins in enumerate(sub.instructions):
            if not isinstance(ins, DebugInstruction):
                k += 1
                if k == i:
                    return pos
        raise IndexError(i)

    def persistent_deserializer(self, fname):
        from netqasm.lang.parsing.binary import Deserializer
        if not hasattr(self, "_pdes"):
            self._pdes = {}
        if fname not in self._pdes:
            self._pdes[fname] = Deserializer(self.t["flavours"][fname]["flavour"])
        return self._pdes[fname]

    def run_dcase(self, fname, raw):
        flav = self.t["flavours"][fname]["flavour"]
        try:  # feed the long-lived object too (its result is not compared here: a failure must not poison it)
            self.persistent_deserializer(fname).deserialize_subroutine(bytes(raw))
        except Exception:
            pass
        try:
            back = self.deserialize(bytes(raw), flavour=flav)
            return (back.netqasm_version[0], back.netqasm_version[1], back.app_id,
                    [self.view_instr(i) for i in back.instructions])
        except Exception:
            return None


# ---------------------------------------------------------------- generation
def boundary_values(lo, hi):
    vals = {lo, hi, 0 if lo <= 0 <= hi else lo, min(hi, lo + 1), max(lo, hi - 1)}
    return sorted(vals)


def gen_in_range_instr(rng, row):
    rs = leaf_ranges(row)
    lv = []
    for lo, hi in rs:
        m = rng.random()
        if m < 0.35:
            lv.append(rng.choice(boundary_values(lo, hi)))
        elif m < 0.5 and hi > 255:
            lv.append(rng.choice([1 << k for k in range(0, 31)] + [-(1 << k) for k in range(0, 32)]))
        else:
            lv.append(rng.randint(lo, hi))
        lv[-1] = max(lo, min(hi, lv[-1]))
    return (row["name"], lv)


def distinct_field_instr(rng, row):
    """all leaves pairwise distinguishable (walking pattern), for swap detection"""
    rs = leaf_ranges(row)
    lv = []
    for j, (lo, hi) in enumerate(rs):
        if hi == 3:
            lv.append((j + 1) % 4)
        elif hi == 15:
            lv.append((3 * j + 5) % 16)
        elif hi == 255:
            lv.append((37 * j + 129) % 256)
        else:
            lv.append(0x01020304 * (j + 1) % (hi + 1))
    return (row["name"], lv)


def gen_out_of_range_instr(rng, row):
    """exactly one leaf outside its range; None if the class has no leaf that can
    be out of range (register banks are an enum)."""
    rs = leaf_ranges(row)
    cand = [j for j, (lo, hi) in enumerate(rs) if hi != 3]
    if not cand:
        return None
    name, lv = gen_in_range_instr(rng, row)
    j = rng.choice(cand)
    lo, hi = rs[j]
    choices = [hi + 1, hi + 2, 2 * (hi + 1), 2 * (hi + 1) + rng.randint(0, hi), (hi + 1) * 256 + 5, 2 ** 40 + 3]
    if lo < 0:
        choices += [lo - 1, lo - 2, 2 * lo, -(2 ** 40)]
    elif not (hi == 15):  # a negative register index is also "cannot hold"
        choices += [-1, -2, -hi - 1]
    else:
        choices += [-1, -16]
    lv[j] = rng.choice(choices)
    return (name, lv), j


def coq_pinstr(p):
    return f"({s(p[0])}, {lst(z(v) for v in p[1])})"


def _zz_raw(x):
    return x if isinstance(x, int) and not isinstance(x, bool) else -(10 ** 30)


def _zz(x):
    """ints as they are; anything else (None, str, ...) as an impossible sentinel"""
    return z(x) if isinstance(x, int) and not isinstance(x, bool) else z(-(10 ** 30))


def coq_view(v):
    if v is None:
        return "None"
    v = (_zz_raw(v[0]), _zz_raw(v[1]), _zz_raw(v[2]), v[3])
    return f"(Some ({z(v[0])}, {z(v[1])}, {z(v[2])}, {lst(coq_pinstr(p) for p in v[3])}))"


def coq_ecase(v0, v1, app, body, res):
    by = "None" if res["bytes"] is None else f"(Some {lst(z(x) for x in res['bytes'])})"
    return f"mkE {z(v0)} {z(v1)} {z(app)} {lst(coq_pinstr(p) for p in body)} {by} {coq_view(res['dec'])}"


def coq_dcase(raw, dec):
    return f"mkD {lst(z(x) for x in raw)} {coq_view(dec)}"


CASE_HEADER = """From Coq Require Import ZArith List String.
From NQ Require Import Base.Bits Lang.Codec Lang.CodecCheck.
From Gen Require Import Gen_Codec.
Import ListNotations.
Open Scope Z_scope.
Open Scope string_scope.
"""


def write_case_file(path, fname, ecases, dcases):
    with open(path, "w") as f:
        f.write(CASE_HEADER)
        f.write("Definition ecases : list ecase :=\n [" + ";\n  ".join(ecases) + "].\n")
        f.write("Definition dcases : list dcase :=\n [" + ";\n  ".join(dcases) + "].\n")
        f.write(f"Eval vm_compute in (failing (check_ecase gen_header gen_{fname}) ecases).\n")
        f.write(f"Eval vm_compute in (failing (check_dcase gen_header gen_{fname}) dcases).\n")


def parse_failing(out):
    """The two 'Eval' outputs -> two lists of indices."""
    import re

    parts = re.findall(r"=\s*(\[[^\]]*\]|nil)\s*:\s*list Z", out.replace("\n", " "))
    res = []
    for p in parts:
        res.append([int(x) for x in re.findall(r"-?\d+", p)])
    return res
