"""Independent reference encoder written from the text of property C02 (no use
of netqasm.lang.encoding): opcode byte, operands in order, register = one byte
(bank in bits 0-1, index in bits 2-5), imm8 = one byte, int32/address = 4 LE
two's-complement bytes, zero padding to 7; header = 2 version bytes + uint16 LE."""

# frozen opcode/operand table: mnemonic -> (opcode, kinds)
R, I8, I32, A, E, S = "reg", "imm8", "int32", "addr", "entry", "slice"
CORE = {
    "qalloc": (1, [R]), "init": (2, [R]), "array": (3, [R, A]), "set": (4, [R, I32]),
    "store": (5, [R, E]), "load": (6, [R, E]), "undef": (7, [E]), "lea": (8, [R, A]),
    "jmp": (9, [I32]), "bez": (10, [R, I32]), "bnz": (11, [R, I32]),
    "beq": (12, [R, R, I32]), "bne": (13, [R, R, I32]), "blt": (14, [R, R, I32]), "bge": (15, [R, R, I32]),
    "add": (16, [R, R, R]), "sub": (17, [R, R, R]), "addm": (18, [R, R, R, R]), "subm": (19, [R, R, R, R]),
    "meas": (32, [R, R]), "meas_basis": (41, [R, R, I8, I8, I8, I8]),
    "create_epr": (33, [R, R, R, R, R]), "recv_epr": (34, [R, R, R, R]),
    "wait_all": (35, [S]), "wait_any": (36, [S]), "wait_single": (37, [E]),
    "qfree": (38, [R]), "ret_reg": (39, [R]), "ret_arr": (40, [A]), "breakpoint": (100, [I8, I8]),
}
VANILLA = dict(CORE, **{
    "x": (20, [R]), "y": (21, [R]), "z": (22, [R]), "h": (23, [R]), "s": (24, [R]), "k": (25, [R]), "t": (26, [R]),
    "rot_x": (27, [R, I8, I8]), "rot_y": (28, [R, I8, I8]), "rot_z": (29, [R, I8, I8]),
    "cnot": (30, [R, R]), "cphase": (31, [R, R]), "mov": (42, [R, R]),
})
NV = dict(CORE, **{
    "rot_x": (27, [R, I8, I8]), "rot_y": (28, [R, I8, I8]), "rot_z": (29, [R, I8, I8]),
    "crot_x": (30, [R, R, I8, I8]), "crot_y": (31, [R, R, I8, I8]),
})
TABLES = {"vanilla": VANILLA, "nv": NV, "reids": CORE}
NLEAF = {R: 2, I8: 1, I32: 1, A: 1, E: 3, S: 5}


def reg_byte(bank, idx):
    return (bank & 3) | ((idx & 15) << 2)


def le32(v):
    u = v % (1 << 32)
    return [(u >> (8 * k)) & 255 for k in range(4)]


def encode_instr(flavour, mnemonic, leaves):
    op, kinds = TABLES[flavour][mnemonic]
    out = [op]
    i = 0
    for k in kinds:
        lv = leaves[i:i + NLEAF[k]]
        i += NLEAF[k]
        if k == R:
            out.append(reg_byte(*lv))
        elif k == I8:
            out.append(lv[0] % 256)
        elif k in (I32, A):
            out += le32(lv[0])
        elif k == E:
            out += le32(lv[0]) + [reg_byte(lv[1], lv[2])]
        else:
            out += le32(lv[0]) + [reg_byte(lv[1], lv[2]), reg_byte(lv[3], lv[4])]
    assert i == len(leaves), (mnemonic, leaves)
    assert len(out) <= 7
    return out + [0] * (7 - len(out))


def encode_sub(flavour, v0, v1, app, body):
    """body: [(mnemonic, leaves)]"""
    out = [v0 % 256, v1 % 256, app % 256, (app >> 8) % 256]
    for m, lv in body:
        out += encode_instr(flavour, m, lv)
    return out
