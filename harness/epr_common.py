"""epr_common — implementation side of the EPR checks (C10, C11): drive the real
EPRSocket API through harness/sdk_pipeline.py, canonicalise what the scripted network
stack received and what the host reads back.  Nothing of netqasm is re-implemented:
the functions below only call the SDK and read objects."""
import enum
import types

from sdk_pipeline import Pipeline

CREATE_CALLS = ("create_keep", "create_measure", "create_rsp")
RECV_CALLS = ("recv_keep", "recv_measure", "recv_rsp")
TP_OF_CALL = {"create_keep": "K", "create_measure": "M", "create_rsp": "R"}

# specification side (independent of the code): the pre-measurement rotations
# (X by r0*pi/16, Y by r1*pi/16, X by r2*pi/16, then measure Z) that measure the named
# Pauli bases; validated numerically in C10
SPEC_BASIS_ROT = {"X": (0, 24, 0), "Y": (8, 0, 0), "Z": (0, 0, 0), "MX": (0, 8, 0), "MY": (24, 0, 0), "MZ": (16, 0, 0)}


def load(repo):
    import sys

    if sys.path[0] != repo:
        sys.path.insert(0, repo)
    import netqasm
    from netqasm import qlink_compat as qc
    from netqasm.sdk import build_epr as be
    from netqasm.sdk import builder as bmod

    assert netqasm.__file__.startswith(repo), (netqasm.__file__, repo)
    return types.SimpleNamespace(qc=qc, be=be, bmod=bmod)


def canon_value(v):
    if isinstance(v, enum.Enum):
        return ("enum", type(v).__name__, v.value)
    if isinstance(v, bool) or not isinstance(v, int):
        return ("other", repr(v))
    return ("int", v)


def canon_request(req):
    return [(f, canon_value(v)) for f, v in zip(req._fields, req)]


def kw_to_py(ns, kw):
    """replay-able kwargs (enums by name) -> real kwargs"""
    out = {}
    for k, v in kw.items():
        if k == "time_unit":
            out[k] = ns.qc.TimeUnit[v]
        elif k in ("basis_local", "basis_remote"):
            out[k] = ns.be.EprMeasBasis[v]
        elif k in ("random_basis_local", "random_basis_remote"):
            out[k] = ns.qc.RandomBasis[v]
        elif k in ("rotations_local", "rotations_remote"):
            out[k] = tuple(v)
        else:
            out[k] = v
    return out


def spec_request(ns, case):
    """What the network stack must receive for this call, by field name (the property
    text; independent of serialize_request / _get_create_request)."""
    qc = ns.qc
    call, kw = case["call"], case["kw"]
    tp = TP_OF_CALL[call]
    exp = {f: ("int", 0) for f in
           ["minimum_fidelity", "priority", "atomic", "consecutive", "probability_dist_local1",
            "probability_dist_local2", "probability_dist_remote1", "probability_dist_remote2"]}
    exp["remote_node_id"] = ("int", case["node"])
    exp["purpose_id"] = ("int", case["sock"])
    exp["type"] = ("enum", "RequestType", qc.RequestType[tp].value)
    exp["number"] = ("int", kw.get("number", 1))
    mt = kw.get("max_time", 0)
    exp["max_time"] = ("int", mt)
    # max_time == 0 means "no limit": the unit is immaterial, the tuple default stands
    exp["time_unit"] = ("int", qc.TimeUnit[kw.get("time_unit", "MICRO_SECONDS")].value if mt != 0 else
                        qc.TimeUnit.MICRO_SECONDS.value)
    rl = rr = (0, 0, 0)
    rbl = rbr = "NONE"
    if tp in ("M", "R"):
        rl = tuple(kw.get("rotations_local", (0, 0, 0)))
        if kw.get("basis_local") is not None:
            rl = SPEC_BASIS_ROT[kw["basis_local"]]
        rbl = kw.get("random_basis_local") or "NONE"
    if tp == "M":
        rr = tuple(kw.get("rotations_remote", (0, 0, 0)))
        if kw.get("basis_remote") is not None:
            rr = SPEC_BASIS_ROT[kw["basis_remote"]]
        rbr = kw.get("random_basis_remote") or "NONE"
    exp["random_basis_local"] = ("enum", "RandomBasis", qc.RandomBasis[rbl].value)
    exp["random_basis_remote"] = ("enum", "RandomBasis", qc.RandomBasis[rbr].value)
    for name, v in zip(["rotation_X_local1", "rotation_Y_local", "rotation_X_local2"], rl):
        exp[name] = ("int", v)
    for name, v in zip(["rotation_X_remote1", "rotation_Y_remote", "rotation_X_remote2"], rr):
        exp[name] = ("int", v)
    return exp, rl, rr


def make_response(ns, okm, vals, fmt="native"):
    """vals: ints in tuple-field order; enum-typed fields are given by value (netqasm numbering).
    fmt: "native" (LinkLayerOKType*), "qlink_enum" / "qlink_int" (qlink-interface 1.0 Res* object with the
    Bell state of the same NAME given as qlink enum member / as its plain integer value)"""
    qc = ns.qc
    cls = qc.LinkLayerOKTypeM if okm else qc.LinkLayerOKTypeK
    d = dict(zip(cls._fields, vals))
    if fmt != "native":
        import qlink_interface as ql

        qb = ql.BellState[qc.BellState(d["bell_state"]).name]
        common = dict(create_id=d["create_id"], directionality_flag=d["directionality_flag"],
                      sequence_number=d["sequence_number"], purpose_id=d["purpose_id"],
                      remote_node_id=d["remote_node_id"], goodness=d["goodness"],
                      bell_state=qb if fmt == "qlink_enum" else qb.value)
        if okm:
            return ql.ResMeasureDirectly(measurement_outcome=d["measurement_outcome"],
                                         measurement_basis=ql.MeasurementBasis(d["measurement_basis"]), **common)
        return ql.ResCreateAndKeep(logical_qubit_id=d["logical_qubit_id"], time_of_goodness=d["goodness_time"], **common)
    d["type"] = qc.ReturnType(d["type"])
    d["bell_state"] = qc.BellState(d["bell_state"])
    if okm:
        d["measurement_basis"] = qc.Basis(d["measurement_basis"])
    return cls(**d)


def resp_is_m(call):
    return call in ("create_measure", "recv_measure", "create_rsp")


def gen_responses(ns, rng, case):
    """n responses with pairwise-distinct arbitrary values in every free field"""
    qc = ns.qc
    okm = resp_is_m(case["call"])
    n = case["kw"].get("number", 1)
    cls = qc.LinkLayerOKTypeM if okm else qc.LinkLayerOKTypeK
    creator = case["call"] in CREATE_CALLS
    pool = rng.sample(range(100, 100000), 12 * n)
    # physical qubit ids: distinct among the live pairs and none of the low addresses the controller itself hands
    # to freshly allocated (memory) qubits
    phys = rng.sample(range(50, 1000), n)
    out = []
    for i in range(n):
        d = {}
        for j, f in enumerate(cls._fields):
            d[f] = pool[i * 12 + j]
        d["type"] = (qc.ReturnType.OK_M if okm else qc.ReturnType.OK_K).value
        d["directionality_flag"] = 0 if creator else 1
        d["purpose_id"] = case.get("purpose", case["sock"])   # what the stack's get_purpose_id returns for (remote, socket)
        d["remote_node_id"] = case["node"]
        d["bell_state"] = rng.choice([m.value for m in qc.BellState])
        if okm:
            d["measurement_basis"] = rng.choice([m.value for m in qc.Basis])
            d["measurement_outcome"] = rng.choice([0, 1])
        else:
            d["logical_qubit_id"] = phys[i]
        out.append([d[f] for f in cls._fields])
    return out


class CaseResult:
    pass


def run_case(repo, ns, case, executor="rec"):
    """Run one API call through the real pipeline.  Returns a CaseResult with
    .request (canonical, or None), .arr (what the real serialize_request returned),
    .qlink (None | 'ok' | exception class name), .qlink_obj, .handles (what the host reads),
    .error (exception class name raised by the SDK call / flush), .results_array."""
    qc = ns.qc
    res = CaseResult()
    res.request = res.arr = res.qlink = res.qlink_obj = res.error = res.handles = None
    call, kw = case["call"], kw_to_py(ns, case["kw"])
    okm = resp_is_m(call)
    hw = case.get("hardware", "generic")   # generic | nv | nvswap (generic config + NV transpiler: the Builder swaps it)
    pipe = Pipeline(repo, peers={"Bob": case["node"]}, node_id=case.get("own_node", 0), executor=executor,
                    hardware="nv" if hw == "nv" else "generic", use_transpiler=hw in ("nv", "nvswap"),
                    max_qubits=case.get("max_qubits", 5))
    res.pipe = pipe
    sock = pipe.epr_socket("Bob", epr_socket_id=case["sock"], remote_epr_socket_id=case.get("remote_sock", 0))
    resps = [make_response(ns, okm, v, case.get("resp_format", "native")) for v in case["resp"]]
    res.bookkeeping = None
    res.results_array = None
    if resps:
        first = resps[0]

        def peek(ex, first=first):
            table = ex._epr_recv_requests if call in RECV_CALLS else ex._epr_create_requests
            res.bookkeeping = [(list(k), d.tot_pairs, d.pairs_left, d.ent_results_array_address)
                               for k, v in table.items() for d in v]
            return first

        pipe.responses = [peek] + resps[1:]
    recorded = []
    real_ser = ns.bmod.serialize_request

    def rec_ser(tp, params):
        out = real_ser(tp, params)
        recorded.append((tp, params, list(out)))
        return out

    ns.bmod.serialize_request = rec_ser
    try:
        with pipe.connection(epr_sockets=[sock]) as conn:
            extra = [__import__("netqasm.sdk.qubit", fromlist=["Qubit"]).Qubit(conn) for _ in range(case.get("extra", 0))]
            fn = case["call"]
            infos = qubits = meas = None
            if fn == "create_keep":
                if "max_tries" in kw:
                    qubits = sock.create_keep(**kw)
                else:
                    qubits, infos = sock.create_keep_with_info(**kw)
            elif fn == "recv_keep":
                qubits, infos = sock.recv_keep_with_info(**kw)
            elif fn == "recv_rsp":
                qubits, infos = sock.recv_rsp_with_info(**kw)
            else:
                meas = getattr(sock, fn)(**kw)
            conn.flush()
            if res.bookkeeping and len(res.bookkeeping) == 1:
                res.results_array = pipe.arrays().get(res.bookkeeping[0][3])
            res.handles = read_handles(ns, conn, qubits, infos, meas)
            for q in extra:
                q.measure()
    except Exception as e:  # noqa
        res.error = type(e).__name__ + ": " + str(e).splitlines()[0][:200] if str(e) else type(e).__name__
    finally:
        ns.bmod.serialize_request = real_ser
    res.ser = recorded[-1] if recorded else None   # (tp, EntRequestParams, array) of the real serialize_request
    if recorded:
        res.arr = recorded[-1][2]
    if pipe.requests:
        req = pipe.requests[-1]
        res.request_obj = req
        res.request = canon_request(req)
        try:
            res.qlink_obj = qc.request_to_qlink_1_0(req)
            res.qlink = "ok"
        except Exception as e:  # noqa
            res.qlink = type(e).__name__
    return res


def fut(f):
    """value of a future as the host sees it after the flush"""
    v = f.value
    return v


def read_handles(ns, conn, qubits, infos, meas):
    out = {"qubits": [], "infos": [], "meas": []}
    for q in qubits or []:
        ei = q.entanglement_info
        d = {f: fut(x) for f, x in zip(ei._fields, ei)}
        try:
            d["__remote_entangled_node"] = q.remote_entangled_node
        except Exception as e:  # noqa
            d["__remote_entangled_node"] = "raised " + type(e).__name__
        out["qubits"].append(d)
    for r in infos or []:
        out["infos"].append(dict(qubit_id=fut(r.qubit_id), remote_node_id=fut(r.remote_node_id),
                                 generation_duration=fut(r.generation_duration), raw_bell_state=fut(r.raw_bell_state),
                                 bell_state=r.bell_state.name))
    for r in meas or []:
        d = dict(raw_measurement_outcome=fut(r.raw_measurement_outcome), remote_node_id=fut(r.remote_node_id),
                 generation_duration=fut(r.generation_duration), raw_bell_state=fut(r.raw_bell_state),
                 bell_state=r.bell_state.name, measurement_basis_local=list(r.measurement_basis_local),
                 measurement_basis_remote=list(r.measurement_basis_remote), post_process=r.post_process)
        try:
            d["measurement_outcome"] = r.measurement_outcome
        except RuntimeError:
            d["measurement_outcome"] = "unavailable"
        out["meas"].append(d)
    return out


def check_handles(ns, case, handles):
    """oracle: every handle of pair i shows the like-named field of response i.
    Returns a list of mismatch descriptions."""
    qc = ns.qc
    okm = resp_is_m(case["call"])
    cls = qc.LinkLayerOKTypeM if okm else qc.LinkLayerOKTypeK
    bad = []
    n = len(case["resp"])
    rs = [dict(zip(cls._fields, v)) for v in case["resp"]]
    names = {v: k for k, v in {"Bob": case["node"], "Alice": case.get("own_node", 0)}.items()}
    if case.get("peers"):
        names = {v: k for k, v in case["peers"].items()}
        names[case.get("own_node", 0)] = "Alice"
    if not okm:
        if len(handles["qubits"]) != n:
            bad.append(f"{len(handles['qubits'])} qubit handles for {n} pairs")
        for i, d in enumerate(handles["qubits"][:n]):
            for f in cls._fields:
                if d.get(f) != rs[i][f]:
                    bad.append(f"qubit {i}.entanglement_info.{f} = {d.get(f)!r}, response {i} has {rs[i][f]}")
            if d["__remote_entangled_node"] != names.get(rs[i]["remote_node_id"]):
                bad.append(f"qubit {i}.remote_entangled_node = {d['__remote_entangled_node']!r}")
        if handles["infos"] and len(handles["infos"]) != n:
            bad.append(f"{len(handles['infos'])} info handles for {n} pairs")
        for i, d in enumerate(handles["infos"][:n]):
            want = dict(qubit_id=rs[i]["logical_qubit_id"], remote_node_id=rs[i]["remote_node_id"],
                        generation_duration=rs[i]["goodness"], raw_bell_state=rs[i]["bell_state"],
                        bell_state=qc.BellState(rs[i]["bell_state"]).name)
            for k, v in want.items():
                if d[k] != v:
                    bad.append(f"info {i}.{k} = {d[k]!r}, response {i} says {v!r}")
    else:
        if len(handles["meas"]) != n:
            bad.append(f"{len(handles['meas'])} result handles for {n} pairs")
        exp, rl, rr = (None, None, None)
        if case["call"] in CREATE_CALLS:
            exp, rl, rr = spec_request(ns, case)
        elif case["call"] == "recv_measure":
            kw = case["kw"]     # the bases the receiver stated (default Z/Z)
            rl = SPEC_BASIS_ROT[kw["basis_local"]] if kw.get("basis_local") else tuple(kw.get("rotations_local", (0, 0, 0)))
            rr = SPEC_BASIS_ROT[kw["basis_remote"]] if kw.get("basis_remote") else tuple(kw.get("rotations_remote", (0, 0, 0)))
        for i, d in enumerate(handles["meas"][:n]):
            want = dict(raw_measurement_outcome=rs[i]["measurement_outcome"], remote_node_id=rs[i]["remote_node_id"],
                        generation_duration=rs[i]["goodness"], raw_bell_state=rs[i]["bell_state"],
                        bell_state=qc.BellState(rs[i]["bell_state"]).name)
            if rl is not None:
                want["measurement_basis_local"] = list(rl)
                want["measurement_basis_remote"] = list(rr)
            # a creator's outcome handle shows the outcome field of its pair's response; only a receiver that expects
            # Phi+ post-processes (in the default Z/Z bases: flipped exactly for PSI_PLUS / PSI_MINUS)
            creator = case["call"] in CREATE_CALLS
            expect = (not creator) and case["kw"].get("expect_phi_plus", True)
            want["post_process"] = bool(expect)
            if not expect:
                want["measurement_outcome"] = rs[i]["measurement_outcome"]
            elif (rl is None or tuple(rl) == (0, 0, 0)) and (rr is None or tuple(rr) == (0, 0, 0)):
                anti = qc.BellState(rs[i]["bell_state"]).name in ("PSI_PLUS", "PSI_MINUS")
                want["measurement_outcome"] = rs[i]["measurement_outcome"] ^ (1 if anti else 0)
            for k, v in want.items():
                if d[k] != v:
                    bad.append(f"result {i}.{k} = {d[k]!r}, response {i} / request says {v!r}")
    return bad


def check_qlink_obj(ns, case, obj):
    """the converted qlink-interface 1.0 request carries the call's parameters"""
    exp, rl, rr = spec_request(ns, case)
    bad = []
    tp = TP_OF_CALL[case["call"]]
    want = dict(remote_node_id=case["node"], purpose_id=case["sock"], number=exp["number"][1],
                time_unit=exp["time_unit"][1], max_time=exp["max_time"][1])
    if tp in ("M", "R"):
        want.update(x_rotation_angle_local_1=rl[0], y_rotation_angle_local=rl[1], x_rotation_angle_local_2=rl[2])
    if tp == "M":
        want.update(x_rotation_angle_remote_1=rr[0], y_rotation_angle_remote=rr[1], x_rotation_angle_remote_2=rr[2])
    if type(obj).__name__ != {"K": "ReqCreateAndKeep", "M": "ReqMeasureDirectly", "R": "ReqRemoteStatePrep"}[tp]:
        bad.append(f"converted to {type(obj).__name__}")
    for k, v in want.items():
        if getattr(obj, k, "missing") != v:
            bad.append(f"qlink request .{k} = {getattr(obj, k, 'missing')!r}, expected {v!r}")
    if tp in ("M", "R"):
        rb = getattr(obj, "random_basis_local", None)
        if getattr(rb, "name", None) != (case["kw"].get("random_basis_local") or "NONE"):
            bad.append(f"qlink request .random_basis_local = {rb!r}")
    if tp == "M":
        rb = getattr(obj, "random_basis_remote", None)
        if getattr(rb, "name", None) != (case["kw"].get("random_basis_remote") or "NONE"):
            bad.append(f"qlink request .random_basis_remote = {rb!r}")
    return bad


# ---------------------------------------------------------------- several sockets in one program
PURPOSE_FUNCS = {
    "identity": lambda remote, sock: sock,
    "remote16": lambda remote, sock: 16 * remote + sock,
    "swap": lambda remote, sock: 8 * (7 - sock) + remote,
}


def run_scenario(repo, ns, scen):
    """scen: dict(purpose=<name in PURPOSE_FUNCS>, own_node, peers={name: node id},
    sockets=[dict(remote=<name>, sock=<local id>, remote_sock=<id>)], flush_each=bool,
    ops=[dict(socket=<index>, call, kw, resp=[value lists])]).  One connection, the operations in sequence.
    Returns per-op dicts(request, handles, bookkeeping) and an error string."""
    qc = ns.qc
    f = PURPOSE_FUNCS[scen["purpose"]]
    pipe = Pipeline(repo, peers=dict(scen["peers"]), node_id=scen["own_node"], max_qubits=scen.get("max_qubits", 8))
    stack = pipe.executor.network_stack
    stack.get_purpose_id = lambda remote_node_id, epr_socket_id: f(remote_node_id, epr_socket_id)
    socks = [pipe.epr_socket(sd["remote"], epr_socket_id=sd["sock"], remote_epr_socket_id=sd.get("remote_sock", 0))
             for sd in scen["sockets"]]
    out = dict(ops=[dict(request=None, handles=None, handles_late=None, bookkeeping=None) for _ in scen["ops"]], error=None)
    responses = []
    for k, op in enumerate(scen["ops"]):
        okm = resp_is_m(op["call"])
        rs = [make_response(ns, okm, v, op.get("resp_format", "native")) for v in op["resp"]]
        if rs:
            def peek(ex, first=rs[0], k=k, call=op["call"]):
                table = ex._epr_recv_requests if call in RECV_CALLS else ex._epr_create_requests
                out["ops"][k]["bookkeeping"] = sorted((list(key), d.tot_pairs) for key, v in table.items() for d in v)
                return first
            responses += [peek] + rs[1:]
    pipe.responses = responses
    try:
        with pipe.connection(epr_sockets=socks) as conn:
            pending = []
            kept = []
            for k, op in enumerate(scen["ops"]):
                sock = socks[op["socket"]]
                kw = kw_to_py(ns, op["kw"])
                nreq = len(pipe.requests)
                infos = qubits = meas = None
                if op["call"] == "create_keep":
                    qubits, infos = sock.create_keep_with_info(**kw)
                elif op["call"] == "recv_keep":
                    qubits, infos = sock.recv_keep_with_info(**kw)
                elif op["call"] == "recv_rsp":
                    qubits, infos = sock.recv_rsp_with_info(**kw)
                else:
                    meas = getattr(sock, op["call"])(**kw)
                pending.append((k, qubits, infos, meas, nreq))
                kept.append((k, qubits, infos, meas))
                if scen.get("flush_each", True) or k == len(scen["ops"]) - 1:
                    conn.flush()
                    base = pending[0][4]
                    creates = [p for p in pending if scen["ops"][p[0]]["call"] in CREATE_CALLS]
                    for j, (kk, *_rest) in enumerate(creates):
                        if base + j < len(pipe.requests):
                            out["ops"][kk]["request"] = canon_request(pipe.requests[base + j])
                    for kk, qs, inf, ms, _n in pending:
                        out["ops"][kk]["handles"] = read_handles(ns, conn, qs, inf, ms)
                        for q in qs or []:
                            q.measure()     # make room for the next operation
                    conn.flush()
                    pending = []
            # every handle of every round once more, after all later rounds (subroutines) have run
            for kk, qs, inf, ms in kept:
                out["ops"][kk]["handles_late"] = read_handles(ns, conn, qs, inf, ms)
    except Exception as e:  # noqa
        out["error"] = type(e).__name__ + ": " + (str(e).splitlines()[0][:200] if str(e) else "")
    return out


# ---------------------------------------------------------------- documented defaults of the public API
# Frozen from the EPRSocket docstrings (the documented behaviour when an argument is not given); NOT read from the
# signatures under test.  Keyed by parameter name: every public create/recv method documents the same default.
DOCUMENTED_DEFAULTS = {
    "number": "1", "post_routine": "None", "sequential": "False", "expect_phi_plus": "True",
    "min_fidelity_all_at_end": "None", "max_tries": "None", "tp": "EPRType.K",
    "time_unit": "TimeUnit.MICRO_SECONDS", "max_time": "0",
    "basis_local": "None", "basis_remote": "None", "rotations_local": "(0, 0, 0)", "rotations_remote": "(0, 0, 0)",
    "random_basis_local": "None", "random_basis_remote": "None",
}


# the public create*/recv* methods and their parameters as documented when the table was frozen; the obligation
# binds exactly these (method, parameter) pairs.  A method or a parameter that is not listed is NEW API: it is
# recorded (coverage.unknown_api) and exercised generically where possible, but it is not evidence against a property.
KNOWN_SIGNATURES = {
    "create": ["number", "post_routine", "sequential", "tp", "time_unit", "max_time", "basis_local", "basis_remote",
               "rotations_local", "rotations_remote", "random_basis_local", "random_basis_remote"],
    "create_context": ["number", "sequential", "time_unit", "max_time"],
    "create_keep": ["number", "post_routine", "sequential", "time_unit", "max_time", "min_fidelity_all_at_end", "max_tries"],
    "create_keep_with_info": ["number", "post_routine", "sequential", "time_unit", "max_time", "min_fidelity_all_at_end"],
    "create_measure": ["number", "time_unit", "max_time", "basis_local", "basis_remote", "rotations_local",
                       "rotations_remote", "random_basis_local", "random_basis_remote"],
    "create_rsp": ["number", "time_unit", "max_time", "basis_local", "rotations_local", "random_basis_local",
                   "min_fidelity_all_at_end", "max_tries"],
    "recv": ["number", "post_routine", "sequential", "tp"],
    "recv_context": ["number", "sequential"],
    "recv_keep": ["number", "post_routine", "sequential", "expect_phi_plus", "min_fidelity_all_at_end", "max_tries"],
    "recv_keep_with_info": ["number", "post_routine", "sequential", "expect_phi_plus", "min_fidelity_all_at_end", "max_tries"],
    "recv_measure": ["number", "expect_phi_plus", "basis_local", "basis_remote", "rotations_local", "rotations_remote"],
    "recv_rsp": ["number", "expect_phi_plus", "min_fidelity_all_at_end", "max_tries"],
    "recv_rsp_with_info": ["number", "expect_phi_plus", "min_fidelity_all_at_end", "max_tries"],
}


def signature_defaults_report():
    """Compare the default of every KNOWN (method, parameter) of the public create*/recv* methods of EPRSocket with
    the documented one.  Returns (known methods seen, differences 'method.param: ...' (these fail the obligation),
    unknown API 'method' / 'method.param' (recorded only))."""
    import enum
    import inspect

    from netqasm.sdk.epr_socket import EPRSocket

    diffs, methods, unknown = [], [], []
    seen = set()
    for name, fn in inspect.getmembers(EPRSocket, predicate=callable):
        if name.startswith("_") or not (name.startswith("create") or name.startswith("recv")):
            continue
        seen.add(name)
        if name not in KNOWN_SIGNATURES:
            unknown.append(name)
            continue
        try:
            params = inspect.signature(fn).parameters
        except (TypeError, ValueError):
            diffs.append(f"{name}: signature not inspectable")
            continue
        methods.append(name)
        for pn in KNOWN_SIGNATURES[name]:
            if pn not in params:
                diffs.append(f"{name}.{pn}: documented parameter is gone")
        for pn, p in params.items():
            if pn == "self":
                continue
            if pn not in KNOWN_SIGNATURES[name] or pn not in DOCUMENTED_DEFAULTS:
                unknown.append(f"{name}.{pn}")
                continue
            if p.default is inspect.Parameter.empty:
                got = "<required>"
            elif isinstance(p.default, enum.Enum):
                got = f"{type(p.default).__name__}.{p.default.name}"
            else:
                got = repr(p.default)
            if got != DOCUMENTED_DEFAULTS[pn]:
                diffs.append(f"{name}.{pn}: default {got}, documented {DOCUMENTED_DEFAULTS[pn]}")
    for name in KNOWN_SIGNATURES:
        if name not in seen:
            diffs.append(f"{name}: documented public method is gone")
    return methods, diffs, unknown
