"""Generator of vanilla subroutines for C08: SDK-shaped code (every gate preceded by
`set`s of its Q registers) with loops, conditionals, end labels, measurements into
registers/arrays, Q registers written by `set` and (flagged stream) by `load`,
1..3 carbons.  Programs are lists of tuples (see nv_impl.py); branch targets are
resolved from labels, a label at the very end resolves to len(program)."""

G1 = ["x", "y", "z", "h", "k", "s", "t"]


class Gen:
    def __init__(self, rng, ncarbons, qpool, opts):
        self.rng = rng
        self.nc = ncarbons
        self.qa, self.qb = qpool
        self.o = opts
        self.items = []  # tuples, or ("label", name); branch targets are label names
        self.nlabel = 0
        self.script_len = 0
        self.depth = 0
        self.ql = opts.get("lreg")   # a Q register written ONLY by load/add, never by set
        # operand registers of two-qubit gates: with `perm` a third register joins the pool and every gate
        # picks its two operand registers (and their order) afresh, so the same qubit id (in particular the
        # electron, id 0) is addressed through different Q registers by different gates of one subroutine
        self.qregs = [self.qa, self.qb] + ([opts["perm"]] if opts.get("perm") else [])
        self.late = opts.get("late")     # a Q register that first occurs AFTER the first carbon-carbon gate
        self.late_live = False
        self.cc_emitted = False

    # ---- emission
    def e(self, *t):
        self.items.append(tuple(t))

    def label(self):
        self.nlabel += 1
        return f"L{self.nlabel}"

    def place(self, lab):
        self.items.append(("label", lab))

    def resolve(self):
        pos, out = {}, []
        for it in self.items:
            if it[0] == "label":
                pos[it[1]] = len(out)
            else:
                out.append(it)
        res = []
        for it in out:
            if it[0] == "jmp":
                res.append(("jmp", pos[it[1]]))
            elif it[0] == "br1":
                res.append(("br1", it[1], it[2], pos[it[3]]))
            elif it[0] == "br2":
                res.append(("br2", it[1], it[2], it[3], pos[it[4]]))
            else:
                res.append(it)
        return res

    # ---- pieces
    def qid(self):
        return self.rng.randint(0, self.nc)

    def prologue(self):
        for i in range(self.nc + 1):
            self.e("set", self.qa, i)
            self.e("q", "qalloc", self.qa)
            self.e("q", "init", self.qa)
        for r in self.qregs[1:]:
            self.e("set", r, 0)
        self.e("set", ("C", 1), 1)
        self.e("set", ("R", 0), 4)
        self.e("array", ("R", 0), 0)
        for k in range(4):
            self.e("set", ("R", 1), k)
            self.e("set", ("R", 2), self.rng.randint(-3, 9))
            self.e("store", ("R", 2), 0, ("R", 1))
        if self.o.get("load") or self.ql:
            self.e("set", ("R", 0), self.nc + 1)
            self.e("array", ("R", 0), 1)
            ids = list(range(self.nc + 1))
            self.rng.shuffle(ids)
            for k, v in enumerate(ids):
                self.e("set", ("R", 1), k)
                self.e("set", ("R", 2), v)
                self.e("store", ("R", 2), 1, ("R", 1))
        if self.ql:
            self.lwrite()
        for k in range(3, 6):
            self.e("set", ("R", k), self.rng.randint(0, 3))
        for k in range(4):
            self.e("set", ("M", k), 0)

    def gate1(self):
        self.e("set", self.qa, self.qid())
        self.single(self.qa)
        while self.rng.random() < 0.3:      # back to back on the same register, no `set` in between
            self.single(self.qa)

    def single(self, r):
        rng = self.rng
        if rng.random() < 0.45:
            d = rng.choice([0, 1, 2, 3, 4, 4, 4, 5, 7]) if not self.o.get("hw_safe") else rng.randint(0, 4)
            self.e("rot", rng.choice("xyz"), r, rng.randint(0, 2 ** min(d + 1, 8) - 1) if rng.random() < 0.8 else rng.randint(0, 255), d)
        else:
            self.e("g1", rng.choice(self.o.get("g1", G1)), r)

    def gate2(self):
        rng = self.rng
        a = self.qid()
        b = rng.choice([x for x in range(self.nc + 1) if x != a])
        g = rng.choice(self.o.get("g2", ["cnot", "cphase"]))
        if g == "mov" and a != 0 and b != 0:
            b = 0
        if len(self.qregs) > 2:
            ra, rb = rng.sample(self.qregs, 2)
        else:
            ra, rb = self.qa, self.qb
        if rng.random() < 0.5:
            self.e("set", ra, a)
            self.e("set", rb, b)
        else:
            self.e("set", rb, b)
            self.e("set", ra, a)
        self.e("g2", g, ra, rb)
        if a != 0 and b != 0:
            self.cc_emitted = True
        while rng.random() < 0.35:          # single-qubit gates directly behind the two-qubit gate, on one of
            self.single(rng.choice([ra, rb]))   # its operand registers, without a `set` (and no label) in between

    def ce_then_gate(self):
        """carbon -> electron cnot immediately followed by a single-qubit gate on the electron's register"""
        rng = self.rng
        ra, rb = (rng.sample(self.qregs, 2) if len(self.qregs) > 2 else (self.qa, self.qb))
        self.e("set", ra, rng.randint(1, self.nc))
        self.e("set", rb, 0)
        self.e("g2", "cnot" if "cnot" in self.o.get("g2", ["cnot"]) else "cphase", ra, rb)
        self.single(rb)
        if rng.random() < 0.4:
            self.single(rng.choice([ra, rb]))

    def cc_burst(self):
        """an unrolled run of carbon-carbon gates (more than there are spare Q registers)"""
        rng = self.rng
        for _ in range(rng.randint(15, 17)):
            a, b = rng.sample(range(1, self.nc + 1), 2)
            self.e("set", self.qa, a)
            self.e("set", self.qb, b)
            self.e("g2", rng.choice(self.o.get("g2", ["cnot", "cphase"])), self.qa, self.qb)
        self.cc_emitted = True

    def late_use(self):
        """a Q register the program starts using only after its first carbon-carbon gate (which may have
        borrowed it as scratch), written once at top level and read again after later gates without re-write"""
        rng = self.rng
        if not self.cc_emitted or (not self.late_live and self.depth > 0):
            return self.gate2() if self.nc >= 2 and rng.random() < 0.7 else self.gate1()
        if not self.late_live or (self.depth == 0 and rng.random() < 0.25):
            self.e("set", self.late, self.qid())
            self.late_live = True
        self.single(self.late)

    def ce_pair(self):
        """two carbon->electron gates of one subroutine that address the electron (id 0) through
        DIFFERENT Q registers"""
        rng = self.rng
        r1, r2, r3 = rng.sample(self.qregs, 3)
        g = rng.choice(self.o.get("g2", ["cnot", "cphase"]))
        self.e("set", r1, 0)
        self.e("set", r2, rng.randint(1, self.nc))
        self.e("g2", "cnot" if "cnot" in self.o.get("g2", ["cnot"]) else g, r2, r1)
        if rng.random() < 0.5:
            self.gate1()
        self.e("set", r1, rng.randint(1, self.nc))
        self.e("set", r3, 0)
        self.e("g2", g, r1, r3)

    def epr_move(self):
        """what the SDK emits to move a fresh EPR half from the electron onto a carbon: `mov <src> <dst>`
        whose operands are NOT Q registers (R / C bank registers holding the qubit ids), with the same
        register INDICES as Q registers that were `set` earlier in the subroutine.  The carbon is freshly
        initialised before, the electron is re-initialised afterwards (as the next EPR generation does),
        so the move is a state transfer whatever state the source is left in."""
        rng = self.rng
        c = rng.randint(1, self.nc)
        self.e("set", self.qa, c)
        self.e("q", "init", self.qa)
        bank = rng.choice(["R", "R", "C"])
        i, j = rng.sample([0, 1] if bank == "R" else [0, 2, 3], 2)
        if rng.random() < 0.25:
            src, dst = rng.sample(self.qregs, 2) if len(self.qregs) > 1 else (self.qa, self.qb)
        else:
            src, dst = (bank, i), (bank, j)
        if rng.random() < 0.5:
            self.e("set", src, 0)
            self.e("set", dst, c)
        else:
            self.e("set", dst, c)
            self.e("set", src, 0)
        self.e("g2", "mov", src, dst)
        self.e("set", self.qa, 0)
        self.e("q", "init", self.qa)

    def gate_load(self):
        """Q register written by load (qubit id table in array @1)"""
        rng = self.rng
        k = rng.randint(0, self.nc)
        if rng.random() < 0.4:
            self.e("set", ("R", 1), k)
            self.e("load", self.qa, 1, ("R", 1))
            self.single(self.qa)
        else:
            a = self.qid()
            b = rng.choice([x for x in range(self.nc + 1) if x != a])
            self.e("set", self.qa, a)
            self.e("set", self.qb, b)
            self.e("set", ("R", 1), k)
            self.e("load", rng.choice([self.qa, self.qb]), 1, ("R", 1))
            self.e("g2", rng.choice(["cnot", "cphase"]), self.qa, self.qb)

    def lwrite(self):
        """(re)write the load/add-only Q register with a valid qubit id, never by `set`"""
        rng = self.rng
        if rng.random() < 0.6:
            self.e("set", ("R", 1), rng.randint(0, self.nc))
            self.e("load", self.ql, 1, ("R", 1))
        else:
            v = rng.randint(0, self.nc)
            a = rng.randint(-2, 3)
            self.e("set", ("R", 1), a)
            self.e("set", ("R", 2), v - a)
            self.e("arith", False, self.ql, ("R", 1), ("R", 2))

    def luse(self):
        """single-qubit gate / measurement through the load/add-written register, which keeps its
        value across the gates in between (no reload)"""
        rng = self.rng
        if rng.random() < 0.25:
            self.lwrite()
        if rng.random() < 0.8:
            self.single(self.ql)
        else:
            self.e("meas", self.ql, ("M", rng.randint(0, 3)))
            self.script_len += 1

    def classical(self):
        rng = self.rng
        c = rng.randint(0, 5)
        rs = [("R", k) for k in range(2, 6)]
        if c == 0:
            self.e("set", rng.choice(rs), rng.randint(-4, 12))
        elif c == 1:
            self.e("arith", rng.random() < 0.5, rng.choice(rs), rng.choice(rs), rng.choice(rs + [("C", 1)]))
        elif c == 2:
            self.e("set", ("R", 1), rng.randint(1, 5))
            self.e("arithm", rng.random() < 0.5, rng.choice(rs), rng.choice(rs), rng.choice(rs), ("R", 1))
        elif c == 3:
            self.e("set", ("R", 1), rng.randint(-4, 3))
            self.e("store", rng.choice(rs + [("M", 0), ("M", 1)]), 0, ("R", 1))
        elif c == 4:
            self.e("set", ("R", 1), rng.randint(-4, 3))
            self.e("load", rng.choice(rs), 0, ("R", 1))
        else:
            self.e("lea", ("R", 2), rng.randint(0, 1))

    def meas(self):
        rng = self.rng
        m = ("M", rng.randint(0, 3))
        q = self.qid()
        self.e("set", self.qa, q)
        self.e("meas", self.qa, m)
        self.script_len += 1
        if rng.random() < 0.4:
            self.e("set", ("R", 1), rng.randint(0, 3))
            self.e("store", m, 0, ("R", 1))
        if rng.random() < 0.5:
            lab = self.label()
            self.e("br1", rng.choice(["bez", "bnz"]), m, lab)
            self.e("set", self.qa, self.qid())
            self.single(self.qa)
            self.place(lab)

    def cond(self):
        rng = self.rng
        lab = self.label()
        regs = [("R", k) for k in range(2, 6)] + [("M", k) for k in range(4)]
        if rng.random() < 0.4:
            self.e("br1", rng.choice(["bez", "bnz"]), rng.choice(regs), lab)
        else:
            self.e("br2", rng.choice(["beq", "bne", "blt", "bge"]), rng.choice(regs), rng.choice(regs), lab)
        self.block(rng.randint(1, 3))
        if rng.random() < 0.3:  # if/else
            end = self.label()
            self.e("jmp", end)
            self.place(lab)
            self.block(rng.randint(1, 2))
            self.place(end)
        else:
            self.place(lab)

    def loop(self):
        rng = self.rng
        cnt, lim = ("R", 6 + 2 * self.depth), ("R", 7 + 2 * self.depth)
        top, ex = self.label(), self.label()
        self.e("set", cnt, 0)
        self.e("set", lim, rng.randint(0, 3))
        self.place(top)
        if rng.random() < 0.5:
            self.e("br2", "bge", cnt, lim, ex)
        else:
            self.e("br2", "beq", cnt, lim, ex)
        self.block(rng.randint(1, 3))
        self.e("arith", False, cnt, cnt, ("C", 1))
        self.e("jmp", top)
        self.place(ex)

    def block(self, n):
        self.depth += 1
        for _ in range(n):
            self.stmt()
        self.depth -= 1

    def stmt(self):
        rng = self.rng
        w = [("gate1", 4), ("gate2", 5), ("classical", 2), ("meas", 2)]
        if self.depth < 2:
            w += [("cond", 2), ("loop", 2)]
        if self.o.get("load"):
            w += [("gate_load", 4)]
        if self.ql:
            w += [("luse", 5)]
        if len(self.qregs) > 2:
            w += [("ce_pair", 2)]
        if self.o.get("nonq"):
            w += [("epr_move", 2)]
        w += [("ce_then_gate", 2)]
        if self.late:
            w += [("late_use", 5)]
        tot = sum(x[1] for x in w)
        r = rng.uniform(0, tot)
        for name, wt in w:
            r -= wt
            if r <= 0:
                return getattr(self, name)()
        return self.gate1()


def gen_program(rng, opts=None, size=None):
    """-> (prog, meta).  opts: load (Q registers also written by load), g1/g2 (allowed gates),
    hw_safe (rotation denominators <= 4)."""
    opts = dict(opts or {})
    nc = opts.get("ncarbons") or rng.randint(1, 3)
    pools = [(("Q", 0), ("Q", 1))] * 4 + [(("Q", 1), ("Q", 0)), (("Q", 1), ("Q", 2)), (("Q", 3), ("Q", 0)), (("Q", 2), ("Q", 5))]
    pool = rng.choice(pools)
    if opts.get("lreg") is True:
        # the load/add-written register, mostly numbered below every untouched Q register
        pool, opts["lreg"] = rng.choice([((("Q", 0), ("Q", 1)), ("Q", 2)), ((("Q", 1), ("Q", 2)), ("Q", 0)),
                                         ((("Q", 0), ("Q", 2)), ("Q", 1)), ((("Q", 1), ("Q", 0)), ("Q", 2)),
                                         ((("Q", 0), ("Q", 1)), ("Q", 5))])
    if opts.get("perm") is True:
        if opts.get("lreg"):
            opts["perm"] = None
        else:
            opts["perm"] = next(("Q", i) for i in range(16) if ("Q", i) not in pool)
    if opts.get("burst") or opts.get("late"):
        nc = max(nc, 2)
    if opts.get("loop0"):
        opts["late"] = None
    if opts.get("late") is True:
        taken = set(pool) | {opts.get("lreg"), opts.get("perm")}
        opts["late"] = next(("Q", i) for i in range(16) if ("Q", i) not in taken)
    g = Gen(rng, nc, pool, opts)
    if opts.get("loop0"):
        # hand-written shape: the loop label is line 0.  First pass: R15 is still unwritten, `bez` on an
        # unwritten register is not taken, the set-up runs; later passes jump over it.
        g.place("L0")
        g.e("set", ("C", 1), 1)
        g.e("br1", "bez", ("R", 15), "Lbody")
        g.prologue()
        g.e("set", ("R", 15), 0)
        g.e("set", ("R", 14), 0)
        g.e("set", ("R", 13), rng.randint(2, 3))
        g.place("Lbody")
        g.depth = 1
    else:
        g.prologue()
    n = size if size is not None else rng.randint(2, 7)
    burst_at = rng.randrange(n) if opts.get("burst") else None
    for k in range(n):
        if k == burst_at:
            g.cc_burst()
        g.stmt()
    if g.ql and rng.random() < 0.7:
        g.luse()   # the register is still live after the two-qubit gates of the body
    if g.late and g.late_live:
        a, b = rng.sample(range(1, nc + 1), 2)   # one more carbon-carbon gate after the register came into use ...
        g.e("set", g.qa, a)
        g.e("set", g.qb, b)
        g.e("g2", rng.choice(opts.get("g2", ["cnot", "cphase"])[:2]), g.qa, g.qb)
        g.single(g.late)   # ... and the register is read again afterwards, not re-written
    if opts.get("loop0"):
        g.e("arith", False, ("R", 14), ("R", 14), ("C", 1))
        g.e("br2", "blt", ("R", 14), ("R", 13), "L0")
        g.depth = 0
    tail = rng.random()
    if tail < 0.35:
        g.depth = 1
        g.cond()  # ends with a label just past the end (when it is the last statement)
        g.depth = 0
    elif tail < 0.5:
        g.loop()
    elif tail < 0.7:
        g.e("ret_arr", 0)
        g.e("ret_reg", ("M", 0))
    prog = g.resolve()
    return prog, dict(ncarbons=nc, script_len=g.script_len, pool=[g.qa, g.qb], lreg=g.ql, perm=opts.get("perm"), nonq=opts.get("nonq"),
                      late=opts.get("late"), loop0=opts.get("loop0"), burst=opts.get("burst"))


def mentioned_regs(prog):
    out = set()

    def walk(x):
        if isinstance(x, tuple) and len(x) == 2 and x[0] in ("R", "C", "Q", "M") and isinstance(x[1], int):
            out.add(x)
        elif isinstance(x, (list, tuple)):
            for y in x:
                walk(y)

    for t in prog:
        walk(t[1:])
    return out


def top_regs(t):
    """top-level register operands (what the transpiler's used-register set sees)"""
    k = t[0]
    if k in ("load", "store"):
        return [t[1]]
    if k == "undef":
        return []
    if k == "other":
        return list(t[2])
    return [x for x in t[1:] if isinstance(x, tuple) and len(x) == 2 and x[0] in ("R", "C", "Q", "M") and isinstance(x[1], int)]


def scratch_candidates(prog):
    """first unused Q register at each two-qubit gate (over-approximation of the scratch choice)"""
    used, out = set(), set()
    for t in prog:
        used.update(top_regs(t))
        if t[0] == "g2":
            for i in range(16):
                if ("Q", i) not in used:
                    out.add(("Q", i))
                    break
    return out


def sdk_shaped(prog, late=None):
    """the transpiler-owned registers (scratch candidates, C15) do not occur in the program.  `late`: a Q
    register the program deliberately starts using after a gate that may have borrowed it (it is written
    at top level before every read, and from then on counts as used, so later gates borrow another one)"""
    m = mentioned_regs(prog)
    return not ((scratch_candidates(prog) - {late}) & m) and ("C", 15) not in m


def tracked_at(prog, i):
    """Q register values the linear scan knows when it reaches instruction i (inclusive)"""
    tr = {}
    for t in prog[: i + 1]:
        if t[0] == "set" and t[1][0] == "Q":
            tr[t[1]] = t[2]
    return tr


def placement(a, b):
    if a == b:
        return None
    return "EC" if a == 0 else ("CE" if b == 0 else "CC")


def chosen_placement(prog, i):
    t = prog[i]
    tr = tracked_at(prog, i)
    if t[2] in tr and t[3] in tr:
        return placement(tr[t[2]], tr[t[3]])
    return "EC" if t[1] == "mov" else None
