"""Shared by checks C01, C02, C16 (and C17's table part): regenerate Gen_Codec.v,
generate streams, run the implementation, evaluate the model inside Coq."""
import os

import codec_impl as ci
import codec_tables as ct

FLAVS = ["vanilla", "nv", "reids"]


def prepare(ctx):
    """Regenerate and compile Gen_Codec.v.  Returns Impl or None (translator failed)."""
    ok, err = ctx.gen("codec_tables.py", "Gen_Codec.v")
    ctx.gen_obligation("translator codec_tables.py understands the source", ok, err.strip()[-300:])
    if not ok:
        return None
    r = ctx.coqc("Gen_Codec.v")
    ctx.gen_obligation("Gen_Codec.v type-checks", r.ok, r.err[-300:])
    ctx.trusted.append("gen/codec_tables.py: reads CORE_INSTRUCTIONS/flavour.instrs order, live id_map/name_map, "
                       "class id/mnemonic, dataclass operand types, ctypes field descriptors; pairs operand leaves "
                       "with struct leaves by one-hot probing of serialize()/deserialize_from()")
    try:
        return ci.Impl(ctx.repo)
    except Exception as e:  # noqa
        ctx.gen_obligation("implementation importable", False, repr(e))
        return None


def gen_sequences(ctx, impl, n_seq, max_len, oor_fraction=0.0, per_class_boundary=True):
    """Returns list of (flavour, v0, v1, app, body, tag)."""
    rng = ctx.rng
    cases = []
    for fname in FLAVS:
        rows = impl.t["flavours"][fname]["rows"]
        # effective (decodable) rows only: a class overridden in the dict cannot round trip,
        # which wf_table reports; the stream still includes it so the oracle can show it.
        if per_class_boundary:
            for row in rows:
                body = [ci.distinct_field_instr(rng, row)]
                cases.append((fname, 1, 0, 0, body, "distinct"))
                rs = ci.leaf_ranges(row)
                for j, (lo, hi) in enumerate(rs):
                    for v in ci.boundary_values(lo, hi):
                        name, lv = ci.distinct_field_instr(rng, row)
                        lv[j] = v
                        cases.append((fname, 0, 0, rng.choice([0, 1, 255, 256, 65535]), [(name, lv)], "boundary"))
        for _ in range(n_seq):
            n = rng.choice([0, 1, 1, 2, 3, 5, 8, 13, 21, max_len]) if rng.random() < 0.5 else rng.randint(0, max_len)
            body = [ci.gen_in_range_instr(rng, rng.choice(rows)) for _ in range(n)]
            v0, v1 = rng.choice([(0, 0), (1, 0), (255, 255), (rng.randint(0, 255), rng.randint(0, 255))])
            app = rng.choice([0, 1, 255, 256, 65535, rng.randint(0, 65535)])
            tag = "seq"
            if oor_fraction and rng.random() < oor_fraction:
                if rng.random() < 0.15:
                    app = rng.choice([65536, 65537, 70000, 2 ** 32, -1])
                    tag = "oor-app"
                else:
                    row = rng.choice(rows)
                    g = ci.gen_out_of_range_instr(rng, row)
                    if g is not None:
                        body.insert(rng.randint(0, len(body)), g[0])
                        tag = "oor-leaf"
            cases.append((fname, v0, v1, app, body, tag))
    return cases


def published_boundary_cases(impl):
    """Operand values at the boundaries of the PUBLISHED ranges (the frozen table of the reference
    encoder: 4 banks x 16 indices, imm8 0..255, int32 / addresses -2^31..2^31-1), whatever ranges the
    regenerated layout of the tree under test happens to have.  One leaf at a boundary, the others at
    a pairwise-distinct pattern."""
    import ref_encoder as re_
    vals = {re_.I8: [0, 255], re_.I32: [-2 ** 31, -1, 0, 2 ** 31 - 1], re_.A: [-2 ** 31, -1, 0, 2 ** 31 - 1]}
    out = []
    for fname in FLAVS:
        table = re_.TABLES.get(fname, {})
        for row in impl.t["flavours"][fname]["rows"]:
            ref = table.get(row["mnemonic"])
            if ref is None:
                continue
            kinds = ref[1]
            if sum(re_.NLEAF[k] for k in kinds) != sum(ct_nleaves(row)):
                continue  # the class no longer has the reference shape: C02's business
            cands = []  # (leaf position, values)
            pos = 0
            for k in kinds:
                if k == re_.R:
                    cands += [(pos, [0, 3]), (pos + 1, [0, 15])]
                elif k in (re_.I8, re_.I32, re_.A):
                    cands += [(pos, vals[k])]
                elif k == re_.E:
                    cands += [(pos, vals[re_.A]), (pos + 1, [0, 3]), (pos + 2, [0, 15])]
                elif k == re_.S:
                    cands += [(pos, vals[re_.A]), (pos + 1, [0, 3]), (pos + 2, [0, 15]), (pos + 3, [0, 3]), (pos + 4, [0, 15])]
                pos += re_.NLEAF[k]
            base = []
            for k in kinds:
                j = len(base)
                if k == re_.R:
                    base += [(j + 1) % 4, (3 * j + 5) % 16]
                elif k == re_.I8:
                    base += [(37 * j + 129) % 256]
                elif k in (re_.I32, re_.A):
                    base += [0x01020304 * (j + 1) % (2 ** 31)]
                elif k == re_.E:
                    base += [0x01020304 * (j + 1) % (2 ** 31), (j + 1) % 4, (3 * j + 5) % 16]
                else:
                    base += [0x01020304 * (j + 1) % (2 ** 31), (j + 1) % 4, (3 * j + 5) % 16, (j + 2) % 4, (3 * j + 7) % 16]
            for p, vs in cands:
                for v in vs:
                    lv = list(base)
                    lv[p] = v
                    out.append((fname, 1, 0, 0, [(row["name"], lv)], "published-boundary"))
    return out


def ct_nleaves(row):
    import codec_tables as ct
    return [ct.NLEAVES[k] for k in row["kinds"]]


def gen_histories(ctx, impl, n):
    """Histories of ONE Subroutine object: serialize, mutate in place, serialize again
    (a cached header / cached command bytes / a buffer sized per list entry would show here)."""
    rng = ctx.rng
    out = []
    for fname in FLAVS:
        rows = impl.t["flavours"][fname]["rows"]
        for _ in range(n):
            k = rng.randint(1, 6)
            body = [ci.gen_in_range_instr(rng, rng.choice(rows)) for _ in range(k)]
            app = rng.choice([0, 1, 255, 256, 65535, rng.randint(0, 65535)])
            muts = []
            for _ in range(rng.randint(1, 3)):
                kind = rng.choice(["app_setter", "instantiate", "replace", "setop", "append", "debug", "debug"])
                if kind in ("app_setter", "instantiate"):
                    muts.append((kind, rng.choice([0, 1, 65535, rng.randint(0, 65535)])))
                elif kind == "replace":
                    muts.append((kind, rng.randint(0, 5), ci.gen_in_range_instr(rng, rng.choice(rows))))
                elif kind == "setop":
                    muts.append((kind, rng.randint(0, 7), rng.randint(0, 2 ** 30)))
                elif kind == "append":
                    muts.append((kind, ci.gen_in_range_instr(rng, rng.choice(rows))))
                else:
                    muts.append((kind, rng.randint(0, 8), rng.choice(["begin SWAP", "end SWAP", "x"])))
            if any(m[0] == "debug" for m in muts):
                # Subroutine.instantiate() maps a DebugInstruction through from_operands(), which returns
                # None (observed; outside C01/C02: debug pseudo-instructions are not flavour instructions)
                muts = [("app_setter", m[1]) if m[0] == "instantiate" else m for m in muts]
            out.append((fname, 1, 0, app, body, muts))
    return out


def run_histories(ctx, impl, hists, reference=None):
    """Oracle on object histories.  Returns extra (flavour, v0, v1, app, body, tag) cases (the final
    contents) so that they also go through the model correspondence."""
    extra = []
    for (fname, v0, v1, app, body, muts) in hists:
        try:
            r = impl.run_history(fname, v0, v1, app, body, muts)
        except KeyError:
            continue  # a setop on a replaced instruction of another class: not a meaningful history
        ctx.note_case(("history", fname, app, str(body), str(muts)))
        ctx.coverage.setdefault("stream_distribution_histories", {})
        d = ctx.coverage["stream_distribution_histories"]
        for m in muts:
            d[m[0]] = d.get(m[0], 0) + 1
        if r["bytes_obj"] is None:
            ctx.violation("a mutated Subroutine object could not be serialized although its content is in range",
                          dict(flavour=fname, version=[v0, v1], app_id=app, body=body, mutations=muts, err=r["err"]))
            continue
        want_dec = (v0, v1, r["final_app"], [(n, list(lv)) for n, lv in r["final_body"]])
        got_dec = None if r["dec"] is None else (r["dec"][0], r["dec"][1], r["dec"][2], [(n, list(lv)) for n, lv in r["dec"][3]])
        if r["bytes_obj"] != r["bytes_fresh"] or got_dec != want_dec:
            ctx.violation("after in-place changes the bytes of a Subroutine object are not those of its current content "
                          "(serialize -> mutate -> serialize)",
                          dict(flavour=fname, version=[v0, v1], app_id=app, body=body, mutations=muts,
                               final_body=r["final_body"], final_app=r["final_app"], bytes_of_object=r["bytes_obj"],
                               bytes_of_fresh_object=r["bytes_fresh"], decoded=r["dec"]))
        if reference is not None:
            want = reference(fname, v0, v1, r["final_app"], r["final_body"])
            if want is not None and want != r["bytes_obj"]:
                ctx.violation("bytes(Subroutine) differ from the reference encoding (object history)",
                              dict(flavour=fname, version=[v0, v1], app_id=r["final_app"], body=r["final_body"],
                                   mutations=muts, got=r["bytes_obj"], reference=want))
        extra.append((fname, v0, v1, r["final_app"], r["final_body"], "history-final"))
    return extra


def gen_dcases(ctx, impl, n):
    rng = ctx.rng
    out = []
    for fname in FLAVS:
        rows = impl.t["flavours"][fname]["rows"]
        ids = [r["id"] for r in rows]
        for _ in range(n):
            k = rng.choice([0, 1, 2, 3])
            raw = [rng.randint(0, 255) for _ in range(4)]
            for _ in range(k):
                cmd = [rng.choice(ids) if rng.random() < 0.9 else rng.randint(0, 255)] + [rng.randint(0, 255) for _ in range(6)]
                raw += cmd
            if rng.random() < 0.1:
                raw = raw[: rng.randint(0, len(raw))]
            out.append((fname, raw))
    return out


def correspond(ctx, impl, cases, dcases, oracle=True, shard=400):
    """Run the implementation on every case; oracle failures become violations with
    the input as replay.  Then evaluate the model inside Coq on the same cases."""
    per_flav = {f: ([], [], []) for f in FLAVS}  # ecases text, meta, dcases text
    stats = {}
    mismatch_meta = []
    for (fname, v0, v1, app, body, tag) in cases:
        res = impl.run_ecase(fname, v0, v1, app, body)
        stats[tag] = stats.get(tag, 0) + 1
        stats["rejected" if res["bytes"] is None else "encoded"] = stats.get("rejected" if res["bytes"] is None else "encoded", 0) + 1
        ctx.note_case((fname, v0, v1, app, str(body)), nontrivial=len(body) > 0)
        if tag == "published-boundary" and res["bytes"] is None:
            ctx.violation("the implementation refuses an operand value inside the published range "
                          "(4 banks x 16 indices, imm8 0..255, int32 / addresses -2^31..2^31-1)",
                          dict(flavour=fname, version=[v0, v1], app_id=app, body=body, err=res.get("err")), key=None)
        if oracle and res["oracle_ok"] is False:
            ctx.violation("decode(encode(s)) != s on the implementation" + (f" ({res['err']})" if res.get("err") else ""),
                          dict(flavour=fname, version=[v0, v1], app_id=app, body=body, got=res["dec"], err=res["err"]),
                          key=None)
        per_flav[fname][0].append(ci.coq_ecase(v0, v1, app, body, res))
        per_flav[fname][1].append((fname, v0, v1, app, body, tag, res))
    dmeta = {f: [] for f in FLAVS}
    for (fname, raw) in dcases:
        dec = impl.run_dcase(fname, raw)
        ctx.note_case((fname, "raw", tuple(raw)), nontrivial=len(raw) > 4)
        stats["decode-only"] = stats.get("decode-only", 0) + 1
        stats["decode-only-accepted" if dec is not None else "decode-only-rejected"] = \
            stats.get("decode-only-accepted" if dec is not None else "decode-only-rejected", 0) + 1
        per_flav[fname][2].append(ci.coq_dcase(raw, dec))
        dmeta[fname].append((raw, dec))
    files = {}
    for fname in FLAVS:
        ec, meta, dc = per_flav[fname]
        nsh = max(1, (len(ec) + shard - 1) // shard)
        for k in range(nsh):
            fn = f"cases_{fname}_{k}.v"
            e_sl = ec[k * shard:(k + 1) * shard]
            d_sl = dc[k * shard:(k + 1) * shard] if k < nsh - 1 else dc[k * shard:]
            ci.write_case_file(os.path.join(ctx.build, fn), fname, e_sl, d_sl)
            files[fn] = (fname, k)
    results = ctx.run_case_files(list(files))
    n_mis = 0
    for fn, res in results.items():
        fname, k = files[fn]
        if not res.ok:
            ctx.gen_obligation(f"correspondence file {fn} evaluates", False, res.err[-300:])
            continue
        fl = ci.parse_failing(res.out)
        if len(fl) != 2:
            ctx.gen_obligation(f"correspondence file {fn} output parsed", False, res.out[-300:])
            continue
        for i in fl[0]:
            n_mis += 1
            m = per_flav[fname][1][k * shard + i]
            mismatch_meta.append(("encode", m))
        for i in fl[1]:
            n_mis += 1
            mismatch_meta.append(("decode", (fname, dmeta[fname][k * shard + i])))
    ctx.coverage["stream_distribution"] = stats
    ctx.coverage["model_impl_mismatches"] = n_mis
    ctx.trusted.append("correspondence: model evaluated by vm_compute inside coqc on generated case files "
                       "(harness/codec_impl.py builds real instruction objects, runs bytes(Subroutine)/deserialize)")
    return mismatch_meta
