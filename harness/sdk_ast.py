"""sdk_ast — SDK host programs as data (the Python twin of coq/Sdk/SdkAst.v).

  * `Interp` walks an AST and performs the corresponding calls on a REAL connection
    (conn.if_eq / with fut.if_eq(..) / conn.loop / conn.loop_body / arr.foreach /
    arr.enumerate / conn.loop_until / fut.add / q.measure(future=..) / conn.flush ...).
    Nothing of the SDK is re-implemented: the interpreter only holds the handles.
  * `run_program` runs an AST on the in-process pipeline (harness/sdk_pipeline.py)
    and returns the canonical observation: ProtoSubroutine commands per flush
    (what the builder emitted), gate trace, per-flush host-visible handle values,
    controller arrays / M registers, active-register bookkeeping per statement.
  * `Gen` generates well-formed programs (every construct, nesting <= 4).
  * `coq_*` print ASTs / observations as Coq terms (for the vm_compute case files).

AST (JSON lists; names are small naturals chosen by the program):
  ["newq", q]                              q = Qubit(conn)
  ["gate", g, q]                           g in x y z h k s t
  ["rot", ax, q, n, d]                     ax in x y z
  ["cnot", q1, q2] / ["cphase", q1, q2]
  ["measfut", q, inplace, a, ix]           q.measure(future=arr_a.get_future_index(ix))
  ["measnew", q, inplace, a]               f = q.measure()   (allocates array a, length 1)
  ["measreg", q, inplace, r]               rf_r = q.measure(store_array=False)
  ["free", q]
  ["newarr", a, n, init|None]              arr_a = conn.new_array(n, init_values=init)
  ["futadd", a, ix, src, mod|None]         arr_a.get_future_index(ix).add(src, mod)
  ["regadd", r, src, mod|None]             rf_r.add(src, mod)
  ["if", c, cb, x, y|None, body]           c in eq ne lt ge ez nz; cb: conn.if_c(x, y, body) else `with x.if_c(y):`
  ["loop", cb, v, start, stop, step, body, k|None]
                                           cb: conn.loop_body(body,..) (v is a RegFuture) else `with conn.loop(..) as v`;
                                           step may be negative; k: loop_register=R_k given by the program
  ["newreg", r, init]                      rf_r = conn.builder.new_register(init)   (claimed for the rest of the connection)
  ["uadd", r, src, mod|None]               rf_r.add(src, mod) on such a register
  ["foreach", enum, v, a, body]            with arr_a.foreach() as f / arr_a.enumerate() as (v, f); f is ["fut", a, ["v", v]]
  ["until", v, maxit, body, cx, bound, cleanup]
                                           with conn.loop_until(maxit) as loop: body;
                                           loop.set_exit_condition(ValueAtMostConstraint(cx, bound));
                                           loop.set_cleanup_code(cleanup) if cleanup else nothing
  ["flush"]
  ix   = ["c", n] | ["v", v]
         | ["f", b, n]   (futadd / measfut only) the index is itself an array Future:
                         arr_a.get_future_index(arr_b.get_future_index(n))   -> SFutAddX / SMeasFutX
  x, y = ["int", z] | ["fut", a, ix] | ["reg", r] | ["loop", v]
  src  = ["int", z] | ["fut", a, ix] | ["loop", v] | ["reg", r]     (the RegFuture itself is passed to .add)
Array names are the addresses the builder will hand out (k-th allocated array = k);
the interpreter asserts this, the Coq lowering checks it.
"""
import sys

GATES1 = ["x", "y", "z", "h", "k", "s", "t"]
CONDS = ["eq", "ne", "lt", "ge", "ez", "nz"]


class IllFormed(Exception):
    pass


# ------------------------------------------------------------------ interpreter on the real SDK
class Interp:
    def __init__(self, conn, pipe=None, on_stmt=None):
        self.conn = conn
        self.pipe = pipe
        self.q = {}
        self.arr = {}
        self.fut = {}      # (a, i) -> Future handle with a constant index (kept: the host keeps its handles)
        self.reg = {}      # r -> RegFuture
        self.loopv = {}    # v -> ("reg", Register) | ("rf", RegFuture) | ("elem", Future, a)
        self.flushes = []  # per flush: dict(arrays, futs, regs, ctrl_arrays, ctrl_M)
        self.protos = []   # per flush: list of canonical commands (or None if nothing pending)
        self.on_stmt = on_stmt
        self.top_index = -1

    # -- operands
    def index(self, a, ix):
        if ix[0] == "c":
            return ix[1]
        kind = self.loopv[ix[1]]
        if kind[0] == "reg":
            return kind[1]
        if kind[0] == "rf":
            return kind[1]
        raise IllFormed("foreach element used as an index")

    def future(self, a, ix):
        if ix[0] == "f":
            if self.arr.get(a) is None:
                raise IllFormed("nested future index into an array without a handle")
            return self.arr[a].get_future_index(self.future(ix[1], ["c", ix[2]]))
        if ix[0] == "c":
            key = (a, ix[1])
            if key not in self.fut:
                self.fut[key] = self.arr[a].get_future_index(ix[1])
            return self.fut[key]
        kind = self.loopv[ix[1]]
        if kind[0] == "elem":
            if kind[2] != a:
                raise IllFormed("foreach element of another array")
            return kind[1]
        if kind[0] == "both":
            if kind[3] == a:
                return kind[2]
            return self.arr[a].get_future_index(kind[1])
        return self.arr[a].get_future_index(kind[1])

    def cval(self, x):
        if x is None:
            return None
        if x[0] == "int":
            return x[1]
        if x[0] == "fut":
            return self.future(x[1], x[2])
        if x[0] == "reg":
            return self.reg[x[1]]
        if x[0] == "loop":
            kind = self.loopv[x[1]]
            if kind[0] != "rf":
                raise IllFormed("loop register of a `with conn.loop` used as a condition operand")
            return kind[1]
        raise IllFormed(x)

    def src(self, s):
        if s[0] == "int":
            return s[1]
        if s[0] == "fut":
            return self.future(s[1], s[2])
        if s[0] == "reg":
            return self.reg[s[1]]
        if s[0] == "loop":
            kind = self.loopv[s[1]]
            if kind[0] == "rf":
                return kind[1]          # the RegFuture handle, as an application passes it
            if kind[0] in ("reg", "both"):
                return kind[1]
        raise IllFormed(s)

    def note_address(self, name, address):
        """the SDK's address of the array the program calls `name` (observed, not assumed); two
        live arrays at one address are recorded: the oracle reports them"""
        if not hasattr(self, "addr"):
            self.addr, self.shared_addresses = {}, []
        address = int(address)
        for other, ad in self.addr.items():
            if ad == address and other != name:
                self.shared_addresses.append([other, name, address])
        self.addr[name] = address

    def by_name(self, x):
        """canonical commands with the program's array names in place of the SDK's addresses
        (only while the addresses are distinct: otherwise the commands are left as emitted)"""
        addr = getattr(self, "addr", {})
        inv = {ad: a for a, ad in addr.items()}
        if len(inv) != len(addr):
            return x

        def go(y):
            if isinstance(y, list):
                if y and y[0] in ("addr", "entry", "slice") and len(y) >= 2 and isinstance(y[1], int):
                    return [y[0], inv.get(y[1], y[1])] + [go(z) for z in y[2:]]
                return [go(z) for z in y]
            return y
        return go(x)

    def ctrl_by_name(self, ctrl):
        """controller arrays keyed by the program's array names"""
        addr = getattr(self, "addr", {})
        return {a: ctrl[ad] for a, ad in sorted(addr.items()) if ad in ctrl}

    # -- statements
    def block(self, stmts):
        for s in stmts:
            self.stmt(s)

    def run(self, prog):
        for i, s in enumerate(prog):
            self.top_index = i
            self.stmt(s)
            if self.on_stmt:
                self.on_stmt(i, s)

    def stmt(self, s):
        from netqasm.sdk.constraint import ValueAtMostConstraint
        from netqasm.sdk.qubit import Qubit

        conn = self.conn
        k = s[0]
        if k == "newq":
            self.q[s[1]] = Qubit(conn)
        elif k == "gate":
            getattr(self.q[s[2]], s[1].upper())()
        elif k == "rot":
            getattr(self.q[s[2]], "rot_" + s[1].upper())(n=s[3], d=s[4])
        elif k == "cnot":
            self.q[s[1]].cnot(self.q[s[2]])
        elif k == "cphase":
            self.q[s[1]].cphase(self.q[s[2]])
        elif k == "measfut":
            self.q[s[1]].measure(future=self.future(s[3], s[4]), inplace=bool(s[2]))
        elif k == "measnew":
            f = self.q[s[1]].measure(inplace=bool(s[2]))
            # the harness's name for the array is s[3]; the address is whatever the SDK handle reports
            a = s[3]
            self.note_address(a, f._address)
            self.fut[(a, 0)] = f
            # the Array object of q.measure() is not handed to the host; read it through the future
            self.arr[a] = None
        elif k == "measreg":
            self.reg[s[3]] = self.q[s[1]].measure(store_array=False, inplace=bool(s[2]))
        elif k == "free":
            self.q[s[1]].free()
        elif k == "newarr":
            arr = conn.new_array(s[2], init_values=None if s[3] is None else list(s[3]))
            self.note_address(s[1], arr.address)
            self.arr[s[1]] = arr
        elif k == "futadd":
            self.future(s[1], s[2]).add(self.src(s[3]), mod=s[4])
        elif k == "regadd":
            self.reg[s[1]].add(self.src(s[2]), mod=s[3])
        elif k == "if":
            _, c, cb, x, y, body = s
            xv, yv = self.cval(x), self.cval(y)
            if cb:
                fn = getattr(conn, "if_" + c)
                if c in ("ez", "nz"):
                    fn(xv, lambda _c: self.block(body))
                else:
                    fn(xv, yv, lambda _c: self.block(body))
            else:
                if isinstance(xv, int) and not hasattr(xv, "if_eq"):
                    raise IllFormed("context-style if needs a future as first operand")
                ctx = getattr(xv, "if_" + c)() if c in ("ez", "nz") else getattr(xv, "if_" + c)(yv)
                with ctx:
                    self.block(body)
        elif k == "newreg":
            self.reg[s[1]] = conn.builder.new_register(s[2])
        elif k == "uadd":
            self.reg[s[1]].add(self.src(s[2]), mod=s[3])
        elif k == "loop":
            _, cb, v, start, stop, step, body = s[:7]
            lreg = s[7] if len(s) > 7 else None
            if cb:
                def fn(_c, rf):
                    self.loopv[v] = ("rf", rf)
                    self.block(body)
                    del self.loopv[v]
                conn.loop_body(fn, stop=stop, start=start, step=step,
                               loop_register=None if lreg is None else f"R{lreg}")
            else:
                from netqasm.lang.encoding import RegisterName
                from netqasm.lang.operand import Register

                with conn.loop(stop, start=start, step=step,
                               loop_register=None if lreg is None else Register(RegisterName.R, lreg)) as i:
                    self.loopv[v] = ("reg", i)
                    self.block(body)
                    del self.loopv[v]
        elif k == "foreach":
            _, enum, v, a, body = s
            if enum:
                with self.arr[a].enumerate() as (i, f):
                    self.loopv[v] = ("both", i, f, a)
                    self.block(body)
                    del self.loopv[v]
            else:
                with self.arr[a].foreach() as f:
                    self.loopv[v] = ("elem", f, a)
                    self.block(body)
                    del self.loopv[v]
        elif k == "until":
            _, v, maxit, body, cx, bound, cleanup = s
            with conn.loop_until(maxit) as loop:
                self.loopv[v] = ("rf", loop.loop_register)
                self.block(body)
                loop.set_exit_condition(ValueAtMostConstraint(self.cval(cx), bound))
                if cleanup:
                    loop.set_cleanup_code(lambda _c: self.block(cleanup))
            # the cleanup callback runs inside the context exit, where v is still bound
            del self.loopv[v]
        elif k == "flush":
            self.flush()
        elif k == "epr":
            self.epr_op(s[1], s[2])
        else:
            raise IllFormed(s)

    def epr_op(self, kind, body):
        """EPR operations (C14: only compilation matters).  self.sock is an EPRSocket
        opened on this connection."""
        sock = self.sock
        if kind == "keep_create":
            sock.create_keep(number=2)
        elif kind == "keep_recv_nocorr":
            sock.recv_keep(number=2, expect_phi_plus=False)
        elif kind == "measure_create":
            sock.create_measure(number=2)
        elif kind == "measure_recv":
            sock.recv_measure(number=2)
        elif kind == "recv_corr":
            sock.recv_keep(number=2, expect_phi_plus=True)
        elif kind in ("post_create", "post_recv_nocorr", "post_recv_corr"):
            def routine(_c, q, pair):
                self.block(body)
                self.retire(q)
            if kind == "post_create":
                sock.create_keep(number=2, post_routine=routine, sequential=True)
            else:
                sock.recv_keep(number=2, post_routine=routine, sequential=True,
                               expect_phi_plus=(kind == "post_recv_corr"))
        elif kind == "ctx_create":
            with sock.create_context(number=2) as (q, pair):
                self.block(body)
                self.retire(q)
        elif kind == "ctx_recv":
            with sock.recv_context(number=2) as (q, pair):
                self.block(body)
                self.retire(q)
        else:
            raise IllFormed(kind)

    @staticmethod
    def retire(q):
        """the pair's qubit is consumed by the routine: free it; a tree where Qubit.free()
        does not retire the handle (C09) needs the host-side flag cleared by hand, otherwise
        no further qubit can be created while a FutureQubit is active"""
        q.free()
        if q.active:
            q.active = False

    def compile_only(self, assemble=True):
        """what flush does, minus sending (C14 direct run).  assemble=False stops after the
        builder (the assembler needs up to two scratch registers of its own, C03)"""
        b = self.conn._builder
        proto = b.subrt_pop_pending_subroutine()
        if proto is not None:
            if assemble:
                try:
                    b.subrt_compile_subroutine(proto)
                except RuntimeError:
                    # raised by the assembler (scratch registers for immediates: depends on the
                    # registers named in this one block, C03), not by the builder's register pool
                    self.asm_failures = getattr(self, "asm_failures", 0) + 1
            b._reset()

    def flush(self):
        conn = self.conn
        # same steps as BaseNetQASMConnection.flush, keeping the ProtoSubroutine for the structural tie
        proto = conn._builder.subrt_pop_pending_subroutine()
        if proto is None:
            self.protos.append(None)
        else:
            self.protos.append(self.by_name([canon_cmd(c) for c in proto.commands]))
            conn.commit_protosubroutine(protosubroutine=proto)
        self.flushes.append(self.snapshot())

    def snapshot(self):
        snap = dict(arrays={}, futs={}, regs={})
        for a, arr in self.arr.items():
            if arr is not None:
                snap["arrays"][a] = _plain(arr[:])
        for (a, i), f in self.fut.items():
            snap["futs"][f"{a},{i}"] = _val(f)
        if not getattr(self, "late_reads", False):
            # late_reads: an application that looks at its register outcomes only at the end
            # (every read resolves the handle, so the reading schedule is part of the program)
            for r, rf in self.reg.items():
                snap["regs"][r] = _val(rf)
        if self.pipe is not None:
            snap["ctrl_arrays"] = self.ctrl_by_name({a: _plain(v) for a, v in self.pipe.arrays().items()})
            snap["ctrl_M"] = ctrl_m_registers(self.pipe)
            snap["ctrl_R"] = ctrl_m_registers(self.pipe, bank="R")
            snap["reg_names"] = {r: str(rf.reg) for r, rf in self.reg.items()}
        return snap


def ctrl_m_registers(pipe, app_id=0, bank="M"):
    """values of M0..M15 (or R0..R15) on the controller (None = never written)"""
    from netqasm.lang.encoding import RegisterName

    grp = pipe.executor._registers[app_id][getattr(RegisterName, bank)]
    return [None if grp._register.get(i) is None else int(grp._register.get(i)) for i in range(16)]


def _plain(lst):
    return [None if x is None else int(x) for x in lst]


def _val(f):
    try:
        v = f.value
    except Exception as e:  # noqa
        return "exc:" + type(e).__name__
    return None if v is None else int(v)


# ------------------------------------------------------------------ canonical commands
def canon_operand(o):
    from netqasm.lang.operand import Address, ArrayEntry, ArraySlice, Label, Register

    if isinstance(o, Register):
        return ["reg", o.name.name, o.index]
    if isinstance(o, Label):
        return ["label", o.name]
    if isinstance(o, ArrayEntry):
        return ["entry", canon_addr(o.address), canon_operand(o.index)]
    if isinstance(o, ArraySlice):
        return ["slice", canon_addr(o.address), canon_operand(o.start), canon_operand(o.stop)]
    if isinstance(o, Address):
        return ["addr", canon_addr(o)]
    if isinstance(o, int):
        return ["int", int(o)]
    raise IllFormed(f"operand {o!r} of type {type(o)}")


def canon_addr(a):
    from netqasm.lang.operand import Address

    if isinstance(a, Address):
        a = a.address
    return int(a)


def canon_cmd(c):
    from netqasm.lang.ir import BranchLabel, ICmd

    if isinstance(c, BranchLabel):
        return ["label", c.name]
    assert isinstance(c, ICmd)
    return ["instr", c.instruction.name.lower(), [canon_operand(o) for o in c.operands]]


# ------------------------------------------------------------------ running a program on the real pipeline
def canon_trace(trace):
    """rename virtual qubit ids by allocation order: each `init` event creates instance k"""
    cur, n, out = {}, 0, []
    for (mn, ids, imm) in trace:
        if mn == "init":
            cur[ids[0]] = n
            n += 1
        out.append([mn, [cur.get(i, -1 - i) for i in ids], [int(x) for x in imm]])
    return out


def active_regs(conn):
    return sorted(r.index for r in conn._builder._mem_mgr._active_registers)


class HangError(Exception):
    pass


def run_program(repo, prog, script, max_qubits=5, record_active=False, timeout_s=10, late_reads=False):
    """Run on a fresh in-process pipeline.  Returns the observation dict:
       status 'ok' | 'error'; error -> (top-level statement index, exception class)."""
    from sdk_pipeline import Pipeline

    pipe = Pipeline(repo, max_qubits=max_qubits)
    pipe.meas_script = list(script)
    conn = pipe.connection()
    actives = []

    def on_stmt(i, s):
        actives.append(active_regs(conn))

    it = Interp(conn, pipe, on_stmt=on_stmt if record_active else None)
    it.late_reads = late_reads
    obs = dict(status="ok", late_reads=late_reads)
    import signal

    def on_alarm(signum, frame):
        raise HangError(f"no result after {timeout_s}s (the controller does not terminate)")

    old = signal.signal(signal.SIGALRM, on_alarm)
    signal.setitimer(signal.ITIMER_REAL, timeout_s)
    try:
        it.run(prog)
        if not prog or prog[-1][0] != "flush":
            it.flush()
    except IllFormed:
        raise
    except Exception as e:  # noqa  (any failure of the SDK or the controller)
        obs = dict(status="error", at=it.top_index, exc=type(e).__name__, msg=str(e)[:200])
    finally:
        signal.setitimer(signal.ITIMER_REAL, 0)
        signal.signal(signal.SIGALRM, old)
    obs["protos"] = it.protos
    if late_reads and it.flushes and obs["status"] == "ok":
        # register outcomes of ALL blocks are read now, after the last flush
        it.flushes[-1]["regs"] = {r: _val(rf) for r, rf in it.reg.items()}
    obs["flushes"] = it.flushes
    obs["shared_addresses"] = getattr(it, "shared_addresses", [])
    obs["trace"] = canon_trace(pipe.gate_trace())
    obs["script_left"] = len(pipe.meas_script)
    obs["actives"] = actives
    obs["final_active"] = active_regs(conn)
    try:
        obs["final_arrays"] = it.ctrl_by_name({a: _plain(v) for a, v in pipe.arrays().items()})
    except Exception:  # noqa
        obs["final_arrays"] = None
    # no conn.close(): it would flush (and execute) whatever a failed run left pending; the next
    # Pipeline resets the shared memories and application ids
    return obs


# ------------------------------------------------------------------ generator
class Gen:
    """Well-formed programs.  Tracks statically what the host program may touch:
       live qubits per nesting level, arrays (length, set of definitely defined
       entries), register futures of the current flush block, loop variables with
       their value ranges."""

    def __init__(self, rng, max_depth=4, max_qubits=5, size=8, flush_p=0.2, features=None):
        self.rng = rng
        self.max_depth = max_depth
        self.max_qubits = max_qubits
        self.size = size
        self.flush_p = flush_p
        self.features = features  # None = all constructs
        self.allow_skipped_measreg = False
        self.epr = False            # EPR operations (C14 only: their commands are not modelled)
        self.reset()

    def reset(self):
        self.nq = 0
        self.live = []          # qubit names currently allocated (any level)
        self.qlevel = {}        # qubit -> nesting level it was created at
        self.arrays = {}        # a -> dict(len, defined=set)
        self.narr = 0
        self.regs = []          # register futures valid in the current block
        self.nreg = 0
        self.nreg_block = 0
        self.nvar = 0
        self.vars = []          # stack of dict(v, kind: 'reg'|'rf'|'elem'|'both', lo, hi, arr)
        self.kinds = {}
        self.in_epr = 0
        self.held = []          # R registers held by the enclosing operations and by new_register
        self.uregs = []         # new_register futures (readable in every later block)
        self.uregs_block = []   # ... created in the current flush block (may be added to)
        self.explicit_p = 0.2   # probability of loop_register=R_k
        self.explicit_span = 4  # ... chosen among the first so many free registers
        self.nested_p = 0.5     # share of fut.add on an entry addressed through another array entry
        self.meas_count = 0     # upper bound on dynamic number of measurements (script length)
        self.mult = 1           # product of enclosing iteration counts

    def want(self, k):
        return self.features is None or k in self.features

    # -- helpers
    def small(self):
        return self.rng.choice([0, 0, 1, 1, 2, 3, 5])

    def defined_consts(self):
        return [(a, i) for a, d in self.arrays.items() for i in sorted(d["defined"])]

    def full_arrays(self, n):
        """arrays whose entries 0..n-1 are all defined"""
        return [a for a, d in self.arrays.items() if d.get("handle", True) and d["len"] >= n
                and all(i in d["defined"] for i in range(n))]

    def index_vars(self):
        return [v for v in self.vars if v["kind"] in ("reg", "rf", "both")]

    def pick_future(self, must_defined=True):
        """-> (a, ix) or None"""
        cands = []
        for (a, i) in self.defined_consts():
            cands.append((a, ["c", i]))
        if not must_defined:
            for a, d in self.arrays.items():
                if d.get("handle", True):
                    for i in range(d["len"]):
                        cands.append((a, ["c", i]))
        for v in self.vars:
            if v["kind"] in ("elem", "both"):
                cands.append((v["arr"], ["v", v["v"]]))
                cands.append((v["arr"], ["v", v["v"]]))
        for v in self.index_vars():
            for a in (self.full_arrays(v["hi"] + 1) if must_defined else
                      [a for a, d in self.arrays.items() if d.get("handle", True) and d["len"] >= v["hi"] + 1]):
                cands.append((a, ["v", v["v"]]))
        return self.rng.choice(cands) if cands else None

    def pick_cval(self, allow_int=True, allow_loopreg=True):
        r = self.rng.random()
        rfs = [v for v in self.vars if v["kind"] == "rf"]
        if r < 0.5:
            f = self.pick_future()
            if f:
                return ["fut", f[0], f[1]]
        if r < 0.7 and (self.regs or self.uregs):
            return ["reg", self.rng.choice(self.regs + self.uregs)]
        if r < 0.85 and rfs and allow_loopreg:
            return ["loop", self.rng.choice(rfs)["v"]]
        if allow_int:
            return ["int", self.small()]
        f = self.pick_future()
        if f:
            return ["fut", f[0], f[1]]
        if self.regs:
            return ["reg", self.rng.choice(self.regs)]
        if rfs and allow_loopreg:
            return ["loop", self.rng.choice(rfs)["v"]]
        return None

    def pick_src(self):
        r = self.rng.random()
        if r < 0.35:
            f = self.pick_future()
            if f:
                return ["fut", f[0], f[1]]
        ivs = self.index_vars()
        if r < 0.55 and ivs:
            return ["loop", self.rng.choice(ivs)["v"]]
        if r < 0.75 and (self.regs or self.uregs):
            return ["reg", self.rng.choice(self.regs + self.uregs)]
        return ["int", self.small()]

    def pick_nested(self, must_defined):
        """-> (a, ["f", b, n]): entry of array a addressed through the (statically known, never
        written) entry n of array b"""
        cands = []
        for b, d in self.arrays.items():
            for n, z in enumerate(d.get("frozen") or []):
                for a, e in self.arrays.items():
                    if e.get("handle", True) and not e.get("frozen") and z < e["len"] and (not must_defined or z in e["defined"]):
                        cands.append((a, ["f", b, n], z))
        return self.rng.choice(cands) if cands else None

    def usable_qubits(self):
        return list(self.live)

    # -- statement generation
    def gen_block(self, depth, n):
        out = []
        level_qubits = []
        for _ in range(n):
            s = self.gen_stmt(depth, level_qubits)
            if s is not None:
                out.append(s)
        # qubits created at this level inside a body must not outlive the body
        if depth > 0:
            for q in level_qubits:
                if q in self.live:
                    out.append(self.consume(q, depth))
        return out

    def consume(self, q, depth):
        self.live.remove(q)
        r = self.rng.random()
        if r < 0.3:
            return ["free", q]
        return self.gen_meas(q, False, depth)

    def note_meas(self):
        self.meas_count += self.mult

    def gen_meas(self, q, inplace, depth):
        self.note_meas()
        r = self.rng.random()
        if r < 0.12 and self.nested_p:
            f = self.pick_nested(False)
            if f:
                a, ix, z = f
                if self.at_block_level(depth):
                    self.arrays[a]["defined"].add(z)
                return ["measfut", q, int(inplace), a, ix]
        if r < 0.4:
            f = self.pick_future(must_defined=False)
            if f and not self.arrays[f[0]].get("frozen"):
                a, ix = f
                if ix[0] == "c" and self.at_block_level(depth):
                    self.arrays[a]["defined"].add(ix[1])
                return ["measfut", q, int(inplace), a, ix]
        if r < 0.7 and self.nreg_block < 12 and self.want("measreg") and (self.cond_depth == 0 or self.allow_skipped_measreg):
            r_ = self.nreg
            self.nreg += 1
            self.nreg_block += 1
            # usable as an operand only where it is certainly assigned: same straight-line level
            if self.at_block_level(depth):
                self.regs.append(r_)
            else:
                self.pending_regs.append(r_)
            return ["measreg", q, int(inplace), r_]
        a = self.narr
        self.narr += 1
        self.arrays[a] = dict(len=1, defined=set(), handle=False)
        if self.at_block_level(depth):
            self.arrays[a]["defined"].add(0)
        return ["measnew", q, int(inplace), a]

    def first_free(self):
        k = 0
        while k in self.held:
            k += 1
        return k

    def at_block_level(self, depth):
        """True when a definition made here certainly reaches every later use we generate
        (later uses are generated either at this level or deeper inside it)."""
        return self.cond_depth == 0

    def gen_stmt(self, depth, level_qubits):
        snap = (list(self.held), list(self.uregs), list(self.uregs_block), list(self.regs), list(self.live),
                self.nreg_block)
        arrs = {a: dict(d, defined=set(d["defined"])) for a, d in self.arrays.items()}
        s = self.gen_stmt_(depth, level_qubits)
        if s is None:
            # the statement was dropped: forget every handle it introduced
            self.held, self.uregs, self.uregs_block, self.regs, self.live, self.nreg_block = snap
            self.arrays = arrs
        return s

    def gen_stmt_(self, depth, level_qubits):
        rng = self.rng
        live = self.usable_qubits()
        choices = []
        if len(self.live) < self.max_qubits and self.in_epr == 0:
            choices += ["newq"] * 3
        if live:
            choices += ["gate"] * 3 + ["rot", "meas_inplace"]
            if len(live) >= 2:
                choices += ["two"]
            mine = [q for q in live if self.qlevel[q] == depth and q in level_qubits or depth == 0]
            if mine:
                choices += ["meas"] * 2 + ["free"]
        if depth == 0 or True:
            if depth == 0 and self.want("newarr"):
                choices += ["newarr"] * 2
        if self.want("futadd") and (self.defined_consts() or self.vars):
            choices += ["futadd"] * 2
        if self.want("regadd") and self.regs:
            choices += ["regadd"]
        if self.want("newreg") and self.cond_depth == 0 and len(self.uregs) < 3 and self.in_epr == 0:
            choices += ["newreg"]
        if self.want("newreg") and self.uregs_block:
            choices += ["uadd"]
        if depth < self.max_depth:
            if self.want("if"):
                choices += ["if"] * 3
            if self.want("loop"):
                choices += ["loop"] * 2
            if self.want("foreach") and self.arrays:
                choices += ["foreach"]
            if self.want("until"):
                choices += ["until"]
            if self.epr and self.in_epr == 0:   # no EPR request while a pair's FutureQubit is active
                choices += ["epr"] * 2
        if not choices:
            return None
        k = rng.choice(choices)
        if k == "newq":
            q = self.nq
            self.nq += 1
            self.live.append(q)
            self.qlevel[q] = depth
            level_qubits.append(q)
            return ["newq", q]
        if k == "gate":
            return ["gate", rng.choice(GATES1), rng.choice(live)]
        if k == "rot":
            return ["rot", rng.choice("xyz"), rng.choice(live), rng.randint(0, 31), rng.randint(0, 5)]
        if k == "two":
            a, b = rng.sample(live, 2)
            return [rng.choice(["cnot", "cphase"]), a, b]
        if k == "meas_inplace":
            return self.gen_meas(rng.choice(live), True, depth)
        if k in ("meas", "free"):
            mine = [q for q in live if (self.qlevel[q] == depth and q in level_qubits) or depth == 0]
            q = rng.choice(mine)
            self.live.remove(q)
            if k == "free":
                return ["free", q]
            return self.gen_meas(q, False, depth)
        if k == "newarr":
            a = self.narr
            self.narr += 1
            n = rng.choice([1, 2, 3, 4, 6])
            m = rng.random()
            if m < 0.2:
                init = None
            elif m < 0.5:
                init = [rng.choice([0, 1, 2, 7])] * n      # the all-equal loop optimisation (n > 1)
            elif m < 0.85:
                init = [self.small() for _ in range(n)]
            else:
                init = [self.small() if rng.random() < 0.7 else None for _ in range(n)]
            self.arrays[a] = dict(len=n, defined=set(i for i in range(n) if init is not None and init[i] is not None))
            if init is not None and None not in init and self.want("futadd") and rng.random() < 0.35:
                # an array of indices: never written by the program, so its entries are known statically
                self.arrays[a]["frozen"] = list(init)
            return ["newarr", a, n, init]
        if k == "futadd":
            mod = rng.choice([None, None, 2, 3, 5])
            if self.nested_p and rng.random() < self.nested_p:
                f = self.pick_nested(True)
                if f:
                    return ["futadd", f[0], f[1], self.pick_src(), mod]
            f = self.pick_future()
            if not f or self.arrays[f[0]].get("frozen"):
                return None
            return ["futadd", f[0], f[1], self.pick_src(), mod]
        if k == "regadd":
            return ["regadd", rng.choice(self.regs), self.pick_src(), rng.choice([None, 2, 4])]
        if k == "if":
            c = rng.choice(CONDS)
            cb = rng.random() < 0.5
            x = self.pick_cval(allow_int=cb and rng.random() < 0.3)
            if x is None or (not cb and x[0] == "int"):
                return None
            y = None if c in ("ez", "nz") else self.pick_cval()
            if c not in ("ez", "nz") and y is None:
                return None
            self.cond_depth += 1
            body = self.gen_block(depth + 1, rng.randint(1, 3))
            self.cond_depth -= 1
            return ["if", c, int(cb), x, y, body]
        if k == "newreg":
            r_ = self.nreg
            self.nreg += 1
            self.uregs.append(r_)
            self.uregs_block.append(r_)
            self.held.append(self.first_free())
            return ["newreg", r_, self.small()]
        if k == "uadd":
            return ["uadd", rng.choice(self.uregs_block), self.pick_src(), rng.choice([None, None, 3])]
        if k == "loop":
            cb = rng.random() < 0.5
            step = rng.choice([1, 1, 1, 2, 3, -1, -1, -2])
            cnt = rng.choice([0, 1, 2, 2, 3, 4])
            if self.mult * max(cnt, 1) > 40:
                cnt = 1
            if step > 0:
                start = rng.choice([0, 0, 1, 2])
                stop = start + step * cnt
                lo, hi = start, max(start, stop - step)
            else:
                stop = rng.choice([0, 0, 1, -1]) if cnt > 0 else rng.choice([0, 2])
                start = stop - step * cnt
                lo, hi = (stop - step, start) if cnt > 0 else (start, start)
                if lo < 0:
                    stop, start, lo, hi = stop + 1, start + 1, lo + 1, hi + 1
            v = self.nvar
            self.nvar += 1
            lreg = None
            if rng.random() < self.explicit_p:
                free = [k_ for k_ in range(8) if k_ not in self.held]
                if free:
                    lreg = rng.choice(free[:self.explicit_span])
            reg = self.first_free() if lreg is None else lreg
            self.held.append(reg)
            self.vars.append(dict(v=v, kind="rf" if cb else "reg", lo=lo, hi=hi, arr=None))
            body = self.in_loop(depth, cnt, rng.randint(1, 3))
            self.vars.pop()
            self.held.remove(reg)
            return ["loop", int(cb), v, start, stop, step, body, lreg]
        if k == "foreach":
            a = rng.choice(list(self.arrays))
            d = self.arrays[a]
            if (not d.get("handle", True) or not all(i in d["defined"] for i in range(d["len"]))
                    or self.mult * d["len"] > 40):
                return None
            enum = rng.random() < 0.5
            v = self.nvar
            self.nvar += 1
            self.vars.append(dict(v=v, kind="both" if enum else "elem", lo=0, hi=d["len"] - 1, arr=a))
            reg = self.first_free()
            self.held.append(reg)
            body = self.in_loop(depth, d["len"], rng.randint(1, 3))
            self.held.remove(reg)
            self.vars.pop()
            return ["foreach", int(enum), v, a, body]
        if k == "epr":
            kind = rng.choice(list(EPR_COQ))
            if kind.startswith("post") or kind.startswith("ctx"):
                self.cond_depth += 1
                self.in_epr += 1      # no Qubit() while the pair's FutureQubit is active (SDK limitation)
                mine = []
                for _ in range(3 if kind.startswith("post") else 1):
                    mine.append(self.first_free())
                    self.held.append(mine[-1])
                body = self.in_loop(depth, 2, rng.randint(0, 2))
                for x in mine:
                    self.held.remove(x)
                self.in_epr -= 1
                self.cond_depth -= 1
            else:
                body = []
            return ["epr", kind, body]
        if k == "until":
            maxit = rng.choice([1, 2, 3, 4])
            if self.mult * maxit > 40:
                maxit = 1
            v = self.nvar
            self.nvar += 1
            self.vars.append(dict(v=v, kind="rf", lo=0, hi=maxit - 1, arr=None))
            save = self.mult
            self.mult *= maxit
            # the body runs at least once, completely; the cleanup may not run at all
            self.until_operand = None
            reg = self.first_free()
            self.held.append(reg)
            body = self.gen_until_body(depth + 1)
            cx = self.until_operand
            if cx is None:
                body = []
            self.cond_depth += 1
            cleanup = self.gen_block(depth + 1, rng.randint(0, 2)) if (rng.random() < 0.4 and body) else []
            self.cond_depth -= 1
            self.held.remove(reg)
            self.mult = save
            self.vars.pop()
            if not body:
                return None
            bound = rng.choice([0, 0, 0, 1, 1, 2])
            return ["until", v, maxit, body, cx, bound, cleanup]
        return None

    def in_loop(self, depth, cnt, n):
        save = self.mult
        self.mult *= max(cnt, 1)
        if cnt == 0:
            self.cond_depth += 1
        body = self.gen_block(depth + 1, n)
        if cnt == 0:
            self.cond_depth -= 1
        self.mult = save
        return body

    def gen_until_body(self, depth):
        """body of a loop_until: some statements, then a value the exit condition looks at
        (a measurement outcome, the documented use, or an existing defined future)"""
        rng = self.rng
        body = self.gen_block(depth, rng.randint(0, 2))
        r = rng.random()
        if r < 0.7 and len(self.live) < self.max_qubits and self.in_epr == 0:
            q = self.nq
            self.nq += 1
            self.qlevel[q] = depth
            body.append(["newq", q])
            if rng.random() < 0.5:
                body.append(["gate", rng.choice(GATES1), q])
            self.note_meas()
            m = rng.random()
            if m < 0.4 and self.nreg_block < 12 and self.want("measreg") and (self.cond_depth == 0 or self.allow_skipped_measreg):
                r_ = self.nreg
                self.nreg += 1
                self.nreg_block += 1
                body.append(["measreg", q, 0, r_])
                self.until_operand = ["reg", r_]
            else:
                a = self.narr
                self.narr += 1
                self.arrays[a] = dict(len=1, defined=set(), handle=False)
                body.append(["measnew", q, 0, a])
                self.until_operand = ["fut", a, ["c", 0]]
            return body
        x = self.pick_cval(allow_int=False)
        if x is None:
            return []
        emitting = ("newq", "gate", "rot", "cnot", "cphase", "measfut", "measnew", "measreg", "free", "futadd", "regadd")
        if not any(s[0] in emitting for s in body):
            # a loop_until whose body emits no command is dropped by the builder together with its
            # cleanup (documented assumption `emits` of the composed theorem): always emit something
            f = self.pick_future()
            if f is None or self.arrays[f[0]].get("frozen"):
                return []
            body.append(["futadd", f[0], f[1], ["int", 0], None])
        self.until_operand = x
        return body

    def program(self):
        self.reset()
        self.cond_depth = 0
        self.pending_regs = []
        rng = self.rng
        prog = []
        n = rng.randint(2, self.size)
        top_qubits = []
        if self.nested_p and self.want("newarr") and self.want("futadd") and rng.random() < 0.3:
            # a data array and an array of indices into it (entries addressed through another entry)
            ln = rng.choice([2, 3, 4])
            prog.append(["newarr", 0, ln, [self.small() for _ in range(ln)]])
            self.arrays[0] = dict(len=ln, defined=set(range(ln)))
            m = rng.choice([1, 2, 3])
            idx = [rng.randrange(ln) for _ in range(m)]
            prog.append(["newarr", 1, m, idx])
            self.arrays[1] = dict(len=m, defined=set(range(m)), frozen=idx)
            self.narr = 2
        for _ in range(n):
            s = self.gen_stmt(0, top_qubits)
            if s is not None:
                prog.append(s)
            if rng.random() < self.flush_p:
                prog.append(["flush"])
                self.regs = []
                self.uregs_block = []
                self.nreg_block = 0
        for q in list(self.live):
            if rng.random() < 0.7:
                prog.append(self.consume(q, 0))
        prog.append(["flush"])
        script = [rng.randint(0, 1) for _ in range(self.meas_count)]
        return renumber_arrays(prog), script


def gen_sequence(rng, n_ops, flush_every, epr=True, max_depth=4):
    """C14: one long run of completed operations of every kind on one connection,
    a flush after every `flush_every`-th (0 = only at the end)"""
    g = Gen(rng, max_depth=max_depth, max_qubits=4)
    g.epr = epr
    g.allow_skipped_measreg = True     # only compilation matters here
    g.reset()
    g.explicit_span = 2                # keep the registers named in one block few (assembler scratch, C03)
    g.cond_depth = 0
    g.pending_regs = []
    prog, top = [], []
    while len(prog) < n_ops:
        s = g.gen_stmt(0, top)
        if s is None:
            continue
        prog.append(s)
        if flush_every and len(prog) % flush_every == 0:
            prog.append(["flush"])
            g.regs = []
            g.uregs_block = []
            g.nreg_block = 0
        elif g.nreg_block >= 11:
            prog.append(["flush"])
            g.regs = []
            g.uregs_block = []
            g.nreg_block = 0
    prog.append(["flush"])
    return renumber_arrays(prog)


def gen_loop_carried(rng):
    """register outcomes carried across iterations of an open loop: an outer foreach/enumerate over a
    0/1 selector array (first entry 1, so that the register measurement is reached); its body has array
    measurements (directly or in an inner loop that closes) and, under `if selector == 1`, a measurement
    kept in a register; the register is used after the loop.  A register handed out while an enclosing
    loop is still open must survive the later iterations' scratch use.  -> (prog, script)"""
    n_sel = rng.randint(2, 4)
    sel = [1] + [rng.randint(0, 1) for _ in range(n_sel - 1)]
    if all(sel):
        sel[-1] = 0
    n_in = rng.randint(1, 3)
    prog = [["newarr", 0, n_in, None], ["newarr", 1, n_sel, sel], ["newarr", 2, 2, [0, 0]]]
    inner_meas = [["newq", 0], ["measfut", 0, 0, 0, ["v", 1]]]
    shape = rng.choice(["inner-loop", "inner-loop", "direct", "both"])
    body = []
    if shape in ("inner-loop", "both"):
        body.append(["loop", 0, 1, 0, n_in, 1, inner_meas, None])
    if shape in ("direct", "both"):
        body += [["newq", 1], ["measfut", 1, 0, 0, ["c", rng.randrange(n_in)]]]
    kept = [["newq", 2]]
    if rng.random() < 0.5:
        kept.append(["gate", rng.choice(GATES1), 2])
    kept.append(["measreg", 2, 0, 0])
    cond = ["if", "eq", 0, ["fut", 1, ["v", 0]], ["int", 1], kept]
    if rng.random() < 0.5:
        body.append(cond)
    else:
        body.insert(0, cond)
    prog.append(["foreach", rng.randint(0, 1), 0, 1, body])
    prog.append(["futadd", 2, ["c", 0], ["reg", 0], None])
    if rng.random() < 0.5:
        prog.append(["if", "eq", rng.randint(0, 1), ["reg", 0], ["int", 1], [["futadd", 2, ["c", 1], ["int", 3], None]]])
    prog.append(["flush"])
    per_iter = (n_in if shape in ("inner-loop", "both") else 0) + (1 if shape in ("direct", "both") else 0)
    n_meas = sum(per_iter + (1 if v == 1 else 0) for v in sel)
    return prog, [rng.randint(0, 1) for _ in range(n_meas)]


def gen_handover(rng):
    """register outcomes handed from one subroutine to later ones: measurements into registers in
    every block, later blocks use outcomes of earlier blocks (and their own) as condition and add
    operands.  -> (prog, script)"""
    prog = [["newarr", 0, 3, [0, 0, 0]], ["newq", 0]]
    regs, n_meas = [], 0
    nblocks = rng.randint(2, 4)
    for b in range(nblocks):
        own = []
        for _ in range(rng.randint(1, 3)):
            if rng.random() < 0.4:
                prog.append(["gate", rng.choice(GATES1), 0])
            r = len(regs) + len(own)
            prog.append(["measreg", 0, 1, r])
            own.append(r)
            n_meas += 1
            if rng.random() < 0.3:
                prog.append(["measfut", 0, 1, 0, ["c", 2]])
                n_meas += 1
        pool = regs + own
        for _ in range(rng.randint(1, 3)):
            x = ["reg", rng.choice(pool)]
            k = rng.random()
            if k < 0.45:
                c = rng.choice(CONDS)
                y = None if c in ("ez", "nz") else rng.choice([["int", rng.randint(0, 1)], ["reg", rng.choice(pool)]])
                prog.append(["if", c, rng.randint(0, 1), x, y, [["futadd", 0, ["c", 0], ["int", rng.randint(1, 5)], None]]])
            elif k < 0.8:
                prog.append(["futadd", 0, ["c", 1], x, rng.choice([None, None, 3])])
            else:
                prog.append(["regadd", rng.choice(own), x, None])
        regs += own
        prog.append(["flush"])
    return prog, [rng.randint(0, 1) for _ in range(n_meas)]


def nest(k, inner, kinds, rng):
    """k open operations around `inner` (C14: agreement on failure when the nesting is too deep)"""
    s = inner
    for d in range(k):
        kind = rng.choice(kinds)
        v = 1000 + d
        if kind == "loop":
            s = [["loop", rng.randint(0, 1), v, 0, 2, 1, s]]
        elif kind == "foreach":
            s = [["foreach", rng.randint(0, 1), v, 0, s]]
        elif kind == "until":
            s = [["until", v, 2, s, ["fut", 0, ["c", 0]], 0, []]]
        elif kind == "if":
            s = [["if", rng.choice(CONDS[:4]), rng.randint(0, 1), ["fut", 0, ["c", 0]], ["fut", 0, ["c", 1]], s]]
        elif kind == "post":
            s = [["epr", "post_recv_corr", s]]
        elif kind == "ctx":
            s = [["epr", "ctx_create", s]]
    return s


def renumber_arrays(prog):
    """array names = addresses in the order the builder will allocate them (statements
    dropped during generation leave gaps)"""
    order = []

    def decl(b):
        for s in b:
            if s[0] == "newarr":
                order.append(s[1])
            elif s[0] == "measnew":
                order.append(s[3])
            elif s[0] == "epr":
                for _ in range(EPR_NARR[s[1]]):
                    order.append(("epr", len(order)))
            for part in bodies(s):
                decl(part)

    decl(prog)
    m = {a: i for i, a in enumerate(order)}

    def op(x):
        if isinstance(x, list) and x and x[0] == "fut":
            return ["fut", m[x[1]], x[2]]
        return x

    def ixm(ix):
        return ["f", m[ix[1]], ix[2]] if ix[0] == "f" else ix

    def st(s):
        k = s[0]
        if k == "newarr":
            return ["newarr", m[s[1]], s[2], s[3]]
        if k == "measnew":
            return ["measnew", s[1], s[2], m[s[3]]]
        if k == "measfut":
            return ["measfut", s[1], s[2], m[s[3]], ixm(s[4])]
        if k == "futadd":
            return ["futadd", m[s[1]], ixm(s[2]), op(s[3]), s[4]]
        if k in ("regadd", "uadd"):
            return [k, s[1], op(s[2]), s[3]]
        if k == "if":
            return ["if", s[1], s[2], op(s[3]), op(s[4]), [st(x) for x in s[5]]]
        if k == "loop":
            return s[:6] + [[st(x) for x in s[6]]] + s[7:]
        if k == "foreach":
            return ["foreach", s[1], s[2], m[s[3]], [st(x) for x in s[4]]]
        if k == "until":
            return ["until", s[1], s[2], [st(x) for x in s[3]], op(s[4]), s[5], [st(x) for x in s[6]]]
        if k == "epr":
            return ["epr", s[1], [st(x) for x in s[2]]]
        return s

    return [st(s) for s in prog]


def reg_defs_uses(s, defs, uses):
    """register futures assigned / used as an in-subroutine operand anywhere inside s"""
    if s[0] == "measreg":
        defs.add(s[3])
    if s[0] == "newreg":
        defs.add(("new", s[1]))       # an R register: keeps its value across flushes, may be READ later
    if s[0] == "regadd":
        uses.add(s[1])
    if s[0] == "uadd":
        uses.add(("new", s[1]))       # ... but is returned to the host only by the block that claimed it

    def walk(x):
        if isinstance(x, list):
            if len(x) == 2 and x[0] == "reg":
                uses.add(x[1])
            for y in x:
                walk(y)

    walk([p for p in s[1:] if not (isinstance(p, list) and p and isinstance(p[0], list))])
    for b in bodies(s):
        for t in b:
            reg_defs_uses(t, defs, uses)


def allowed_cuts(stmts):
    """positions i (flush after statement i) that do not separate the assignment of a register
    future from a later use of it as an operand: M registers are handed out afresh after
    every flush, so such a handle is only good for host reads then (documented assumption)"""
    info = []
    for s in stmts:
        d, u = set(), set()
        reg_defs_uses(s, d, u)
        info.append((d, u))
    ok = []
    for i in range(len(stmts) - 1):
        defined = set().union(*[d for d, _ in info[: i + 1]])
        used_later = set().union(*[u for _, u in info[i + 1:]])
        if not (defined & used_later):
            ok.append(i)
    return ok


def reg_targets(s, acc):
    """register futures that s adds to (rf.add(..)) anywhere inside"""
    if s[0] == "regadd":
        acc.add(s[1])
    for b in bodies(s):
        for t in b:
            reg_targets(t, acc)


def stale_cuts(stmts):
    """positions i (flush after statement i) that DO separate the measurement of a register
    outcome from a later use of it as an operand (condition, add operand), and from no later
    rf.add(..) on it: the later subroutine must see the value the earlier one computed, although
    the M registers are handed out afresh (outside Sdk.Lower: what is compiled depends on an
    earlier run; covered by the behavioural oracle only)"""
    info, targets, news = [], [], []
    for s in stmts:
        d, u, t = set(), set(), set()
        reg_defs_uses(s, d, u)
        reg_targets(s, t)
        info.append(({x for x in d if not isinstance(x, tuple)}, {x for x in u if not isinstance(x, tuple)} - t))
        # rf.add on a new_register future is returned to the host only by the block that claimed it
        targets.append(t | {x for x in u if isinstance(x, tuple)})
        news.append({x for x in d if isinstance(x, tuple)})
    ok = []
    for i in range(len(stmts) - 1):
        defined = set().union(*[d for d, _ in info[: i + 1]])
        used_later = set().union(*[u for _, u in info[i + 1:]])
        added_later = set().union(*targets[i + 1:])
        new_defined = set().union(*news[: i + 1])
        if (defined & used_later) and not ((defined | new_defined) & added_later):
            ok.append(i)
    return ok


def strip_flushes(prog):
    return [s for s in prog if s[0] != "flush"]


def with_flush_mask(stmts, mask):
    """insert a flush after top-level statement i iff bit i of mask; final flush always"""
    out = []
    for i, s in enumerate(stmts):
        out.append(s)
        if (mask >> i) & 1 and i < len(stmts) - 1:
            out.append(["flush"])
    out.append(["flush"])
    return out


# ------------------------------------------------------------------ statistics
def stmt_kinds(prog, acc=None, depth=0):
    acc = acc if acc is not None else {}
    for s in prog:
        k = s[0]
        if k == "if":
            k = "if_" + s[1] + ("_cb" if s[2] else "_ctx")
        elif k == "loop":
            k = "loop_body" if s[1] else "loop_ctx"
        elif k == "foreach":
            k = "enumerate" if s[1] else "foreach"
        elif k == "futadd":
            k = "futadd_mod" if s[4] is not None else "futadd"
            if s[2][0] == "f":
                k += "_nested_future_index"
        elif k == "measfut" and s[4][0] == "f":
            k = "measfut_nested_future_index"
        if s[0] == "loop" and len(s) > 7 and s[7] is not None:
            acc["loop_explicit_register"] = acc.get("loop_explicit_register", 0) + 1
        if s[0] == "loop" and s[5] < 0:
            acc["loop_negative_step"] = acc.get("loop_negative_step", 0) + 1
        elif k == "newarr":
            init = s[3]
            k = "newarr_noinit" if init is None else (
                "newarr_loopinit" if len(init) > 1 and init[0] is not None and init.count(init[0]) == len(init) else "newarr_init")
        acc[k] = acc.get(k, 0) + 1
        acc["max_depth"] = max(acc.get("max_depth", 0), depth)
        for part in bodies(s):
            stmt_kinds(part, acc, depth + 1)
    return acc


def bodies(s):
    if s[0] == "if":
        return [s[5]]
    if s[0] == "loop":
        return [s[6]]
    if s[0] == "foreach":
        return [s[4]]
    if s[0] == "until":
        return [s[3], s[6]]
    if s[0] == "epr":
        return [s[2]]
    return []


def depth_of(prog):
    d = 0
    for s in prog:
        for b in bodies(s):
            d = max(d, 1 + depth_of(b))
    return d


# ------------------------------------------------------------------ Coq emission
def cz(n):
    return f"({n})" if n < 0 else str(n)


def coq_ix(ix):
    return f"(IxC {cz(ix[1])})" if ix[0] == "c" else f"(IxV {ix[1]})"


def coq_cval(x):
    if x is None:
        return "(VInt 0)"
    if x[0] == "int":
        return f"(VInt {cz(x[1])})"
    if x[0] == "fut":
        return f"(VFut {x[1]} {coq_ix(x[2])})"
    if x[0] == "reg":
        return f"(VReg {x[1]})"
    return f"(VLoop {x[1]})"


def coq_src(x):
    if x[0] == "int":
        return f"(AInt {cz(x[1])})"
    if x[0] == "fut":
        return f"(AFut {x[1]} {coq_ix(x[2])})"
    if x[0] == "reg":
        return f"(AReg {x[1]})"
    return f"(ALoop {x[1]})"


def coq_opt(x, f=cz):
    return "None" if x is None else f"(Some {f(x)})"


def coq_bool(b):
    return "true" if b else "false"


def coq_list(xs):
    xs = list(xs)
    return "[" + "; ".join(xs) + "]"


def coq_stmt(s):
    k = s[0]
    if k == "newq":
        return f"SNewQubit {s[1]}"
    if k == "gate":
        return f"SGate G{s[1].upper()} {s[2]}"
    if k == "rot":
        return f"SRot A{s[1].upper()} {s[2]} {s[3]} {s[4]}"
    if k == "cnot":
        return f"STwo TCnot {s[1]} {s[2]}"
    if k == "cphase":
        return f"STwo TCphase {s[1]} {s[2]}"
    if k == "measfut" and s[4][0] == "f":
        return f"SMeasFutX {s[1]} {coq_bool(s[2])} {s[3]} {s[4][1]} {s[4][2]}"
    if k == "futadd" and s[2][0] == "f":
        return f"SFutAddX {s[1]} {s[2][1]} {s[2][2]} {coq_src(s[3])} {coq_opt(s[4])}"
    if k == "measfut":
        return f"SMeasFut {s[1]} {coq_bool(s[2])} {s[3]} {coq_ix(s[4])}"
    if k == "measnew":
        return f"SMeasNew {s[1]} {coq_bool(s[2])} {s[3]}"
    if k == "measreg":
        return f"SMeasReg {s[1]} {coq_bool(s[2])} {s[3]}"
    if k == "free":
        return f"SFree {s[1]}"
    if k == "newarr":
        init = "None" if s[3] is None else "(Some " + coq_list(coq_opt(x) for x in s[3]) + ")"
        return f"SNewArray {s[1]} {s[2]} {init}"
    if k == "futadd":
        return f"SFutAdd {s[1]} {coq_ix(s[2])} {coq_src(s[3])} {coq_opt(s[4])}"
    if k == "regadd":
        return f"SRegAdd {s[1]} {coq_src(s[2])} {coq_opt(s[3])}"
    if k == "if":
        return (f"SIf C{s[1].capitalize()} {coq_bool(s[2])} {coq_cval(s[3])} {coq_cval(s[4])} "
                f"{coq_block(s[5])}")
    if k == "loop":
        lreg = s[7] if len(s) > 7 else None
        return (f"SLoop {coq_bool(s[1])} {s[2]} {'None' if lreg is None else f'(Some {lreg}%nat)'} "
                f"{cz(s[3])} {cz(s[4])} {cz(s[5])} {coq_block(s[6])}")
    if k == "newreg":
        return f"SNewReg {s[1]} {cz(s[2])}"
    if k == "uadd":
        return f"SUAdd {s[1]} {coq_src(s[2])} {coq_opt(s[3])}"
    if k == "foreach":
        return f"SForeach {coq_bool(s[1])} {s[2]} {s[3]} {coq_block(s[4])}"
    if k == "until":
        return f"SLoopUntil {s[1]} {cz(s[2])} {coq_block(s[3])} {coq_cval(s[4])} {cz(s[5])} {coq_block(s[6])}"
    if k == "flush":
        return "SFlush"
    if k == "epr":
        return f"SEpr {EPR_COQ[s[1]]} {coq_block(s[2])}"
    raise IllFormed(s)


EPR_COQ = dict(keep_create="(EKeep 3)", keep_recv_nocorr="(EKeep 2)", measure_create="(EKeep 2)",
               measure_recv="(EKeep 1)", recv_corr="ERecvCorr", post_create="(EPost false 3)",
               post_recv_nocorr="(EPost false 2)", post_recv_corr="(EPost true 2)", ctx_create="(ECtx 3)",
               ctx_recv="(ECtx 2)")
EPR_NARR = dict(keep_create=3, keep_recv_nocorr=2, measure_create=2, measure_recv=1, recv_corr=2, post_create=3,
                post_recv_nocorr=2, post_recv_corr=2, ctx_create=3, ctx_recv=2)


def coq_block(b):
    return "(blk " + coq_list("(" + coq_stmt(s) + ")" for s in b) + ")"


def coq_operand(o):
    k = o[0]
    if k == "reg":
        return f"(OReg B{o[1]} {o[2]})"
    if k == "int":
        return f"(OImm {cz(o[1])})"
    if k == "label":
        return f'(OLab "{o[1]}")'
    if k == "addr":
        return f"(OAddr {o[1]})"
    if k == "entry":
        return f"(OEntry {o[1]} {coq_operand(o[2])})"
    if k == "slice":
        return f"(OSlice {o[1]} {coq_operand(o[2])} {coq_operand(o[3])})"
    raise IllFormed(o)


def coq_cmd(c):
    if c[0] == "label":
        return f'(FLabel "{c[1]}")'
    return f'(FInstr "{c[1]}" {coq_list(coq_operand(o) for o in c[2])})'


if __name__ == "__main__":
    import json
    import random

    repo = sys.argv[1]
    sys.path.insert(0, repo)
    rng = random.Random(int(sys.argv[2]) if len(sys.argv) > 2 else 1)
    g = Gen(rng)
    for _ in range(int(sys.argv[3]) if len(sys.argv) > 3 else 3):
        prog, script = g.program()
        print(json.dumps(prog))
        obs = run_program(repo, prog, script)
        print(obs["status"], obs.get("exc"), obs.get("msg"), obs["trace"][:6], obs["flushes"][-1:] )
