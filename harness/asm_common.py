"""Shared by checks C03 and C17: regenerate Gen_Codec.v / Gen_Asm.v, build real
ICmd / ProtoSubroutine / instruction objects, run the real assembler, text parser,
printer and Executor, canonicalise, emit Coq case files.

Program representation (JSON-friendly):
  command = ["lab", name] | ["ins", mnemonic, [args...], [operand...]]
  operand = ["lit", z] | ["reg", bank, idx] | ["label", name] | ["addr", a]
          | ["entry", a, val] | ["slice", a, val, val]         val = ["lit", z] | ["reg", bank, idx]
"""
import os
import re

import asm_tables as at
import codec_tables as ct
from coqemit import lst
from coqemit import z as _z

# a leaf of implementation output that is not a plain int (e.g. an Immediate nested in an Immediate, None where a
# number is expected) is shown as "!<repr>" in views and emitted to Coq as a number no real value can equal
SENTINEL = 10 ** 40 + 7


def z(n):
    if isinstance(n, int) and not isinstance(n, bool):
        return _z(n)
    return _z(SENTINEL)


def total_leaf(v):
    return v if isinstance(v, int) and not isinstance(v, bool) else "!" + repr(v)[:80]


FLAVS = ["vanilla", "nv", "reids"]
HEADER = "# NETQASM 1.0\n# APPID 0\n"
BANKS = "RCQM"


class Unsupported(Exception):
    pass


# ------------------------------------------------------------------ preparation
class Impl:
    def __init__(self, repo):
        self.ct = ct.tables(repo)
        self.at = at.tables(repo)
        self.encoding, self.operand, self.fl = ct.load(repo)
        from netqasm.backend.executor import Executor
        from netqasm.lang import ir
        from netqasm.lang.parsing import deserialize
        from netqasm.lang.parsing import text as text_mod
        from netqasm.lang.subroutine import Subroutine
        from netqasm.sdk.shared_memory import SharedMemoryManager
        from netqasm.util.error import NetQASMSyntaxError

        self.ir, self.text, self.Subroutine, self.deserialize = ir, text_mod, Subroutine, deserialize
        self.Executor, self.SMM, self.SyntaxError = Executor, SharedMemoryManager, NetQASMSyntaxError
        self.rows = {f: {r["name"]: r for r in ft["rows"]} for f, ft in self.ct["flavours"].items()}
        self.flav = {f: ft["flavour"] for f, ft in self.ct["flavours"].items()}
        self.bank_names = {v: n for v, n in self.at["banks"]}

    # ---- IR -> real objects
    def mk_val(self, v):
        if v[0] == "lit":
            return v[1]
        return self.operand.Register(self.encoding.RegisterName(v[1]), v[2])

    def mk_opnd(self, o):
        op = self.operand
        k = o[0]
        if k in ("lit", "reg"):
            return self.mk_val(o)
        if k == "label":
            return op.Label(o[1])
        if k == "addr":
            return op.Address(o[1])
        if k == "entry":
            return op.ArrayEntry(op.Address(o[1]), self.mk_val(o[2]))
        if k == "slice":
            return op.ArraySlice(op.Address(o[1]), self.mk_val(o[2]), self.mk_val(o[3]))
        raise ValueError(o)

    def mk_proto(self, prog, alias=False):
        """real ICmd / BranchLabel objects.  alias=True builds them the way callers do: ONE operand list object for
        commands with the same operands, ONE operand object (Register, Address, Label, ArrayEntry, ArraySlice -- also
        with literal indices) for equal operands of different commands"""
        from netqasm.util.log import HostLine
        import json as _json
        objs, lists = {}, {}

        def opnd(o):
            if not alias or o[0] == "lit":
                return self.mk_opnd(o)
            k = _json.dumps(o)
            if k not in objs:
                objs[k] = self.mk_opnd(o)
            return objs[k]

        cmds = []
        for c in prog:
            if c[0] == "lab":
                cmds.append(self.ir.BranchLabel(c[1]))
                continue
            k = _json.dumps(c[3])
            if alias and k in lists:
                operands = lists[k]
            else:
                operands = [opnd(o) for o in c[3]]
                lists[k] = operands
            cmds.append(self.ir.ICmd(instruction=self.ir.GenericInstr[c[1].upper()], args=list(c[2]), operands=operands,
                                     lineno=HostLine("app_alice.py", len(cmds)) if len(cmds) % 3 == 1 else None))
        return self.ir.ProtoSubroutine(commands=cmds, app_id=0)

    def view_instr(self, instr):
        """[class, operand leaves]; TOTAL: whatever the implementation hands back gets a view (a leaf that is not an
        int, an operand of an unknown shape become "!..." markers that equal no real value)"""
        cls = type(instr)
        name = f"{cls.__module__.split('.')[-1]}.{cls.__name__}"
        flat = []
        try:
            operands = list(instr.operands)
        except Exception as e:  # noqa
            return [name, ["!operands raised " + type(e).__name__]]
        for op in operands:
            try:
                flat.extend(total_leaf(v) for v in ct.operand_leaves(self.operand, op))
            except Exception:  # noqa  (unknown operand shape, e.g. an entry whose index is not a register)
                flat.append("!" + repr(op)[:80])
        return [name, flat]

    def build_instr(self, fname, name, leaves):
        row = self.rows[fname][name]
        ops, i = [], 0
        for k in row["kinds"]:
            n = ct.NLEAVES[k]
            ops.append(ct.mk_operand(self.operand, self.encoding, k, leaves[i:i + n]))
            i += n
        return row["cls"].from_operands(ops)

    # ---- real proto-commands -> IR
    def view_val(self, v):
        op = self.operand
        if isinstance(v, bool):
            raise Unsupported("bool")
        if isinstance(v, int):
            return ["lit", v]
        if isinstance(v, op.Register):
            return ["reg", v.name.value, v.index]
        raise Unsupported(type(v).__name__)

    def view_opnd(self, o):
        op = self.operand
        if isinstance(o, op.Label):
            return ["label", o.name]
        if isinstance(o, op.Address):
            return ["addr", o.address]
        if isinstance(o, op.ArrayEntry):
            return ["entry", o.address.address, self.view_val(o.index)]
        if isinstance(o, op.ArraySlice):
            return ["slice", o.address.address, self.view_val(o.start), self.view_val(o.stop)]
        return self.view_val(o)

    def view_proto(self, proto):
        out = []
        for c in proto.commands:
            if isinstance(c, self.ir.BranchLabel):
                out.append(["lab", c.name])
            else:
                out.append(["ins", self.ir.instruction_to_string(c.instruction), list(c.args),
                            [self.view_opnd(o) for o in c.operands]])
        return out

    def parse_front(self, lines):
        """the real text front end on a text -> proto-commands as IR, None if it raises,
        'unsupported' if the result has operands outside the model (templates)"""
        try:
            proto = self.text.parse_text_protosubroutine("\n".join(lines) + "\n")
        except Exception:  # any refusal
            return None
        try:
            return self.view_proto(proto)
        except Unsupported:
            return "unsupported"

    # ---- the implementation under test
    def classify(self, exc):
        if isinstance(exc, RuntimeError) and not isinstance(exc, NotImplementedError):
            return 1
        if isinstance(exc, self.SyntaxError):
            return 2
        return 3

    def mk_reserved(self, rsv):
        """reserved_registers as the builder passes them (Register objects); None when nothing is reserved"""
        if not rsv:
            return None
        return [self.operand.Register(self.encoding.RegisterName(b), i) for b, i in rsv]

    def assemble_ir(self, fname, prog, rsv=None, alias=False):
        """-> (outcome, subroutine or None); outcome = ['instrs', [...]] | ['failed', code]"""
        try:
            kw = {} if not rsv else dict(reserved_registers=self.mk_reserved(rsv))
            sub = self.text.assemble_subroutine(self.mk_proto(prog, alias=alias), flavour=self.flav[fname], **kw)
            views = [self.view_instr(i) for i in sub.instructions]
        except Exception as e:  # any refusal
            return ["failed", self.classify(e)], None
        return ["instrs", views], sub

    def assemble_text(self, fname, text, rsv=None):
        try:
            self.text.parse_text_protosubroutine(text)
        except Exception:
            return ["failed", 0], None
        try:
            if rsv:
                # the text caller with reserved registers: front end, then assemble_subroutine
                sub = self.text.assemble_subroutine(self.text.parse_text_protosubroutine(text), flavour=self.flav[fname],
                                                    reserved_registers=self.mk_reserved(rsv))
            else:
                sub = self.text.parse_text_subroutine(text, flavour=self.flav[fname])
            views = [self.view_instr(i) for i in sub.instructions]
        except Exception as e:
            return ["failed", self.classify(e)], None
        return ["instrs", views], sub

    def execute(self, sub, bound):
        return self.execute_seq([sub], bound)[0]

    def execute_rec(self, sub, bound, script, cap=5):
        """Run on a RECORDING subclass of the real Executor (gate trace with register values, scripted
        measurement outcomes, qalloc/qfree, ret_reg/ret_arr).  -> observation with 'trace' and 'um'"""
        return self.execute_seq([sub], bound, script=list(script), cap=cap)[0]

    def execute_seq(self, subs, bound, script=None, cap=5):
        """Run the assembled subroutines one after the other on ONE application of a fresh real Executor
        (registers, arrays and shared memory persist).  -> one observation per executed subroutine; stops
        after the first one that does not halt."""
        Executor, RN = self.Executor, self.encoding.RegisterName

        class FuelOut(Exception):
            pass

        class Blocked(Exception):
            pass

        class HugeArray(Exception):
            pass

        class Bounded(Executor):
            def __init__(s2):
                super().__init__(name="asmcheck")
                s2.steps, s2.fault_line = 0, None

            def _execute_command(s2, subroutine_id, command):
                if s2.steps >= bound:
                    raise FuelOut()
                s2.steps += 1
                yield from super()._execute_command(subroutine_id, command)

            def _handle_command_exception(s2, exc, prog_counter, traceback_str):
                s2.fault_line = prog_counter
                raise exc

            def _do_wait(s2):
                # the base class would spin forever waiting for the network stack
                raise Blocked()

            def _initialize_array(s2, app_id, address, length):
                if length is not None and length > 100000:
                    raise HugeArray()  # would exhaust the harness's memory: the case is dropped, not compared
                super()._initialize_array(app_id, address, length)

            # ---- recording (only the documented extension points and two bookkeeping methods are wrapped)
            def _do_single_qubit_instr(s2, instr, subroutine_id, address):
                s2.trace.append(["gate", instr.mnemonic, [], [address]])

            def _do_single_qubit_rotation(s2, instr, subroutine_id, address, angle):
                s2.trace.append(["gate", instr.mnemonic, [instr.angle_num.value, instr.angle_denom.value], [address]])

            def _do_two_qubit_instr(s2, instr, subroutine_id, address1, address2):
                s2.trace.append(["gate", instr.mnemonic, [], [address1, address2]])

            def _do_controlled_qubit_rotation(s2, instr, subroutine_id, address1, address2, angle):
                s2.trace.append(["gate", instr.mnemonic, [instr.angle_num.value, instr.angle_denom.value],
                                 [address1, address2]])

            def _do_meas(s2, subroutine_id, q_address):
                outcome = s2.script.pop(0) if s2.script else 0
                s2.trace.append(["meas", q_address, outcome])
                return outcome

            def _allocate_physical_qubit(s2, subroutine_id, virtual_address, physical_address=None, *a, **k):
                r = super()._allocate_physical_qubit(subroutine_id, virtual_address, physical_address, *a, **k)
                s2.trace.append(["alloc", virtual_address])
                return r

            def _free_physical_qubit(s2, subroutine_id, address):
                yield from super()._free_physical_qubit(subroutine_id, address)
                s2.trace.append(["free", address])

            def _update_shared_memory(s2, app_id, entry, value):
                super()._update_shared_memory(app_id, entry, value)
                if isinstance(entry, self.operand.Register):
                    s2.trace.append(["retreg", entry.name.value, entry.index, value])
                elif isinstance(entry, self.operand.Address):
                    s2.trace.append(["retarr", entry.address, list(value)])

        self.SMM.reset_memories()
        ex = Bounded()
        ex._logger.disabled = True
        ex.trace, ex.script = [], list(script or [])
        ex.init_new_application(app_id=0, max_qubits=cap)
        out = []
        for sub in subs:
            ex.steps, ex.fault_line = 0, None
            kind = 0
            try:
                for _ in ex.execute_subroutine(sub):
                    pass
            except FuelOut:
                kind = 2
            except Blocked:
                kind = 3
            except HugeArray:
                out.append(None)
                break
            except Exception:
                kind = 1
            line = 0 if kind == 0 else ex.fault_line
            regs = []
            for rn in RN:
                for idx, val in sorted(ex._registers[0][rn]._register.items()):
                    if val is not None:
                        regs.append([rn.value, idx, val])
            regs.sort()
            app_arrays = ex._app_arrays[0]._arrays
            arrs = sorted([a, list(l)] for a, l in app_arrays.items())
            sm = ex._shared_memories[0]
            shregs = []
            for rn in RN:
                for idx, val in sorted(sm._registers[rn]._register.items()):
                    if val is not None:
                        shregs.append([rn.value, idx, val])
            sharrs = sorted([a, list(l)] for a, l in sm._arrays._arrays.items())
            alias = sorted(a for a, l in sm._arrays._arrays.items() if app_arrays.get(a) is l)
            out.append(dict(kind=kind, line=line, regs=regs, arr=arrs, shreg=shregs, sharr=sharrs, alias=alias,
                            steps=ex.steps, trace=[list(e) for e in ex.trace],
                            um=[x is not None for x in ex._qubit_unit_modules[0]]))
            if kind != 0:
                break
        return out


def prepare(ctx):
    ok1, err1 = ctx.gen("codec_tables.py", "Gen_Codec.v")
    ctx.gen_obligation("translator codec_tables.py understands the source", ok1, err1.strip()[-300:])
    ok2, err2 = ctx.gen("asm_tables.py", "Gen_Asm.v")
    ctx.gen_obligation("translator asm_tables.py understands the source", ok2, err2.strip()[-300:])
    if not (ok1 and ok2):
        return None
    for f in ("Gen_Codec.v", "Gen_Asm.v"):
        r = ctx.coqc(f)
        ctx.gen_obligation(f"{f} type-checks", r.ok, r.err[-300:])
        if not r.ok:
            return None
    ctx.trusted.append("gen/codec_tables.py (flavour tables: class, opcode, mnemonic, operand kinds, layouts) and "
                       "gen/asm_tables.py (reads _REPLACE_CONSTANTS_EXCEPTION, REG_INDEX_BITS, RegisterName, "
                       "GenericInstr names, Symbols; compares Symbols with the separators the text model uses)")
    try:
        return Impl(ctx.repo)
    except Exception as e:  # noqa
        ctx.gen_obligation("implementation importable", False, repr(e))
        return None


# ------------------------------------------------------------------ rendering programs as text
def val_str(v):
    return str(v[1]) if v[0] == "lit" else f"{BANKS[v[1]]}{v[2]}"


def opnd_str(o):
    k = o[0]
    if k in ("lit", "reg"):
        return val_str(o)
    if k == "label":
        return o[1]
    if k == "addr":
        return f"@{o[1]}"
    if k == "entry":
        return f"@{o[1]}[{val_str(o[2])}]"
    return f"@{o[1]}[{val_str(o[2])}:{val_str(o[3])}]"


def canonical_lines(prog):
    """the canonical text of a proto-program (what TextFront.print_proto prints)"""
    lines = ["# NETQASM 1.0", "# APPID 0"]
    for c in prog:
        if c[0] == "lab":
            lines.append(c[1] + ":")
        else:
            head = c[1] + ("(" + ",".join(str(a) for a in c[2]) + ")" if c[2] else "")
            lines.append("".join([head] + [" " + opnd_str(o) for o in c[3]]))
    return lines


def render_text(rng, prog, macros=True, noise=True):
    """-> list of lines (without the two fixed preamble lines).  Uses bracket args,
    macros (with keys that are prefixes of each other), comments, blank lines,
    indentation."""
    keys = ["q", "q2", "q21", "idx", "i", "ms", "m_1", "Q"]
    defs = []  # (key, value)
    lines = []
    use_macros = macros and rng.random() < 0.6
    for c in prog:
        if c[0] == "lab":
            line = c[1] + ":"
        else:
            _, mn, args, ops = c
            ops = list(ops)
            args = list(args)
            # move leading literal operands into bracket args
            while ops and ops[0][0] == "lit" and rng.random() < 0.3:
                args.append(ops.pop(0)[1])
            toks = []
            for o in ops:
                sstr = opnd_str(o)
                if use_macros and rng.random() < 0.35:
                    known = [k for k, v in defs if v == sstr]
                    if known:
                        k = rng.choice(known)
                    else:
                        free = [k for k in keys if k not in [d[0] for d in defs]]
                        k = rng.choice(free) if free else None
                        if k is not None:
                            defs.append((k, sstr))
                    if k is not None:
                        sstr = "$" + k
                toks.append(sstr)
            head = mn
            if use_macros and rng.random() < 0.1:
                free = [k for k in keys if k not in [d[0] for d in defs]]
                known = [k for k, v in defs if v == mn]
                k = known[0] if known else (rng.choice(free) if free else None)
                if k is not None:
                    if not known:
                        defs.append((k, mn))
                    head = "$" + k
            if args:
                sep = rng.choice([",", ", ", " ,"]) if noise else ","
                head += "(" + sep.join(str(a) for a in args) + ")"
            line = " ".join([head] + toks)
        if noise:
            if rng.random() < 0.3:
                line = rng.choice(["  ", "\t", "    "]) + line
            if rng.random() < 0.15:
                line = line + rng.choice([" // comment", "  // x: y", " //", "// jmp 0"])
            elif rng.random() < 0.1:
                line = line + rng.choice([" ", "  ", "\t"])
            if rng.random() < 0.1:
                lines.append(rng.choice(["", "   ", "// only a comment", "\t"]))
        lines.append(line)
    rng.shuffle(defs)
    pre = []
    for k, v in defs:
        vv = "{" + v + "}" if rng.random() < 0.4 else v
        pre.append(f"# DEFINE {k} {vv}")
    return pre + lines


def mangle(rng, lines):
    """a malformed variant of a text (one edit)"""
    lines = list(lines)
    if not lines:
        return ["set"]
    i = rng.randrange(len(lines))
    l = lines[i]
    m = rng.randrange(9)
    if m == 0:
        lines[i] = l.replace(" ", "  ", 1)
    elif m == 1:
        lines[i] = l + " R"
    elif m == 2:
        lines[i] = l.replace("[", "", 1) if "[" in l else l + " @"
    elif m == 3:
        lines[i] = l + ":"
    elif m == 4:
        lines[i] = "frobnicate R0"
    elif m == 5:
        lines[i] = l.replace(")", "", 1) if ")" in l else l + " 1x"
    elif m == 6:
        lines.insert(i, "# DEFINE late 1")
    elif m == 7:
        lines[i] = l.replace("$", "$$", 1) if "$" in l else l + " -"
    else:
        lines[i] = l + " @1[R0:R1:R2]"
    return lines


# ------------------------------------------------------------------ Coq emission
def cstr(x):
    assert isinstance(x, str)
    for ch in x:
        assert ch == "\t" or 32 <= ord(ch) < 127, repr(x)
    return '"' + x.replace('"', '""') + '"'


def coq_val(v):
    return f"(VLit {z(v[1])})" if v[0] == "lit" else f"(VReg {z(v[1])} {z(v[2])})"


def coq_opnd(o):
    k = o[0]
    if k in ("lit", "reg"):
        return f"AV {coq_val(o)}"
    if k == "label":
        return f"ALabel {cstr(o[1])}"
    if k == "addr":
        return f"AAddr {z(o[1])}"
    if k == "entry":
        return f"AEntry {z(o[1])} {coq_val(o[2])}"
    return f"ASlice {z(o[1])} {coq_val(o[2])} {coq_val(o[3])}"


def coq_cmd(c):
    if c[0] == "lab":
        return f"ALab {cstr(c[1])}"
    return f"AIns {cstr(c[1])} {lst(z(a) for a in c[2])} {lst(coq_opnd(o) for o in c[3])}"


def coq_pinstr(p):
    return f"({cstr(p[0])}, {lst(z(v) for v in p[1])})"


def coq_outcome(o):
    if o[0] == "instrs":
        return f"(Instrs {lst(coq_pinstr(p) for p in o[1])})"
    return f"(Failed {z(o[1])})"


def coq_oz(v):
    return "None" if v is None else f"Some {z(v)}"


def coq_obs(o):
    if o is None:
        return "None"
    regs = lst(f"(({z(b)}, {z(i)}), {z(v)})" for b, i, v in o["regs"])
    arr = lst(f"({z(a)}, {lst(coq_oz(v) for v in l)})" for a, l in o["arr"])
    shreg = lst(f"(({z(b)}, {z(i)}), {z(v)})" for b, i, v in o["shreg"])
    sharr = lst(f"({z(a)}, {lst(coq_oz(v) for v in l)})" for a, l in o["sharr"])
    alias = lst(z(a) for a in o.get("alias", []))
    return f"(Some (mkObs {z(o['kind'])} {z(o['line'])} {regs} {arr} {shreg} {sharr} {alias}))"


def coq_regs(rsv):
    return lst(f"({z(b)}, {z(i)})" for b, i in (rsv or []))


def coq_acase(c):
    lines = "None" if c["lines"] is None else f"(Some {lst(cstr(l) for l in c['lines'])})"
    prog = lst(coq_cmd(x) for x in (c["prog"] if c["lines"] is None else []))
    return (f"mkAC {lines} {prog} {coq_outcome(c['out'])} {c['fuel']}%nat {coq_obs(c['obs'])} "
            f"{coq_regs(c.get('rsv'))}")


def coq_oprog(p):
    return "None" if p is None else f"(Some {lst(coq_cmd(x) for x in p)})"


def write_fcase_file(path, fname, cases):
    with open(path, "w") as f:
        f.write(FRONT_HEADER)
        f.write("Definition cases : list fcase :=\n [" + ";\n  ".join(
            f"mkFC {lst(cstr(l) for l in c['lines'])} {coq_oprog(c['proto'])}" for c in cases) + "].\n")
        f.write("Eval vm_compute in (codes (check_fcase gen_banks gen_ginstrs) cases).\n")


def write_kcase_file(path, fname, cases):
    with open(path, "w") as f:
        f.write(FRONT_HEADER)
        f.write("Definition cases : list kcase :=\n [" + ";\n  ".join(
            f"mkKC {lst(coq_cmd(x) for x in c['prog'])} {lst(cstr(l) for l in c['lines'])} {coq_oprog(c['back'])}"
            for c in cases) + "].\n")
        f.write("Eval vm_compute in (codes (check_kcase gen_banks gen_ginstrs) cases).\n")


FRONT_HEADER = """From Coq Require Import ZArith List String Ascii.
From NQ Require Import Base.Bits Lang.Codec Lang.CodecCheck Lang.Asm Lang.Text Lang.TextFront Lang.AsmCheck Lang.TextFrontCheck.
From Gen Require Import Gen_Codec Gen_Asm.
Import ListNotations.
Open Scope Z_scope.
Open Scope string_scope.
"""

CASE_HEADER = """From Coq Require Import ZArith List String Ascii.
From NQ Require Import Base.Bits Lang.Codec Lang.CodecCheck Lang.Asm Lang.AsmSem Lang.Text Lang.AsmCheck.
From Gen Require Import Gen_Codec Gen_Asm.
Import ListNotations.
Open Scope Z_scope.
Open Scope string_scope.
"""


def write_acase_file(path, fname, cases):
    with open(path, "w") as f:
        f.write(CASE_HEADER)
        f.write("Definition cases : list acase :=\n [" + ";\n  ".join(coq_acase(c) for c in cases) + "].\n")
        f.write(f"Eval vm_compute in (codes (check_acase gen_params gen_banks gen_ginstrs gen_{fname}) cases).\n")


def coq_event(e):
    k = e[0]
    if k == "gate":
        return f"EvGate {cstr(e[1])} {lst(z(x) for x in e[2])} {lst(z(x) for x in e[3])}"
    if k == "meas":
        return f"EvMeas {z(e[1])} {z(e[2])}"
    if k == "alloc":
        return f"EvAlloc {z(e[1])}"
    if k == "free":
        return f"EvFree {z(e[1])}"
    if k == "retreg":
        return f"EvRetReg ({z(e[1])}, {z(e[2])}) {z(e[3])}"
    if k == "retarr":
        return f"EvRetArr {z(e[1])} {lst(coq_oz(v) for v in e[2])}"
    raise ValueError(e)


def coq_qobs(o):
    if o is None:
        return "None"
    inner = coq_obs(o)[len("(Some "):-1]
    um = lst("true" if x else "false" for x in o["um"])
    return f"(Some (mkQO {inner} {lst(coq_event(e) for e in o['trace'])} {um}))"


def write_qcase_file(path, fname, cases):
    with open(path, "w") as f:
        f.write(CASE_HEADER.replace("Lang.AsmCheck.", "Lang.AsmCheck Lang.AsmSemQ Lang.AsmQCheck."))
        items = []
        for c in cases:
            lines = "None" if c["lines"] is None else f"(Some {lst(cstr(l) for l in c['lines'])})"
            prog = lst(coq_cmd(x) for x in (c["prog"] if c["lines"] is None else []))
            items.append(f"mkQC {lines} {prog} {coq_outcome(c['out'])} {c['cap']}%nat {lst(z(x) for x in c['script'])} "
                         f"{c['fuel']}%nat {coq_qobs(c['obs'])}")
        f.write("Definition cases : list qcase :=\n [" + ";\n  ".join(items) + "].\n")
        f.write(f"Eval vm_compute in (codes (check_qcase gen_params gen_banks gen_ginstrs gen_{fname}) cases).\n")


def write_scase_file(path, fname, cases):
    """cases: [dict(steps=[dict(prog, out, obs)], fuel)]"""
    with open(path, "w") as f:
        f.write(CASE_HEADER)
        items = []
        for c in cases:
            steps = lst((f"mkSS {lst(coq_cmd(x) for x in st['prog'])} {coq_outcome(st['out'])} {coq_obs(st['obs'])} "
                         f"{coq_regs(st.get('rsv'))}" for st in c["steps"]), sep=";\n    ")
            items.append(steps)
        f.write("Definition cases : list (list sstep) :=\n [" + ";\n  ".join(items) + "].\n")
        f.write(f"Eval vm_compute in (codes (check_scase gen_params gen_{fname} {cases[0]['fuel'] if cases else 0}%nat) cases).\n")


def coq_pcase(c):
    back = "None" if c["back"] is None else f"(Some {coq_pinstr(c['back'])})"
    return f"mkPC {coq_pinstr(c['instr'])} {cstr(c['str'])} {back}"


def write_pcase_file(path, fname, cases):
    with open(path, "w") as f:
        f.write(CASE_HEADER)
        f.write("Definition cases : list pcase :=\n [" + ";\n  ".join(coq_pcase(c) for c in cases) + "].\n")
        f.write(f"Eval vm_compute in (codes (check_pcase gen_params gen_banks gen_ginstrs gen_{fname}) cases).\n")


def parse_codes(out):
    """'= [..] : list Z' -> [(index, code)]; None if not found"""
    m = re.findall(r"=\s*(\[[^\]]*\]|nil)\s*:\s*list Z", out.replace("\n", " "))
    if len(m) != 1:
        return None
    vals = [int(x) for x in re.findall(r"-?\d+", m[0])]
    return [(v // 16, v % 16) for v in vals]


def run_sharded(ctx, writer, per_flav, shard, prefix):
    """per_flav: {fname: [case dict]} -> {(fname, index): code}; records broken files"""
    files = {}
    for fname, cases in per_flav.items():
        for k in range(0, len(cases), shard):
            fn = f"{prefix}_{fname}_{k // shard}.v"
            writer(os.path.join(ctx.build, fn), fname, cases[k:k + shard])
            files[fn] = (fname, k)
    results = ctx.run_case_files(list(files))
    bad = {}
    for fn, res in results.items():
        fname, k = files[fn]
        if not res.ok:
            ctx.gen_obligation(f"correspondence file {fn} evaluates", False, res.err[-300:])
            continue
        codes = parse_codes(res.out)
        if codes is None:
            ctx.gen_obligation(f"correspondence file {fn} output parsed", False, res.out[-300:])
            continue
        for i, code in codes:
            bad[(fname, k + i)] = code
    return bad
