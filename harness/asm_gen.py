"""Generators of proto-programs for C03 (see asm_common for the representation)."""

LABELS = ["L0", "L1", "loop", "end", "x", "a_1", "EXIT", "L10"]
BRANCH_POS = {"jmp": 0, "bez": 1, "bnz": 1, "beq": 2, "bne": 2, "blt": 2, "bge": 2}


def _lit(rng):
    m = rng.random()
    if m < 0.85:
        return rng.randint(0, 3)
    if m < 0.93:
        return rng.randint(-3, 12)
    return rng.choice([0, 1, -1, 255, 256, 2 ** 31 - 1, -(2 ** 31), 1000])


class RegPool:
    """which registers a program names; pressure = many R registers named"""

    def __init__(self, rng):
        self.rng = rng
        m = rng.random()
        if m < 0.55:
            n = rng.randint(1, 5)
        elif m < 0.8:
            n = rng.randint(10, 13)
        else:
            n = rng.randint(14, 16)
        self.r = rng.sample(range(16), n)
        self.other = [(b, rng.randrange(16)) for b in (1, 2, 3) for _ in range(2)]

    def reg(self):
        if self.rng.random() < 0.8:
            return ["reg", 0, self.rng.choice(self.r)]
        b, i = self.rng.choice(self.other)
        return ["reg", b, i]

    def val(self, p_lit):
        return ["lit", _lit(self.rng)] if self.rng.random() < p_lit else self.reg()


def slice_op(rng, pool, addrs, p_lit):
    """@a[s:e] with literal or register bounds; small literal bounds keep the slice inside what was stored"""
    def bound(lo, hi):
        return ["lit", rng.randint(lo, hi)] if rng.random() < max(p_lit, 0.3) else pool.reg()
    return ["slice", rng.choice(addrs), bound(0, 1), bound(0, 3)]


LOOP0 = "LOOP0"
AFTER0 = "AFTER0"


def gen_loop0_prog(rng):
    """a terminating loop whose label stands in front of the VERY FIRST instruction, entered again by a
    taken backward branch (single subroutine on a fresh application): the flag register is undefined in the
    first pass (bez not taken) and 0 in the second (taken); what follows the loop is observable"""
    pool = RegPool(rng)
    flag = ["reg", 1, next(i for i in range(16) if (1, i) not in pool.other)]
    body = gen_exec_prog(rng, max_len=5, pool=pool)
    out = ["reg", 0, rng.choice(pool.r)]
    prog = [["lab", LOOP0]]
    if rng.random() < 0.3:
        prog.insert(0, ["lab", "L_first"])
    prog += [["ins", "bez", [], [flag, ["label", AFTER0]]], ["ins", "set", [], [flag, ["lit", 0]]]]
    prog += body
    prog += [["ins", "jmp", [], [["label", rng.choice([c[1] for c in prog[:2] if c[0] == "lab"])]]],
             ["lab", AFTER0], ["ins", "set", [], [out, ["lit", rng.randint(5, 9)]]], ["ins", "ret_reg", [], [out]]]
    return prog


def gen_sequence(rng):
    """subroutines of ONE application: the first defines registers and fully stored arrays, the following ones
    use them (also registers they only read, e.g. only as slice bound or index) together with literals; one of
    them may be a counted loop whose label is in front of its first instruction (counter from the earlier
    subroutine)"""
    pool = RegPool(rng)
    addrs = [0, 1, 2]
    first = []
    regs = [["reg", 0, i] for i in pool.r] + [["reg", b, i] for b, i in pool.other]
    rng.shuffle(regs)
    for r in regs:
        first.append(["ins", "set", [], [r, ["lit", rng.randint(0, 3)]]])
    for a in addrs:
        n = rng.randint(4, 7)
        first.append(["ins", "array", [], [["lit", n], ["addr", a]]])
        for k in range(n):
            first.append(["ins", "store", [], [["lit", rng.randint(0, 5)], ["entry", a, ["lit", k]]]])
    seq = [first]
    for _ in range(rng.randint(1, 3)):
        p_lit = rng.choice([0.3, 0.5, 0.8])
        m = rng.random()
        if m < 0.35:
            # registers that are only read: slice bounds / index, plus instructions with several literals
            prog = []
            for _ in range(rng.randint(1, 4)):
                k = rng.random()
                if k < 0.4:
                    prog.append(["ins", "wait_all", [], [["slice", rng.choice(addrs), ["reg", 0, rng.choice(pool.r)],
                                                          ["reg", 0, rng.choice(pool.r)]]]])
                elif k < 0.8:
                    prog.append(["ins", "store", [], [["lit", rng.randint(0, 9)],
                                                      ["entry", rng.choice(addrs), ["lit", rng.randint(0, 3)]]]])
                else:
                    prog.append(["ins", "load", [], [["reg", 0, rng.choice(pool.r)],
                                                     ["entry", rng.choice(addrs), ["reg", 0, rng.choice(pool.r)]]]])
            if rng.random() < 0.5:
                prog.append(["ins", "ret_arr", [], [["addr", rng.choice(addrs)]]])
        elif m < 0.65:
            c = ["reg", 0, rng.choice(pool.r)]
            body = gen_exec_prog(rng, max_len=4, pool=pool, addrs=addrs, prelude=False, p_lit=p_lit)
            prog = [["lab", LOOP0], ["ins", "add", [], [c, c, ["lit", 1]]]] + body
            prog += [["ins", rng.choice(["blt", "bne"]), [], [c, ["lit", rng.randint(4, 6)], ["label", LOOP0]]]]
            if rng.random() < 0.5:
                prog.append(["ins", "ret_reg", [], [c]])
        else:
            prog = gen_exec_prog(rng, max_len=8, pool=pool, addrs=addrs, prelude=False, p_lit=p_lit)
        seq.append(prog)
    return seq


def gen_exec_prog(rng, max_len=14, pool=None, addrs=None, prelude=True, p_lit=None):
    """a well-shaped classical program (the instructions the source semantics
    gives a meaning to), literals in every value position incl. indices, labels
    anywhere incl. consecutive and after the last instruction, bounded loops"""
    pool = pool or RegPool(rng)
    p_lit = rng.choice([0.0, 0.3, 0.5, 0.8]) if p_lit is None else p_lit
    addrs = addrs or [0, 1, rng.choice([2, 2, 5, -1])]
    prog = []
    labels_fwd = []  # labels that must still be placed
    used_labels = set()

    def new_label():
        free = [l for l in LABELS if l not in used_labels]
        if not free:
            return None
        l = rng.choice(free)
        used_labels.add(l)
        return l

    def entry():
        return ["entry", rng.choice(addrs), pool.val(p_lit) if rng.random() < 0.8 else ["lit", rng.randint(-2, 5)]]

    if not prelude:
        pass
    elif rng.random() < 0.85:
        # define every register the program may read (random order)
        regs = [["reg", 0, i] for i in pool.r] + [["reg", b, i] for b, i in pool.other]
        rng.shuffle(regs)
        for r in regs:
            if rng.random() < 0.95:
                prog.append(["ins", "set", [], [r, ["lit", _lit(rng)]]])
    else:
        for _ in range(rng.randint(0, 5)):
            prog.append(["ins", "set", [], [pool.reg(), ["lit", _lit(rng)]]])
    # declare arrays (after the registers are defined)
    for a in (addrs[: rng.choice([0, 2, 3, 3, 3, 3])] if prelude else []):
        if rng.random() < 0.8:
            prog.append(["ins", "array", [], [["lit", rng.randint(4, 7)], ["addr", a]]])
        else:  # size from a register that was just given a small value (a huge size would exhaust memory)
            r = pool.reg()
            prog.append(["ins", "set", [], [r, ["lit", rng.randint(-1, 7)]]])
            prog.append(["ins", "array", [], [r, ["addr", a]]])
        if rng.random() < 0.6:
            for k in range(rng.randint(2, 4)):
                prog.append(["ins", "store", [], [pool.val(p_lit), ["entry", a, ["lit", k]]]])
    n = rng.randint(0, max_len)
    loop_open = None
    for _ in range(n):
        m = rng.random()
        if m < 0.12:
            prog.append(["ins", "set", [], [pool.reg(), ["lit", _lit(rng)]]])
        elif m < 0.3:
            prog.append(["ins", rng.choice(["add", "sub"]), [], [pool.reg(), pool.val(p_lit), pool.val(p_lit)]])
        elif m < 0.38:
            prog.append(["ins", rng.choice(["addm", "subm"]), [],
                         [pool.reg(), pool.val(p_lit), pool.val(p_lit),
                          ["lit", rng.randint(1, 7)] if rng.random() < 0.7 else pool.val(p_lit)]])
        elif m < 0.5:
            prog.append(["ins", "store", [], [pool.val(p_lit), entry()]])
        elif m < 0.6:
            prog.append(["ins", "load", [], [pool.reg(), entry()]])
        elif m < 0.64:
            prog.append(["ins", "undef", [], [entry()]])
        elif m < 0.66:
            prog.append(["ins", "lea", [], [pool.reg(), ["addr", rng.choice(addrs)]]])
        elif m < 0.68:
            prog.append(["ins", "wait_all", [], [slice_op(rng, pool, addrs, p_lit)]])
        elif m < 0.72:
            prog.append(["ins", "array", [], [["lit", rng.randint(-1, 6)], ["addr", rng.choice(addrs)]]])
        elif m < 0.76:
            prog.append(["ins", "ret_reg", [], [pool.reg()]])
        elif m < 0.8:
            prog.append(["ins", "ret_arr", [], [["addr", rng.choice(addrs)]]])
        elif m < 0.9:
            # forward branch to a label placed later
            l = new_label()
            if l is None:
                continue
            mn = rng.choice(list(BRANCH_POS))
            ops = [pool.val(p_lit) for _ in range(BRANCH_POS[mn])] + [["label", l]]
            prog.append(["ins", mn, [], ops])
            labels_fwd.append(l)
        elif m < 0.96 and loop_open is None:
            # counted loop: set c 0 ; L: ... ; add c c 1 ; blt c N L
            l = new_label()
            if l is None:
                continue
            c = pool.reg()
            prog.append(["ins", "set", [], [c, ["lit", 0]]])
            prog.append(["lab", l])
            loop_open = (l, c, rng.randint(1, 4))
        else:
            if labels_fwd and rng.random() < 0.7:
                prog.append(["lab", labels_fwd.pop(rng.randrange(len(labels_fwd)))])
            else:
                l = new_label()
                if l is not None:
                    prog.append(["lab", l])
        if loop_open is not None and rng.random() < 0.3:
            l, c, bound = loop_open
            prog.append(["ins", "add", [], [c, c, ["lit", 1] if rng.random() < 0.8 else ["lit", 2]]])
            prog.append(["ins", "blt", [], [c, ["lit", bound], ["label", l]]])
            loop_open = None
        if labels_fwd and rng.random() < 0.25:
            prog.append(["lab", labels_fwd.pop(rng.randrange(len(labels_fwd)))])
    if loop_open is not None:
        l, c, bound = loop_open
        prog.append(["ins", "add", [], [c, c, ["lit", 1]]])
        prog.append(["ins", "blt", [], [c, ["lit", bound], ["label", l]]])
    if rng.random() < 0.5:
        prog.append(["ins", "ret_reg", [], [pool.reg()]])
    if rng.random() < 0.4:
        prog.append(["ins", "ret_arr", [], [["addr", rng.choice(addrs)]]])
    # remaining forward labels: in the middle of what follows or after the last instruction
    for l in labels_fwd:
        prog.append(["lab", l])
    if rng.random() < 0.08:
        # backward jump without a counter (diverges unless a fault stops it)
        ls = [c[1] for c in prog if c[0] == "lab"]
        if ls:
            prog.append(["ins", "jmp", [], [["label", rng.choice(ls)]]])
    # move some leading literal operands into args (ICmd.args)
    for c in prog:
        if c[0] == "ins" and rng.random() < 0.15:
            while c[3] and c[3][0][0] == "lit" and rng.random() < 0.7:
                c[2].append(c[3].pop(0)[1])
    return prog


def gen_any_prog(rng, rows, max_len=10):
    """instructions of the whole flavour with operands by kind, literals in place of
    registers, wrong kinds, repeated and undefined labels, register pressure"""
    pool = RegPool(rng)
    p_lit = rng.choice([0.1, 0.4, 0.7])
    prog = []
    labels = rng.sample(LABELS, rng.randint(0, 3))
    wrong = rng.random() < 0.15
    for _ in range(rng.randint(0, max_len)):
        if labels and rng.random() < 0.2:
            prog.append(["lab", rng.choice(labels)] if rng.random() < 0.1 else ["lab", labels[0]])
            if prog[-1][1] == labels[0]:
                labels.append(labels.pop(0))
            continue
        row = rng.choice(rows)
        ops = []
        for j, k in enumerate(row["kinds"]):
            if k == "KReg":
                ops.append(pool.val(p_lit))
            elif k == "KImm":
                if BRANCH_POS.get(row["mnemonic"]) == j:
                    ops.append(["label", rng.choice(LABELS)] if rng.random() < 0.9 else ["lit", rng.randint(0, 6)])
                else:
                    ops.append(["lit", _lit(rng)] if rng.random() < 0.9 else pool.reg())
            elif k == "KAddr":
                ops.append(["addr", rng.randint(-1, 3)])
            elif k == "KEntry":
                ops.append(["entry", rng.randint(0, 3), pool.val(p_lit)])
            else:
                ops.append(["slice", rng.randint(0, 3), pool.val(p_lit), pool.val(p_lit)])
        if wrong and rng.random() < 0.3:
            m = rng.randrange(3)
            if m == 0 and ops:
                ops.pop()
            elif m == 1:
                ops.append(pool.val(p_lit))
            elif ops:
                ops[rng.randrange(len(ops))] = rng.choice([["addr", 1], ["label", "nolabel"], ["entry", 0, ["lit", 1]]])
        args = []
        if rng.random() < 0.2:
            while ops and ops[0][0] == "lit" and rng.random() < 0.7:
                args.append(ops.pop(0)[1])
        prog.append(["ins", row["mnemonic"], args, ops])
    # labels: define the used ones (mostly), sometimes twice, sometimes after the last instruction
    used = {o[1] for c in prog if c[0] == "ins" for o in c[3] if o[0] == "label"}
    defined = {c[1] for c in prog if c[0] == "lab"}
    for l in sorted(used - defined):
        if rng.random() < 0.93:
            prog.insert(rng.randint(0, len(prog)), ["lab", l])
    if prog and rng.random() < 0.05:
        ls = [c for c in prog if c[0] == "lab"]
        if ls:
            prog.insert(rng.randint(0, len(prog)), list(rng.choice(ls)))
    return prog


def shape_of(prog):
    """coverage features of a program"""
    f = set()
    prev_lab = False
    for i, c in enumerate(prog):
        if c[0] == "lab":
            if prev_lab:
                f.add("consecutive-labels")
            if i == len(prog) - 1:
                f.add("label-after-last")
            prev_lab = True
            continue
        prev_lab = False
        if c[2]:
            f.add("bracket-args")
        for j, o in enumerate(c[3]):
            if o[0] == "lit":
                f.add("literal-top")
            elif o[0] == "entry" and o[2][0] == "lit":
                f.add("literal-index")
            elif o[0] == "slice" and (o[2][0] == "lit" or o[3][0] == "lit"):
                f.add("literal-slice-bound")
            elif o[0] == "label":
                f.add("label-operand")
    nr = {(o[1], o[2]) for c in prog if c[0] == "ins" for o in c[3] if o[0] == "reg" and o[1] == 0}
    if len(nr) >= 14:
        f.add("register-pressure")
    return f


GATE_SHAPES = {"init": (1, 0), "x": (1, 0), "y": (1, 0), "z": (1, 0), "h": (1, 0), "s": (1, 0), "k": (1, 0), "t": (1, 0),
               "rot_x": (1, 2), "rot_y": (1, 2), "rot_z": (1, 2), "cnot": (2, 0), "cphase": (2, 0), "mov": (2, 0),
               "crot_x": (2, 2), "crot_y": (2, 2), "crot_z": (2, 2)}


def gen_q_prog(rng, rows, cap=5):
    """a program with non-classical instructions of the flavour (qalloc, init, gates, rotations, two-qubit gates,
    controlled rotations, meas, qfree) mixed with classical ones: qubit ids from Q registers or literals, branches
    on measurement outcomes, returns; EPR instructions are left out (they need a network stack)"""
    gates = [r["mnemonic"] for r in rows if r["mnemonic"] in GATE_SHAPES]
    qregs = [["reg", 2, i] for i in rng.sample(range(16), rng.randint(1, 3))]
    mregs = [["reg", 3, i] for i in rng.sample(range(16), rng.randint(1, 3))]
    rregs = [["reg", 0, i] for i in rng.sample(range(16), rng.randint(1, 4))]
    p_lit = rng.choice([0.0, 0.3, 0.6])
    prog = []

    def qv():
        return ["lit", rng.randint(0, cap)] if rng.random() < p_lit else rng.choice(qregs)

    ids = rng.sample(range(cap), len(qregs))
    for q, qid in zip(qregs, ids):
        if rng.random() < 0.95:
            prog.append(["ins", "set", [], [q, ["lit", qid if rng.random() < 0.93 else rng.randint(0, cap)]]])
    for r in rregs:
        if rng.random() < 0.8:
            prog.append(["ins", "set", [], [r, ["lit", rng.randint(0, 3)]]])
    for r in mregs:
        if rng.random() < 0.5:
            prog.append(["ins", "set", [], [r, ["lit", rng.randint(0, 1)]]])
    for q in qregs:
        if rng.random() < 0.92:
            prog.append(["ins", "qalloc", [], [q]])
            if rng.random() < 0.8:
                prog.append(["ins", "init", [], [q]])
    labels = []
    for _ in range(rng.randint(1, 10)):
        m = rng.random()
        if m < 0.5 and gates:
            mn = rng.choice(gates)
            nq, ni = GATE_SHAPES[mn]
            prog.append(["ins", mn, [], [qv() for _ in range(nq)] + [["lit", rng.randint(0, 15)] for _ in range(ni)]])
        elif m < 0.65:
            c = rng.choice(mregs)
            prog.append(["ins", "meas", [], [qv(), c]])
            if rng.random() < 0.5:
                l = "M%d" % len(labels)
                labels.append(l)
                prog.append(["ins", rng.choice(["bez", "bnz"]), [], [c, ["label", l]]])
        elif m < 0.68:
            prog.append(["ins", "qalloc", [], [qv()]])
        elif m < 0.72:
            prog.append(["ins", "qfree", [], [qv()]])
        elif m < 0.8:
            prog.append(["ins", "set", [], [rng.choice(rregs), ["lit", rng.randint(0, 3)]]])
        elif m < 0.88:
            prog.append(["ins", rng.choice(["add", "sub"]), [], [rng.choice(rregs), rng.choice(rregs + mregs),
                                                               ["lit", rng.randint(0, 3)]]])
        elif m < 0.94:
            prog.append(["ins", "ret_reg", [], [rng.choice(mregs + rregs)]])
        elif labels:
            prog.append(["lab", labels.pop(0)])
    for l in labels:
        prog.append(["lab", l])
    for c in mregs:
        if rng.random() < 0.5:
            prog.append(["ins", "ret_reg", [], [c]])
    for q in qregs:
        if rng.random() < 0.4:
            prog.append(["ins", "qfree", [], [q]])
    return prog


def with_repeats(rng, prog):
    """repeat some instructions that contain a literal later in the program (same operands), as loops unrolled by a
    caller or helper functions of an application do; with shared operand objects this is what exposes in-place
    rewriting by the assembler"""
    prog = [list(c) for c in prog]
    cand = [i for i, c in enumerate(prog) if c[0] == "ins" and c[1] not in ("array",) and not c[2]
            and any(o[0] == "lit" or (o[0] == "entry" and o[2][0] == "lit") or
                    (o[0] == "slice" and "lit" in (o[2][0], o[3][0])) for o in c[3])
            and not any(o[0] == "label" for o in c[3])]
    chosen = [prog[i] for i in rng.sample(cand, min(len(cand), rng.randint(1, 3)))]
    for c in chosen:
        i = next(k for k, x in enumerate(prog) if x is c)
        # never in front of an `array` whose size comes from a register (a repeated instruction could make it huge)
        ok = [j for j in range(i + 1, len(prog) + 1)
              if not (j < len(prog) and prog[j][0] == "ins" and prog[j][1] == "array" and prog[j][3][0][0] == "reg")]
        if ok:
            prog.insert(rng.choice(ok), ["ins", c[1], [], [o for o in c[3]]])
    return prog
