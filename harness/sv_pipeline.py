"""sv_pipeline — in-process SDK -> controller pipeline on a dense state vector.

  real SDK (Qubit, toolbox, Builder) -> real assembler/compiler -> bytes(Subroutine)
  -> deserialize_host_msg -> real QNodeController.handle_netqasm_message
  -> real Executor (subclass filling in only the documented quantum hooks)

Nothing of netqasm is re-implemented on the implementation side: the executor
subclass only supplies the physics (a numpy state vector), using gate matrices
from harness/qcommon.py (independent definitions), NOT netqasm's to_matrix().

Measurement outcomes are scripted (forced, with projection and the probability
of the forced outcome recorded) or sampled when the script is empty.
"""
import math
import random

import numpy as np

import qcommon as qc


class ImpossibleOutcome(Exception):
    """A forced measurement outcome has probability 0 in the current state."""


def make(repo_unused=None):
    """Import netqasm lazily (sys.path[0] is the repo under test) and build the classes."""
    from netqasm.backend.executor import Executor
    from netqasm.backend.messages import deserialize_host_msg
    from netqasm.backend.qnodeos import QNodeController
    from netqasm.lang.instr import core, nv, vanilla
    from netqasm.sdk.connection import BaseNetQASMConnection, DebugNetworkInfo
    from netqasm.sdk.shared_memory import SharedMemoryManager

    class SvExecutor(Executor):
        def __init__(self, *a, **kw):
            super().__init__(*a, **kw)
            self.state = np.array([1.0 + 0j])     # amplitudes; wire 0 = most significant bit
            self.wires = []                       # wire index -> physical position
            self.meas_script = []                 # forced outcomes, consumed in order
            self.meas_log = []                    # (physical pos, outcome, probability of that outcome)
            self.rng = random.Random(0)
            self.gate_log = []

        @property
        def node_id(self):
            return 0

        def _wait_to_handle_epr_responses(self):
            pass

        # ---- state handling
        def _wire(self, subroutine_id, address):
            pos = self._get_position(subroutine_id, address)   # raises if the virtual qubit is not allocated
            if pos not in self.wires:
                self.wires.append(pos)
                self.state = np.kron(self.state, np.array([1.0 + 0j, 0.0]))
            return self.wires.index(pos)

        def _apply(self, ws, G):
            n = len(self.wires)
            self.state = qc.embed(n, ws, G) @ self.state

        def _prob1(self, w):
            n = len(self.wires)
            idx = np.arange(len(self.state))
            mask = ((idx >> (n - 1 - w)) & 1) == 1
            return float(np.sum(np.abs(self.state[mask]) ** 2)), mask

        def _measure_wire(self, w, forced=None):
            p1, mask = self._prob1(w)
            if forced is None:
                b = 1 if self.rng.random() < p1 else 0
            else:
                b = forced
            p = p1 if b == 1 else 1 - p1
            if p < 1e-14:
                raise ImpossibleOutcome(f"forced measurement outcome {b} has probability {p}")
            keep = mask if b == 1 else ~mask
            st = np.where(keep, self.state, 0)
            self.state = st / math.sqrt(p)
            return b, p

        def _remove_wire(self, w):
            """Drop a wire that is in a computational basis state (measure first otherwise)."""
            p1, mask = self._prob1(w)
            if 1e-9 < p1 < 1 - 1e-9:
                self._measure_wire(w)
                p1, mask = self._prob1(w)
            keep = mask if p1 > 0.5 else ~mask
            self.state = self.state[keep]
            del self.wires[w]

        def set_state(self, positions, vec):
            """Harness hook: put the given physical positions (all current wires) into state vec."""
            assert sorted(positions) == sorted(self.wires) and len(vec) == 2 ** len(positions)
            self.wires = list(positions)
            self.state = np.array(vec, dtype=complex)

        def state_on(self, positions):
            """State vector with the wires permuted into the given order of physical positions."""
            assert sorted(positions) == sorted(self.wires), (positions, self.wires)
            n = len(self.wires)
            t = self.state.reshape([2] * n) if n else self.state
            perm = [self.wires.index(p) for p in positions]
            return np.transpose(t, perm).reshape(-1) if n else self.state

        # ---- the documented extension points
        def _do_single_qubit_instr(self, instr, subroutine_id, address):
            w = self._wire(subroutine_id, address)
            if isinstance(instr, core.InitInstruction):
                p1, _ = self._prob1(w)
                if p1 > 1e-12:
                    b, _ = self._measure_wire(w)
                    if b == 1:
                        self._apply([w], qc.SX)
                return None
            mn = instr.mnemonic.upper()
            if mn not in ("X", "Y", "Z", "H", "K", "S", "T"):
                raise RuntimeError(f"unknown single-qubit instruction {instr}")
            self.gate_log.append((mn, address))
            self._apply([w], qc.GATES[mn])
            return None

        def _do_single_qubit_rotation(self, instr, subroutine_id, address, angle):
            w = self._wire(subroutine_id, address)
            ax = {"rot_x": "x", "rot_y": "y", "rot_z": "z"}[instr.mnemonic]
            self.gate_log.append((instr.mnemonic, address, instr.angle_num.value, instr.angle_denom.value))
            self._apply([w], qc.rot_nd(ax, instr.angle_num.value, instr.angle_denom.value))
            return None

        def _do_controlled_qubit_rotation(self, instr, subroutine_id, address1, address2, angle):
            w1, w2 = self._wire(subroutine_id, address1), self._wire(subroutine_id, address2)
            ax = {"crot_x": "x", "crot_y": "y"}[instr.mnemonic]
            self.gate_log.append((instr.mnemonic, address1, address2, instr.angle_num.value, instr.angle_denom.value))
            self._apply([w1, w2], qc.crot_nd(ax, instr.angle_num.value, instr.angle_denom.value))
            return None

        def _do_two_qubit_instr(self, instr, subroutine_id, address1, address2):
            w1, w2 = self._wire(subroutine_id, address1), self._wire(subroutine_id, address2)
            mn = instr.mnemonic.upper()
            self.gate_log.append((mn, address1, address2))
            if mn in ("CNOT", "CPHASE"):
                self._apply([w1, w2], qc.GATES[mn])
            elif mn == "MOV":
                self._apply([w1, w2], qc.SWAP)
            else:
                raise RuntimeError(f"unknown two-qubit instruction {instr}")
            return None

        def _do_meas(self, subroutine_id, q_address):
            w = self._wire(subroutine_id, q_address)
            forced = self.meas_script.pop(0) if self.meas_script else None
            b, p = self._measure_wire(w, forced)
            self.meas_log.append((self.wires[w], b, p))
            return b

        def _clear_phys_qubit_in_memory(self, physical_address):
            if physical_address in self.wires:
                self._remove_wire(self.wires.index(physical_address))
            return None

    class SvController(QNodeController):
        @classmethod
        def _get_executor_class(cls, flavour=None):
            return SvExecutor

        def stop(self):
            pass

        def _mark_message_finished(self, msg_id, msg):
            pass

    class NetInfo(DebugNetworkInfo):
        pass

    class SvConnection(BaseNetQASMConnection):
        def __init__(self, ctrl, *a, **kw):
            self._ctrl = ctrl
            self._msg_id = 0
            self.raw_messages = []
            super().__init__(*a, node_name=ctrl.name, **kw)

        def _get_network_info(self):
            return NetInfo

        def _commit_serialized_message(self, raw_msg, block=True, callback=None):
            self.raw_messages.append(bytes(raw_msg))
            msg = deserialize_host_msg(raw_msg)
            self._msg_id += 1
            list(self._ctrl.handle_netqasm_message(self._msg_id, msg))

    def new_session(name="ctrl", max_qubits=5, flavour=None, compiler=None, hardware_config=None):
        SharedMemoryManager.reset_memories()
        BaseNetQASMConnection._app_ids.clear()
        ctrl = SvController(name, flavour=flavour) if flavour is not None else SvController(name)
        conn = SvConnection(ctrl, "app", max_qubits=max_qubits, compiler=compiler, hardware_config=hardware_config)
        return ctrl, conn

    class NS:
        pass

    ns = NS()
    ns.SvExecutor, ns.SvController, ns.SvConnection, ns.new_session = SvExecutor, SvController, SvConnection, new_session
    return ns
