"""C09 harness: host programs (op lists) run on the real SDK + real controller.

A program is a list of ops over host handles (numbered in creation order):
  ["new"] ["g1",h] ["g2",h1,h2] ["mi",h] ["md",h] ["free",h]
  ["keep",n,recv(,burst,bells)] ["ctx",n,recv(,body,bells)] ["flush"]
      burst: all OKs delivered at the first wait poll; bells: reported Bell state per pair (0 = Phi+);
      body: what the block / post routine does with its qubit (BODIES)
  ["seq",n,recv(,burst,bells,body)]   keep with sequential=True and a post routine; the n returned
                           handles are numbered like any others but are dead unless the body keeps
A configuration is (max_q, nv_hw, transp).

Session runs the ops one by one through sdk_pipeline.Pipeline (real Qubit /
MemoryManager / Builder -> bytes -> real Executor), records what the Coq model
QubitAgree.run predicts (ids of conn.active_qubits after every op; at a flush the
controller's alloc/free/use/pair-delivery trace, its allocated set, the fault) and
evaluates the property's oracle directly.
"""
import os

from sdk_pipeline import Pipeline, WaitDeadlock

KIND = {"NotAllocated": "NotAllocated", "AlreadyAllocated": "AlreadyAllocated",
        "OutOfRange": "OutOfRange", "EprBlocked": "EprBlocked"}


class Cfg:
    """max_q / nv_hw / transp are the model's configuration.  reserve0 is a choice of the
    environment (physical layout), invisible to the model: physical qubit 0 is the
    communication qubit owned by the link layer, local qalloc uses physical qubits 1.. ."""

    def __init__(self, max_q, nv_hw, transp, reserve0=False):
        self.max_q, self.nv_hw, self.transp = max_q, bool(nv_hw), bool(transp)
        self.reserve0 = bool(reserve0)

    @property
    def nv(self):
        return self.nv_hw or self.transp

    @property
    def single_comm(self):
        return self.nv or self.max_q == 1

    @property
    def budget(self):
        return self.max_q - 1 if self.nv else self.max_q

    def key(self):
        return (self.max_q, self.nv_hw, self.transp, self.reserve0)

    def to_json(self):
        return dict(max_q=self.max_q, nv_hw=self.nv_hw, transp=self.transp, reserve0=self.reserve0)

    @staticmethod
    def from_json(d):
        return Cfg(d["max_q"], d["nv_hw"], d["transp"], d.get("reserve0", False))

    def with_layout(self, reserve0):
        return Cfg(self.max_q, self.nv_hw, self.transp, reserve0)

    def coq(self):
        return f"(mkCfg {self.max_q} {str(self.nv_hw).lower()} {str(self.transp).lower()})"


def all_configs():
    out = []
    for n in range(1, 6):
        out.append(Cfg(n, False, False))
    for n in range(2, 7):
        out.append(Cfg(n, True, False))
        out.append(Cfg(n, True, True))
    for n in (3, 5):
        out.append(Cfg(n, False, True))  # generic config + NV compiler: the builder switches to NV
    return out


# ------------------------------------------------------------------ controller event recorder
def install_recorder(pipe, reserve0=False):
    """Subclass the live executor so that every access to the unit module is recorded.
    Fault kinds come from the exception classes, never from message text."""
    ex = pipe.executor
    base = type(ex)
    from netqasm.backend.executor import NotAllocatedError

    rec = dict(events=[], fault=None, blocked=[])

    class Recording(base):
        def _get_unused_physical_qubit(self):
            if not reserve0:
                return super()._get_unused_physical_qubit()
            # layout with a link-layer-owned communication qubit: local allocations use 1..
            p = 1
            while p in self._used_physical_qubit_addresses:
                p += 1
            self._used_physical_qubit_addresses.add(p)
            return p

        def _allocate_physical_qubit(self, subroutine_id, virtual_address, physical_address=None, *a, **k):
            try:
                r = super()._allocate_physical_qubit(subroutine_id, virtual_address, physical_address, *a, **k)
            except ValueError:
                rec["fault"] = rec["fault"] or ("OutOfRange", virtual_address)
                raise
            except RuntimeError:
                rec["fault"] = rec["fault"] or ("AlreadyAllocated", virtual_address)
                raise
            rec["events"].append(("alloc" if physical_address is None else "epr", virtual_address))
            return r

        def _free_physical_qubit(self, subroutine_id, address):
            try:
                yield from super()._free_physical_qubit(subroutine_id, address)
            except IndexError:
                rec["fault"] = rec["fault"] or ("OutOfRange", address)
                raise
            except RuntimeError:
                rec["fault"] = rec["fault"] or ("NotAllocated", address)
                raise
            rec["events"].append(("free", address))

        def _get_position(self, subroutine_id=None, address=0, app_id=None):
            try:
                r = super()._get_position(subroutine_id=subroutine_id, address=address, app_id=app_id)
            except IndexError:
                rec["fault"] = rec["fault"] or ("OutOfRange", address)
                raise
            except NotAllocatedError:
                rec["fault"] = rec["fault"] or ("NotAllocated", address)
                raise
            rec["events"].append(("use", address))
            return r

        def _handle_epr_ok_k_response(self, epr_cmd_data, response, pair_index):
            ok = super()._handle_epr_ok_k_response(epr_cmd_data, response, pair_index)
            if not ok:
                app_id = self._get_app_id(epr_cmd_data.subroutine_id)
                rec["blocked"].append(self._get_virtual_address_from_epr_data(epr_cmd_data, pair_index, app_id))
            return ok

    ex.__class__ = Recording
    # the response handlers were bound in __init__: bind them again through the subclass
    ex._epr_response_handlers = ex._get_epr_response_handlers()
    return rec


def canon_events(events, faulted):
    """merge consecutive uses into a sorted set; after a fault drop the trailing use group"""
    out, cur = [], None
    for k, v in events:
        if k == "use":
            cur = (cur or set()) | {v}
        else:
            if cur is not None:
                out.append(("use", sorted(cur)))
                cur = None
            out.append((k, v))
    if cur is not None and not faulted:
        out.append(("use", sorted(cur)))
    return out


# ------------------------------------------------------------------ session
class Session:
    def __init__(self, repo, cfg):
        self.cfg = cfg
        self.pipe = Pipeline(repo, max_qubits=cfg.max_q, hardware="nv" if cfg.nv_hw else "generic",
                             use_transpiler=cfg.transp)
        self.rec = install_recorder(self.pipe, cfg.reserve0)
        self.sock = self.pipe.epr_socket()
        self.conn = self.pipe.connection(epr_sockets=[self.sock])
        self.handles = []
        self.obs = []          # observations in the model's vocabulary
        self.problems = []     # oracle failures: (what, op index)
        self.ended = False
        self.refused = False
        self.phys = 100
        self.nops = 0
        self.relocations = 0   # building operations that changed the ID of an existing handle (NV)

    # host-observable state
    def ids(self):
        from netqasm.sdk.futures import BaseFuture

        out = []
        for q in self.conn.active_qubits:
            v = q.qubit_id
            out.append(999 if isinstance(v, BaseFuture) or not isinstance(v, int) else int(v))
        return out

    def hid(self, h):
        return self.handles[h].qubit_id

    def _responses(self, n, recv, burst=False, bells=None):
        """Script the n OKs of one request.  Each is created when the environment delivers it
        (a callable for the pipeline).  fresh_delivery: it names a physical qubit that is not
        mapped: physical qubit 0 when that is free and the OK is the first of its poll with
        nothing held back (so it is handled at once), else a never-used one.  bells: the
        Bell state reported per pair (BellState values 0..3, default PHI_PLUS = 0); the
        receiver's correction gates run for the others.  burst: all n OKs are delivered at the first wait poll (the
        controller holds back those whose virtual ID is still in use); else one per poll."""
        from netqasm.qlink_compat import BellState, LinkLayerOKTypeK, ReturnType

        def make(ex, i, first):
            if first and 0 not in ex._used_physical_qubit_addresses and not ex._pending_epr_responses:
                phys = 0
            else:
                phys = self.phys
                self.phys += 1
            bs = BellState(bells[i]) if bells and i < len(bells) else BellState.PHI_PLUS
            return LinkLayerOKTypeK(ReturnType.OK_K, 0, phys, 1 if recv else 0, i, 0, 1, 0, 0, bs)

        if burst and n >= 2:
            def deliver_all(ex):
                for i in range(n - 1):
                    ex._handle_epr_response(make(ex, i, i == 0))
                return make(ex, n - 1, False)

            self.pipe.responses.append(deliver_all)
        else:
            for i in range(n):
                self.pipe.responses.append(lambda ex, i=i: make(ex, i, True))

    def apply(self, op):
        assert not self.ended
        idx = self.nops
        self.nops += 1
        k = op[0]
        if k == "flush":
            return self._flush(idx)
        from netqasm.sdk.qubit import Qubit

        before_ids = [q.qubit_id if q is not None else None for q in self.handles]
        try:
            if k == "new":
                self.handles.append(Qubit(self.conn))
            elif k == "g1":
                q = self.handles[op[1]]
                (q.H, q.X, q.Z, q.T)[idx % 4]()
            elif k == "g2":
                a, b = self.handles[op[1]], self.handles[op[2]]
                (a.cnot if idx % 2 == 0 else a.cphase)(b)
            elif k == "mi":
                self.handles[op[1]].measure(inplace=True)
            elif k == "md":
                self.handles[op[1]].measure()
            elif k == "free":
                self.handles[op[1]].free()
            elif k == "keep":
                n, recv, burst, bells, sq = keep_fields(op)
                f = self.sock.recv_keep if recv else self.sock.create_keep
                qs = f(number=n, sequential=sq)
                self._responses(n, recv, burst=burst, bells=bells)
                self.handles += list(qs)
            elif k == "seq":
                n, recv, burst, bells, body, sq = seq_fields(op)

                def post(_builder, q, _pair):
                    run_body(q, body)

                f = self.sock.recv_keep if recv else self.sock.create_keep
                qs = f(number=n, sequential=sq, post_routine=post)
                self._responses(n, recv, burst=burst, bells=bells)
                self.handles += list(qs)
            elif k == "ctx":
                n, recv, body, bells = ctx_fields(op)
                self._responses(n, recv, bells=bells)
                cm = self.sock.recv_context(number=n) if recv else self.sock.create_context(number=n)
                known = {id(q) for q in self.conn.active_qubits}
                with cm as (q, pair):
                    run_body(q, body)
                if body == "keep":
                    # the pairs stay in memory; the handles that hold their IDs are the active
                    # qubits that appeared during the block: the host may go on using them.  If
                    # the SDK lists fewer than n, the missing ones are dead placeholders (None):
                    # the host cannot address them, and the next flush shows the disagreement
                    fresh = [q for q in self.conn.active_qubits if id(q) not in known][:n]
                    self.handles += fresh + [None] * (n - len(fresh))
            else:
                raise KeyError(k)
        except (AssertionError, ValueError) as e:
            self.obs.append(("reject",))
            self.ended = self.refused = True
            self.refusal = (idx, type(e).__name__)
            if not (isinstance(e, ValueError) and refusal_expected(self.cfg, None, op)):
                self.problems.append((f"the SDK refused operation {list(op)} of a within-budget program "
                                      f"({type(e).__name__})", idx))
            return self.obs[-1]
        except Exception as e:  # anything else is outside what the SDK may do to a live handle
            self.obs.append(("exc", type(e).__name__))
            self.problems.append((f"the SDK raised {type(e).__name__} on operation {op}", idx))
            self.ended = True
            return self.obs[-1]
        if any(q is not None and q.qubit_id != v for q, v in zip(self.handles, before_ids)):
            self.relocations += 1
        self.obs.append(("step", self.ids()))
        return self.obs[-1]

    def _flush(self, idx):
        self.rec["events"].clear()
        self.rec["blocked"].clear()
        self.rec["fault"] = None
        flt = None
        try:
            self.conn.flush()
        except WaitDeadlock as e:
            if self.rec["blocked"]:
                flt = ("EprBlocked", self.rec["blocked"][0])
            else:
                flt = ("Other:" + type(e).__name__, 0)
        except Exception as e:
            flt = self.rec["fault"] or ("Other:" + type(e).__name__, 0)
        ids = self.ids()
        alloc = self.pipe.allocated()
        self.obs.append(("flush", ids, canon_events(self.rec["events"], flt is not None), alloc, flt))
        if flt is not None:
            self.ended = True
            self.problems.append((f"flush faults: {flt[0]} at virtual qubit {flt[1]}", idx))
        else:
            if sorted(ids) != alloc:
                self.problems.append((f"after flush active_qubits ids {ids} != allocated {alloc}", idx))
            if len(set(ids)) != len(ids):
                self.problems.append((f"after flush duplicate ids {ids}", idx))
            if len(ids) > self.cfg.budget:
                self.problems.append((f"after flush {len(ids)} active qubits > budget {self.cfg.budget}", idx))
        return self.obs[-1]


BODIES = ("md", "free", "mi_free", "h_free", "keep")


def run_body(q, body):
    """what an EPR block / post routine does with its qubit"""
    if body == "md":
        q.H()
        q.measure()
    elif body == "free":
        q.free()
    elif body == "mi_free":
        q.measure(inplace=True)
        q.free()
    elif body == "h_free":
        q.H()
        q.free()
    elif body == "keep":
        q.H()
    else:
        raise KeyError(body)


def keep_fields(op):   # ["keep", n, recv, burst=False, bells=None, sequential=False]   (no post routine)
    return (op[1], op[2], (op[3] if len(op) > 3 else False), (op[4] if len(op) > 4 else None),
            (op[5] if len(op) > 5 else False))


def seq_fields(op):    # ["seq", n, recv, burst=False, bells=None, body="md", sequential=True]   (with a post routine)
    return (op[1], op[2], (op[3] if len(op) > 3 else False), (op[4] if len(op) > 4 else None),
            (op[5] if len(op) > 5 else "md"), (op[6] if len(op) > 6 else True))


def ctx_fields(op):    # ["ctx", n, recv, body="md", bells=None]
    return op[1], op[2], (op[3] if len(op) > 3 else "md"), (op[4] if len(op) > 4 else None)


def run_program(repo, cfg, ops):
    s = Session(repo, cfg)
    for op in ops:
        if s.ended:
            break
        s.apply(op)
    return s


# ------------------------------------------------------------------ input classes
def refusal_expected(cfg, s_ids, op):
    """the only refusal a within-budget host may see: misuse of the API — sequential=True
    for more than one pair without a post routine (ValueError)"""
    return op[0] == "keep" and keep_fields(op)[4] and op[1] >= 2


def class_key(cfg, s, op):
    """key of the recorded finding class an op belongs to (host-observable condition), or None.
    No class is recorded at present: every defect found so far is repaired."""
    return None


# ------------------------------------------------------------------ generation (adaptive on host-observable state)
def gen_program(repo, cfg, rng, max_len, want_refusal=False):
    """Generate and run a within-budget program outside the recorded classes.  Returns (ops, session)."""
    s = Session(repo, cfg)
    live = []        # host accounting of live handles
    nh = 0
    ops = []
    n_ops = rng.randint(3, max_len)
    while len(ops) < n_ops and not s.ended:
        room = cfg.budget - len(live)
        cand = [(("flush",), 3.0)]
        if room >= 1:
            cand.append((("new",), 4.0))
            def bells(n):
                return [0 if rng.random() < 0.35 else rng.randint(1, 3) for _ in range(n)]

            for n in range(1, min(3, room) + 1):
                # sequential without a post routine: one pair is accepted, more are refused (ValueError)
                sq = rng.random() < (0.3 if n == 1 else (0.04 if want_refusal else 0.0))
                op = ("keep", n, rng.random() < 0.5, rng.random() < 0.5, bells(n), sq)
                cand.append((op, 1.2 / n))   # (sq with n > 1 is refused: only drawn with want_refusal)
                body = rng.choice(BODIES)
                if body == "keep" and cfg.single_comm and n > 1:
                    body = "free"
                cand.append((("ctx", n, rng.random() < 0.5, body, bells(n)), 0.8 / n))
            # keep with a post routine, sequential or not (the API accepts both)
            sq = rng.random() < 0.5
            ns = rng.randint(1, 3) if sq else rng.randint(1, min(3, room))
            body = rng.choice(BODIES)
            own_ids = not sq and not cfg.single_comm      # every pair has its own ID
            if body == "keep" and ns > 1 and not own_ids:
                body = "mi_free"
            burst = rng.random() < 0.5 and not own_ids     # own IDs: the trace depends on the schedule
            cand.append((("seq", ns, rng.random() < 0.5, burst, bells(ns), body, sq), 1.0))
        if live:
            h = rng.choice(live)
            cand += [(("g1", h), 2.0), (("mi", h), 1.5), (("md", h), 3.0), (("free", h), 2.0)]
        if len(live) >= 2:
            h1, h2 = rng.sample(live, 2)
            op = ("g2", h1, h2)
            if class_key(cfg, s, op) is None:
                cand.append((op, 2.5))
        tot = sum(w for _, w in cand)
        x = rng.random() * tot
        for op, w in cand:
            x -= w
            if x <= 0:
                break
        ops.append(list(op))
        before = len(s.handles)
        s.apply(op)
        if s.ended:
            break
        if op[0] == "new":
            live.append(nh)
            nh += 1
        elif op[0] == "keep":
            live += list(range(nh, nh + op[1]))
            nh += op[1]
        elif op[0] == "seq":
            if op[5] == "keep":
                live += list(range(nh, nh + op[1]))  # pairs that the post routine kept
            nh += op[1]          # else: handles handed out, already consumed by the post routine
        elif op[0] == "ctx" and op[3] == "keep":
            # (a handle the SDK does not list is a dead placeholder)
            live += [h for h in range(nh, nh + op[1]) if s.handles[h] is not None]
            nh += op[1]
        elif op[0] in ("md", "free"):
            live.remove(op[1])
        if len(s.handles) != nh:   # the SDK handed out a different number of handles than pairs
            s.problems.append((f"operation {list(op)} handed out {len(s.handles) - before} handles", len(ops) - 1))
            break
    if not s.ended:
        ops.append(["flush"])
        s.apply(("flush",))
    return ops, s


def enumerate_programs(cfg, depth):
    """all within-budget programs of exactly `depth` ops from a reduced alphabet (host accounting only);
    yields op lists (a final flush is appended by the caller)"""
    def rec(prefix, live, nh, d):
        if d == 0:
            yield prefix
            return
        room = cfg.budget - len(live)
        nxt = [(["flush"], live, nh)]
        if room >= 1:
            nxt.append((["new"], live + [nh], nh + 1))
            nxt.append((["keep", 1, True, False, [1]], live + [nh], nh + 1))
            nxt.append((["ctx", 1, True, "free", [2]], live, nh))
            nxt.append((["ctx", 1, False, "keep"], live + [nh], nh + 1))
            nxt.append((["seq", 2, True, True, [3, 1], "mi_free", True], live, nh + 2))
            if room >= 2:
                nxt.append((["seq", 2, False, False, [0, 2], "free", False], live, nh + 2))
            if room >= 2:
                nxt.append((["keep", 2, True, True, [2, 3]], live + [nh, nh + 1], nh + 2))   # both OKs at the first poll
                nxt.append((["ctx", 2, False, "h_free"], live, nh))
        for h in live:
            nxt.append((["mi", h], live, nh))
            nxt.append((["md", h], [x for x in live if x != h], nh))
            nxt.append((["free", h], [x for x in live if x != h], nh))
        if len(live) >= 2:
            nxt.append((["g2", live[0], live[-1]], live, nh))
        for op, lv, n2 in nxt:
            yield from rec(prefix + [op], lv, n2, d - 1)

    yield from rec([], [], 0, depth)


# ------------------------------------------------------------------ Coq emission
def coq_list(xs):
    return "[" + "; ".join(xs) + "]"


def coq_op(op):
    k = op[0]
    if k == "new":
        return "NewQubit"
    if k == "flush":
        return "Flush"
    if k == "g1":
        return f"Gate1 {op[1]}"
    if k == "g2":
        return f"Gate2 {op[1]} {op[2]}"
    if k == "mi":
        return f"MeasureInplace {op[1]}"
    if k == "md":
        return f"MeasureDestructive {op[1]}"
    if k == "free":
        return f"Free {op[1]}"
    if k == "keep":
        n, recv, _, bells, sq = keep_fields(op)
        return f"EprKeep {n} {str(bool(recv)).lower()} {str(bool(sq)).lower()} {coq_nonphi(bells)}"
    if k == "ctx":
        n, recv, body, _ = ctx_fields(op)
        return f"EprContext {n} {str(bool(recv)).lower()} {coq_body(body)}"
    if k == "seq":
        n, recv, _, bells, body, sq = seq_fields(op)
        return f"EprKeepSeq {n} {str(bool(recv)).lower()} {str(bool(sq)).lower()} {coq_nonphi(bells)} {coq_body(body)}"
    raise KeyError(k)


def coq_nonphi(bells):
    return coq_list("true" if b != 0 else "false" for b in (bells or []))


def coq_body(body):
    return {"md": "(BConsume true)", "mi_free": "(BConsume true)", "h_free": "(BConsume true)",
            "free": "(BConsume false)", "keep": "BKeep"}[body]


def coq_nats(xs):
    return coq_list(str(int(x)) for x in xs)


def coq_cev(e):
    k, v = e
    if k == "use":
        return f"CUse {coq_nats(v)}"
    return {"alloc": "CAlloc", "free": "CFree", "epr": "CEpr"}[k] + f" {v}"


def coq_obs(o):
    if o[0] == "step":
        return f"OStep {coq_nats(o[1])}"
    if o[0] == "reject":
        return "OReject"
    if o[0] == "exc":
        return "OModelErr"   # never equal to a model observation: a guaranteed mismatch
    _, ids, evs, alloc, flt = o
    if flt is None:
        f = "None"
    elif flt[0] in KIND:
        f = f"(Some ({flt[0]}, {flt[1]}))"
    else:
        return "OModelErr"
    return f"OFlush {coq_nats(ids)} {coq_list(coq_cev(e) for e in evs)} {coq_nats(alloc)} {f}"


def coq_case(cfg, ops, obs):
    return f"mkCase {cfg.coq()} {coq_list(coq_op(o) for o in ops)} {coq_list(coq_obs(o) for o in obs)}"


CASE_HEADER = """From Coq Require Import List Arith Bool.
From NQ Require Import Sdk.QubitAgree Sdk.QubitAgreeCheck.
Import ListNotations.
"""


def write_case_file(path, cases):
    with open(path, "w") as f:
        f.write(CASE_HEADER)
        f.write("Definition cases : list case :=\n [" + ";\n  ".join(cases) + "].\n")
        f.write("Eval vm_compute in (failing cases).\n")


def parse_failing(out):
    import re

    m = re.search(r"=\s*(\[[^\]]*\]|nil)\s*:\s*list nat", out.replace("\n", " "))
    if not m:
        return None
    return [int(x) for x in re.findall(r"\d+", m.group(1))]


def model_output(ctx, cfg, ops, name="dbg"):
    """what the model predicts for one program (for mismatch reports)"""
    path = os.path.join(ctx.build, f"{name}.v")
    with open(path, "w") as f:
        f.write(CASE_HEADER)
        f.write(f"Eval vm_compute in (run0 {cfg.coq()} {coq_list(coq_op(o) for o in ops)}).\n")
    r = ctx.coqc(f"{name}.v", timeout=120)
    return " ".join(r.out.split())[:1500] if r.ok else "coqc failed: " + r.err[-300:]
