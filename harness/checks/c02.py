"""C02 — wire format follows the fixed 7-byte NetQASM command layout."""
import codec_common as cc
import ref_encoder as ref


def mn_of(impl, fname, clsname):
    return impl.rows[fname][clsname]["mnemonic"]


def oracle(ctx, impl, case):
    fname, v0, v1, app, body, tag = case
    res = impl.run_ecase(fname, v0, v1, app, body)
    if res["bytes"] is None:
        return None
    try:
        want = ref.encode_sub(fname, v0, v1, app, [(mn_of(impl, fname, n), lv) for n, lv in body])
    except KeyError as e:
        # an instruction the published table does not contain: no reference bytes
        return None
    if want != res["bytes"]:
        return dict(flavour=fname, version=[v0, v1], app_id=app, body=body, got=res["bytes"], reference=want)
    return None


def run(ctx):
    ctx.rule = ("per flavour: every class x (pairwise-distinct operand pattern, so that swapped fields or a changed "
                "bit packing show) x each leaf at its boundary values + random in-range sequences; bytes compared "
                "with an independent reference encoder (harness/ref_encoder.py) and with the Coq reference layout")
    impl = cc.prepare(ctx)
    if impl is None:
        return ctx.finish()
    ctx.props("C02")
    n_seq = 120 if ctx.tier == "quick" else 5000
    cases = cc.gen_sequences(ctx, impl, n_seq, 30)
    cases += cc.published_boundary_cases(impl)
    def reference(fname, v0, v1, app, body):
        try:
            return ref.encode_sub(fname, v0, v1, app, [(mn_of(impl, fname, n), lv) for n, lv in body])
        except KeyError:
            return None
    hists = cc.gen_histories(ctx, impl, 40 if ctx.tier == "quick" else 1500)
    cases += cc.run_histories(ctx, impl, hists, reference=reference)
    ctx.samples = [dict(flavour=c[0], version=[c[1], c[2]], app_id=c[3], body=c[4]) for c in cases[:2] + cases[-2:]]
    nbad = 0
    for c in cases:
        bad = oracle(ctx, impl, c)
        if bad is not None:
            nbad += 1
            if nbad <= 20:
                ctx.violation("bytes(Subroutine) differ from the reference encoding", bad, key=None)
    # decode side too: malformed byte strings first (a decoder that keeps state across calls is poisoned by them),
    # then the round-trip oracle on every case
    dcases = cc.gen_dcases(ctx, impl, 60 if ctx.tier == "quick" else 1500)
    for fname, raw in dcases[: len(dcases) // 2]:
        impl.run_dcase(fname, raw)
    mism = cc.correspond(ctx, impl, cases, dcases, oracle=True)
    if mism and not ctx.violations:
        ctx.broken.append(f"correspondence Codec.encode_sub vs bytes(Subroutine): {len(mism)} differing cases, "
                          f"first: {str(mism[0])[:300]}")
    ctx.trusted.append("coq/Lang/RefSpec.v and harness/ref_encoder.py: the frozen reference table/layout "
                       "(this repository's table at the pinned commit, vanilla mov = 42)")
    ctx.finish()


def replay(ctx, path):
    import json
    rec = json.load(open(path))["replay"]
    impl = cc.prepare(ctx)
    bad = oracle(ctx, impl, (rec["flavour"], rec["version"][0], rec["version"][1], rec["app_id"],
                             [(n, lv) for n, lv in rec["body"]], "replay"))
    print("replay:", bad)
    if bad:
        ctx.violation("bytes differ from reference", bad)
    ctx.finish()
