"""C09 — SDK and controller agree on which virtual qubits exist."""
import glob
import json
import os
import subprocess

import qubit_agree as qa

FINDINGS = {}   # every recorded input class is repaired; the former witnesses are in corpus/C09/


def run_keyed(repo, cfg, ops):
    """run a fixed program; returns (session, key): key = recorded class of the first in-class op
    if the first oracle failure comes after it, else None"""
    s = qa.Session(repo, cfg)
    seen = None
    for i, op in enumerate(ops):
        if s.ended:
            break
        if seen is None and op[0] != "flush":
            try:
                k = qa.class_key(cfg, s, op)
            except Exception:
                k = None
            if k:
                seen = (i, k)
        s.apply(op)
    key = None
    if s.problems and seen and s.problems[0][1] > seen[0]:
        key = seen[1]
    return s, key


def replay_dict(cfg, ops, s):
    return dict(cfg=cfg.to_json(), ops=[list(o) for o in ops], problems=[p[0] for p in s.problems],
                failing_op_index=s.problems[0][1] if s.problems else None,
                observations=[list(o) for o in s.obs[-3:]],
                how="harness/qubit_agree.py: run_program(repo, Cfg(**cfg), ops); ops address handles in creation order")


def shrink(repo, cfg, ops):
    """keep the prefix up to the first failure; then drop ops that create no handle while it still fails"""
    s = qa.run_program(repo, cfg, ops)
    if not s.problems:
        return ops
    ops = [list(o) for o in ops[: s.problems[0][1] + 1]]
    changed = True
    while changed:
        changed = False
        for i in range(len(ops) - 1):
            if ops[i][0] in ("g1", "g2", "mi", "flush"):
                cand = ops[:i] + ops[i + 1:]
                try:
                    t = qa.run_program(repo, cfg, cand)
                except Exception:
                    continue
                if t.problems:
                    ops = cand[: t.problems[0][1] + 1]
                    changed = True
                    break
    return ops


def report(ctx, cfg, ops, s, key=None, do_shrink=True):
    if do_shrink and key is None and len(ctx.violations) < 4:
        try:
            small = shrink(ctx.repo, cfg, ops)
            t = qa.run_program(ctx.repo, cfg, small)
            if t.problems:
                ops, s = small, t
        except Exception:
            pass
    ctx.violation("; ".join(p[0] for p in s.problems[:2]), replay_dict(cfg, ops, s), key=key)


def correspond(ctx, runs, tag):
    """runs: [(cfg, ops, session)].  The Coq model must predict every observation."""
    files, chunks = [], []
    per = 300
    for j in range(0, len(runs), per):
        chunk = runs[j:j + per]
        name = f"cases_{tag}_{j // per}.v"
        qa.write_case_file(os.path.join(ctx.build, name), [qa.coq_case(c, o, s.obs) for c, o, s in chunk])
        files.append(name)
        chunks.append(chunk)
    res = ctx.run_case_files(files, timeout=900)
    mism = []
    for name, chunk in zip(files, chunks):
        r = res[name]
        idx = qa.parse_failing(r.out) if r.ok else None
        if idx is None:
            ctx.broken.append(f"correspondence file {name} did not evaluate: {r.err.strip()[-300:]}")
            continue
        for i in idx:
            mism.append(chunk[i])
    return mism


def run(ctx):
    quick = ctx.tier == "quick"
    ctx.rule = ("host programs over handles (new, 1- and 2-qubit gates, measure in place / destructively, free, "
                "create/recv keep of 1..3 pairs (OKs delivered one per wait poll or all at the first), keep of 1..3 pairs with a post routine (sequential or not), sequential keep without routine, create/recv EPR context of 1..3 pairs (block / routine: H+measure, free, measure in place+free, H+free, keep), Bell state per pair drawn from all four, "
                "flush) generated op by op while running on the real SDK so that the host never exceeds the budget "
                "(max_qubits, minus one on NV) and only addresses live handles; 19 configurations x 2 physical layouts (lowest unused physical qubit / physical qubit 0 owned by the link layer): generic 1..5, "
                "NV 2..6 without and with the NV transpiler, generic config + NV compiler 3 and 5; plus every "
                "program of a reduced alphabet up to a fixed depth on small configurations; plus corpus and finding "
                "witnesses.  A case is non-trivial if at least one flush executed an allocation, release, pair "
                "delivery or gate; distinct = distinct (configuration, op list).")
    ctx.trusted += [
        "harness/sdk_pipeline.py (in-process connection/controller; scripted link layer)",
        "harness/qubit_agree.py (op interpreter on the real SDK; executor subclass recording every access to the "
        "unit module; canonicalisation: consecutive uses merged into a set, fault kind from the exception class)",
        "Coq evaluation of the model by vm_compute inside generated case files (no extraction)",
    ]
    ctx.assume += [
        "environment contract fresh_delivery: a delivered pair names a physical qubit that is not mapped (physical "
        "qubit 0 whenever that is free and the OK will be handled at once, else a never-used one); responses arrive in "
        "request order, one per wait poll or all OKs of a request at its first poll (the controller holds back an OK "
        "whose virtual ID is in use and retries at the next poll); OKs are not delivered before their request was "
        "issued; each pair is reported in any of the four Bell states (the receiver's correction gates are uses of virtual qubits)",
        "modelled, not verified: instructions are abstracted to the events that touch the unit module (qalloc, qfree, "
        "pair delivery, gate/init/meas/mov operands); registers, arrays and branches are the object of C05/C14",
        "EPR operations covered: create_keep/recv_keep with every combination of sequential and post_routine the "
        "API accepts; create_context/recv_context; blocks / routines handle "
        "its qubit in one of five ways: H+measure, free, measure in place+free, H+free, H and keep (keep: one pair, "
        "or several pairs on hardware with several communication qubits).  Not covered: "
        "measure-directly and remote-state-preparation requests, min_fidelity_all_at_end retry loops, operations "
        "inside an EPR block other than on the block's qubit, handles used after they were measured or freed",
        "the only SDK refusal of a generated program is API misuse (sequential=True for several pairs without a post "
        "routine: ValueError); it is modelled (OReject), excluded by within_budget, and counted in the evidence; any "
        "other refusal (e.g. an AssertionError while building) is an oracle failure",
    ]
    res = ctx.props("C09")
    repo = ctx.repo
    rng = ctx.rng
    runs = []
    cov_ops, cov_cfg, cov_len, cov_flush = {}, {}, {}, {}
    stats = dict(programs=0, flushes=0, refusals=0, relocations=0, corpus=0, exhaustive=0)

    def account(cfg, ops, s, nontrivial=None):
        stats["programs"] += 1
        stats["refusals"] += 1 if s.refused else 0
        for o in ops:
            cov_ops[o[0]] = cov_ops.get(o[0], 0) + 1
        ck = f"{'nv' if cfg.nv_hw else 'generic'}{'+transpiler' if cfg.transp else ''}/{cfg.max_q}{'/phys0-reserved' if cfg.reserve0 else ''}"
        cov_cfg[ck] = cov_cfg.get(ck, 0) + 1
        b = min(len(ops) // 10 * 10, 40)
        cov_len[f"{b}-{b + 9}"] = cov_len.get(f"{b}-{b + 9}", 0) + 1
        fl = [o for o in s.obs if o[0] == "flush"]
        stats["flushes"] += len(fl)
        stats["relocations"] += s.relocations
        nt = any(o[2] for o in fl)
        ctx.note_case((cfg.key(), json.dumps(ops)), nt)

    # 1. corpus (witnesses of repaired defects and earlier violations): oracle + correspondence
    for path in sorted(glob.glob(os.path.join(os.path.dirname(__file__), "..", "..", "corpus", "C09", "*.json"))):
        rec = json.load(open(path))
        cfg = qa.Cfg.from_json(rec["cfg"])
        s, key = run_keyed(repo, cfg, rec["ops"])
        stats["corpus"] += 1
        account(cfg, rec["ops"], s)
        runs.append((cfg, rec["ops"], s))
        if s.problems:
            report(ctx, cfg, rec["ops"], s, key=key, do_shrink=False)

    # 2. recorded findings: replay each witness through the oracle
    for key, w in FINDINGS.items():
        cfg = qa.Cfg.from_json(w["cfg"])
        s, k = run_keyed(repo, cfg, w["ops"])
        account(cfg, w["ops"], s)
        runs.append((cfg, w["ops"], s))
        if s.problems:
            report(ctx, cfg, w["ops"], s, key=k, do_shrink=False)   # k is None if it fails elsewhere

    # 3. generated programs, every configuration
    cfgs = qa.all_configs()
    n_rand = 1500 if quick else 2800
    for i in range(n_rand):
        cfg = cfgs[i % len(cfgs)].with_layout((i // len(cfgs)) % 2 == 1)
        ops, s = qa.gen_program(repo, cfg, rng, 12 if i % 3 == 0 else 36, want_refusal=(i % 6 == 0))
        account(cfg, ops, s)
        runs.append((cfg, ops, s))
        if s.problems:
            report(ctx, cfg, ops, s)
            if len(ctx.violations) > 60:
                break
    # 4. exhaustive small programs
    depth = 3 if quick else 4
    ex_cfgs = [(c, depth) for c in (qa.Cfg(2, False, False), qa.Cfg(3, True, False, True), qa.Cfg(3, True, True))]
    if not quick:
        ex_cfgs += [(qa.Cfg(1, False, False), 4), (qa.Cfg(4, True, True), 3), (qa.Cfg(3, False, False, True), 3)]
    for cfg, dmax in ex_cfgs:
        for d in range(1, dmax + 1):
            for ops in qa.enumerate_programs(cfg, d):
                ops = [list(o) for o in ops] + [["flush"]]
                s, key = run_keyed(repo, cfg, ops)
                if key is not None:
                    continue   # inside a recorded class: covered by its witness
                stats["exhaustive"] += 1
                account(cfg, ops, s)
                runs.append((cfg, ops, s))
                if s.problems:
                    report(ctx, cfg, ops, s)
            if len(ctx.violations) > 60:
                break
    ctx.log(f"ran {stats['programs']} programs ({stats['flushes']} flushes, {stats['refusals']} SDK refusals), "
            f"oracle failures {len(ctx.violations)}")

    # 5. correspondence with the Coq model
    mism = correspond(ctx, runs, "m") if res.ok else []
    ctx.coverage.update(op_kinds=cov_ops, configurations=cov_cfg, program_lengths=cov_len, stats=stats,
                        correspondence_cases=len(runs), correspondence_mismatches=len(mism))
    ctx.samples = [dict(cfg=c.to_json(), ops=o, last_observation=list(s.obs[-1]) if s.obs else None)
                   for c, o, s in (runs[len(FINDINGS) + stats["corpus"]:][:3] + runs[-2:])]
    if mism:
        cfg, ops, s = mism[0]
        ctx.broken.append(f"correspondence QubitAgree.run vs real SDK/controller: {len(mism)} of {len(runs)} programs "
                          f"differ; first: cfg={cfg.to_json()} ops={ops} implementation={s.obs[-2:]} "
                          f"model={qa.model_output(ctx, cfg, ops)[:600]}")
        ctx.log(ctx.broken[-1][:900])
    if ctx.broken and not any(v["key"] is None for v in ctx.violations):
        search(ctx, mism)
    if not quick:
        coqchk(ctx)
    if ctx.broken and not any(v["key"] is None for v in ctx.violations):
        # vlib.finish() adds the no-failing-input-found violation only when NO violation at all was
        # recorded; the replayed finding witnesses are recorded (keyed) violations, so add it here
        first = None
        if mism:
            c0, o0, s0 = mism[0]
            first = dict(cfg=c0.to_json(), ops=o0, implementation=[list(x) for x in s0.obs])
        ctx.violation("obligation no longer checks: " + "; ".join(ctx.broken)[:1500],
                      dict(broken=ctx.broken, first_mismatch=first), key=None, found_input=False)
    ctx.finish()


def search(ctx, mism):
    """something no longer checks but the oracle saw nothing: look harder for a failing program —
    first around the mismatching programs (their prefixes followed by a flush), then a larger stream"""
    repo = ctx.repo
    for cfg, ops, _ in mism[:40]:
        for cut in range(1, len(ops) + 1):
            cand = [list(o) for o in ops[:cut]] + [["flush"]]   # a prefix stays within the budget
            try:
                s, key = run_keyed(repo, cfg, cand)
            except Exception:
                continue
            if s.problems and key is None and not s.refused:
                report(ctx, cfg, cand, s)
                return
    cfgs = qa.all_configs()
    for i in range(1500):
        cfg = cfgs[i % len(cfgs)]
        ops, s = qa.gen_program(repo, cfg, ctx.rng, 40)
        if s.problems:
            report(ctx, cfg, ops, s)
            return


def coqchk(ctx):
    """thorough: independent re-check of the compiled proofs"""
    from vlib import COQ

    cmd = ["timeout", "900", "coqchk", "-silent", "-o", "-Q", COQ, "NQ", "NQ.Proofs.QubitAgreeProofs"]
    r = subprocess.run(cmd, capture_output=True, text=True)
    ctx.checker_cmds.append("coqchk -o -Q coq NQ NQ.Proofs.QubitAgreeProofs")
    ok = r.returncode == 0
    ctx.gen_obligation("coqchk NQ.Proofs.QubitAgreeProofs", ok, (r.stdout + r.stderr)[-300:])
    ctx.notes.append("coqchk: " + " ".join((r.stdout + r.stderr).split())[-300:])


def replay(ctx, path):
    rec = json.load(open(path))
    rp = rec.get("replay", rec)
    cfg = qa.Cfg.from_json(rp["cfg"])
    s, key = run_keyed(ctx.repo, cfg, rp["ops"])
    print("replay:", cfg.to_json(), rp["ops"])
    for o in s.obs:
        print("   ", o)
    print("problems:", s.problems)
    if s.problems:
        report(ctx, cfg, rp["ops"], s, key=key, do_shrink=False)
    ctx.finish()
