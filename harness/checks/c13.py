"""C13 — qubit memory is safe and applications are isolated on the controller."""
import json
import os

import qmem_impl as qi

CORPUS = os.path.join(os.path.dirname(os.path.dirname(os.path.dirname(os.path.abspath(__file__)))), "corpus", "C13")


# ---------------------------------------------------------------------- running histories on the implementation
class Runner:
    def __init__(self, ctx):
        self.ctx = ctx
        self.m = qi.load(ctx.repo)
        self.classes = qi.make_classes(self.m)
        self.next_id = 0
        self.idmap = {}     # node id -> (history, step)

    def world(self):
        return qi.World(self.m, self.classes)

    def do(self, w, op, contract_ok=True):
        before = w.observe()
        out = w.apply(op)
        after = w.observe()
        bad = w.oracle(before, op, out, after, contract_ok=contract_ok)
        return out, after, bad

    def node(self, hist, step, op, out, ob):
        self.next_id += 1
        self.idmap[self.next_id] = (hist, step)
        return dict(id=self.next_id, op=op, out=out, obs=ob, kids=[])

    def run_history(self, ops, contract_ok=True, want_tree=True):
        """fresh world; returns (root-or-None, failures [(step, text)], outcomes, well_formed)"""
        w = self.world()
        root = cur = None
        fails, outs = [], []
        wf = True
        for i, op in enumerate(ops):
            op = tuple(op)
            if op[0] == "Keep" and (op[1], op[6][2]) not in w.reserved:
                wf = False
            out, ob, bad = self.do(w, op, contract_ok=contract_ok and wf)
            outs.append(out)
            fails += [(i, b) for b in bad]
            if want_tree:
                n = self.node(ops, i, op, out, ob)
                if cur is None:
                    root = n
                else:
                    cur["kids"].append(n)
                cur = n
        return root, fails, outs, wf


def jsonable(x):
    return [jsonable(y) for y in x] if isinstance(x, (list, tuple)) else x


def from_json(x):
    return tuple(from_json(y) for y in x) if isinstance(x, list) else x


# ---------------------------------------------------------------------- generation
def gen_walk(rng, runner, length, stats):
    """stateful random walk: the next operation is chosen looking at the harness's own
    lifecycle record (registered apps, reserved qubits); returns the op list"""
    w = runner.world()
    nodes = [0] if rng.random() < 0.65 else [0, 1]
    pool = rng.choice([[0, 1, 2], [0, 1], [0, 1, 2], [0, 7, 65535]])
    sizes = {}
    ops = []

    def pick_app(nd, registered):
        reg = [a for a in pool if (nd, a) in w.registered]
        unreg = [a for a in pool if (nd, a) not in w.registered]
        cand = reg if registered else unreg
        return rng.choice(cand) if cand and rng.random() < 0.88 else rng.choice(pool)

    def pick_v(nd, app):
        n = sizes.get((nd, app), 2)
        r = rng.random()
        if r < 0.72 and n > 0:
            return rng.randrange(n)
        return rng.choice([n, n + 1, -1, -n, -n - 1, -2, 0, 1])

    force = None
    while len(ops) < length:
        nd = rng.choice(nodes)
        if force is not None:
            op, force = force, None
        else:
            r = rng.random()
            if not any(k[0] == nd for k in w.registered):
                r = r * 0.12
            if r < 0.10:
                a = pick_app(nd, False)
                n = rng.choice([1, 2, 3, 4, 4, 2, 0])
                op = ("Init", nd, a, n)
            elif r < 0.16:
                a = pick_app(nd, True)
                op = ("Stop", nd, a)
                if rng.random() < 0.6:
                    force = ("Init", nd, a, rng.choice([1, 2, 3, 4]))
            elif r < 0.42:
                a = pick_app(nd, True)
                op = ("QAlloc", nd, a, pick_v(nd, a))
            elif r < 0.57:
                a = pick_app(nd, True)
                op = ("QFree", nd, a, pick_v(nd, a))
            elif r < 0.64:
                op = ("Reserve", nd)
            elif r < 0.78:
                res = sorted(p for (n_, p) in w.reserved if n_ == nd)
                if not res:
                    op = ("Reserve", nd)
                else:
                    a = pick_app(nd, True)
                    p = rng.choice(res)
                    qa, ra = rng.sample(range(6), 2)
                    if rng.random() < 0.04:
                        ra = qa
                    info = (0, rng.randrange(50), p, 1, rng.randrange(10), rng.randrange(4),
                            rng.choice([x for x in range(4) if x != nd]),  # remote node: never ourselves
                           
                            rng.randrange(100), rng.randrange(1000), rng.randrange(4))
                    op = ("Keep", nd, a, pick_v(nd, a), qa, ra, info)
            elif r < 0.84:
                a = pick_app(nd, True)
                op = ("SetReg", nd, a, (rng.randrange(4), rng.choice([0, 0, 1, 2, 15])),
                      rng.choice([0, 1, -1, 5, 2 ** 31 - 1, -2 ** 31, rng.randrange(-100, 100)]))
            elif r < 0.89:
                a = pick_app(nd, True)
                op = ("NewArr", nd, a, rng.randrange(6), rng.choice([0, 1, 2, 3, 5, 10, -1]))
            elif r < 0.94:
                a = pick_app(nd, True)
                op = ("Store", nd, a, rng.randrange(6), rng.choice([0, 0, 1, 2, 4, 9, 10]), rng.randrange(-50, 50))
            elif r < 0.97:
                a = pick_app(nd, True)
                op = ("RetReg", nd, a, (rng.randrange(4), rng.choice([0, 0, 1, 2, 15])))
            else:
                a = pick_app(nd, True)
                op = ("RetArr", nd, a, rng.randrange(6))
        out = w.apply(op)
        if op[0] == "Init" and out == 0:
            sizes[(op[1], op[2])] = op[3]
        stats[op[0]] = stats.get(op[0], 0) + 1
        stats[f"outcome:{out}"] = stats.get(f"outcome:{out}", 0) + 1
        ops.append(op)
    return ops


ALPHABET = [("Init", 0, 0, 2), ("Init", 0, 1, 1), ("Stop", 0, 0), ("Stop", 0, 1),
            ("QAlloc", 0, 0, 0), ("QAlloc", 0, 0, 1), ("QAlloc", 0, 1, 0),
            ("QFree", 0, 0, 0), ("QFree", 0, 0, 1), ("QFree", 0, 1, 0),
            ("Reserve", 0), ("KeepMin", 0, 0, 0), ("KeepMin", 0, 1, 0)]


def exhaustive(runner, depth, report):
    """every history of length <= depth over ALPHABET (KeepMin = deliver the oldest reserved
    qubit; pruned when nothing is reserved).  The implementation is re-run from a fresh
    world for every node; returns the list of root trees."""
    roots = []
    count = [0]

    def concretise(w, sym):
        if sym[0] != "KeepMin":
            return sym
        res = sorted(p for (n_, p) in w.reserved if n_ == sym[1])
        if not res:
            return None
        return ("Keep", sym[1], sym[2], sym[3], 0, 1, (0, 7, res[0], 1, 0, 0, 1, 3, 4, 1))

    def expand(prefix, parent):
        for sym in ALPHABET:
            w = runner.world()
            for o in prefix:
                w.apply(o)
            op = concretise(w, sym)
            if op is None:
                continue
            out, ob, bad = runner.do(w, op)
            count[0] += 1
            path = prefix + [op]
            n = runner.node(path, len(path) - 1, op, out, ob)
            runner.ctx.note_case(str(path), nontrivial=len(path) >= 2 and bool(ob["image"]))
            for b in bad:
                report(path, len(path) - 1, b)
            (roots if parent is None else parent["kids"]).append(n)
            if len(path) < depth:
                expand(path, n)

    expand([], None)
    return roots, count[0]


# ---------------------------------------------------------------------- shrinking
def kind_of(text):
    """failure class of an oracle message: its words without the concrete ids"""
    import re
    return re.sub(r"[^a-zA-Z ]+", "", text)[:48]


def shrink(runner, ops, text):
    """delta-debug a failing history: drop operations while the same kind of oracle failure
    remains and the history stays well-formed"""
    kind = kind_of(text)

    def fails(cand):
        _, fl, _, wf = runner.run_history(cand, want_tree=False)
        return wf and any(kind_of(b) == kind for _, b in fl)

    ops = list(ops)
    changed = True
    while changed and len(ops) > 1:
        changed = False
        for i in range(len(ops) - 1, -1, -1):
            cand = ops[:i] + ops[i + 1:]
            if cand and fails(cand):
                ops = cand
                changed = True
    return ops


# ---------------------------------------------------------------------- the check
def run(ctx):
    ctx.rule = ("histories of InitNewApp / StopApp / subroutine messages (qalloc, qfree, set, array, store, ret_reg, ret_arr), "
                "pool reservations and keep-response deliveries, sent through QNodeController.handle_netqasm_message of "
                "1-2 controllers sharing the SharedMemoryManager; <=3 application ids per node, unit modules 0..4, virtual "
                "addresses in and out of range (incl. negative); stateful random walks (stop is followed by re-registration "
                "of the same id with p=0.6) + every history up to a depth over a 13-symbol alphabet; after EVERY operation the "
                "executor's maps are compared with the Coq model and the property oracle runs on them. Non-trivial = the "
                "history maps at least one qubit and has >=2 operations; distinct = distinct operation list")
    res = ctx.props("C13")
    runner = Runner(ctx)
    ctx.trusted.append("harness/qmem_impl.py: subclasses Executor/QNodeController/BaseNetworkStack at their extension points only; "
                       "reads _qubit_unit_modules, _used_physical_qubit_addresses, _registers, _app_arrays, _shared_memories, "
                       "_active_app_ids, SharedMemoryManager._MEMORIES; canonicalises exceptions to their class")
    ctx.trusted.append("correspondence: Exec/QmemCheck.v evaluated by vm_compute inside coqc on generated prefix trees")
    ctx.assume.append("fresh_delivery (environment contract, hypothesis of C13_inv_step/C13_inv_reachable): the physical qubit named "
                      "by a keep response was reserved through the executor's own _get_unused_physical_qubit and not delivered "
                      "yet; the network stack owns communication-qubit allocation. Without it the executor double-maps "
                      "(C13_inv_without_fresh_refuted, replayed on the implementation every run, recorded as assumption not as "
                      "finding: the executor has no way to pick or veto the link layer's qubit id)")
    ctx.assume.append("outstanding EPR requests / pending responses are not part of this model (C12): after a deferred or failed "
                      "delivery the harness withdraws the response and its request")
    ctx.assume.append("Stop is modelled exactly only when set.remove cannot miss (proved under the invariant: C13_no_internal_fault)")

    violations = []

    def report(ops, step, text):
        violations.append((list(ops), step, text))

    # ---- corpus first (old witnesses of repaired defects)
    n_corpus = 0
    if os.path.isdir(CORPUS):
        for f in sorted(os.listdir(CORPUS)):
            if f.endswith(".json"):
                rec = json.load(open(os.path.join(CORPUS, f)))
                ops = list(from_json(rec["history"]))
                _, fl, outs, _ = runner.run_history(ops, want_tree=False)
                n_corpus += 1
                ctx.note_case(("corpus", f), True)
                for step, b in fl:
                    report(ops, step, b)
    ctx.coverage["corpus_cases"] = n_corpus

    # ---- random walks
    quick = ctx.tier == "quick"
    n_walks = 220 if quick else 2000
    stats = {}
    trees = []
    lens = {}
    for hno in range(n_walks):
        length = ctx.rng.choice([8, 15, 25, 40, 60] if quick else [8, 15, 25, 40, 60, 120])
        ops = gen_walk(ctx.rng, runner, length, stats)
        root, fl, outs, _ = runner.run_history(ops)
        trees.append(root)
        lens[length] = lens.get(length, 0) + 1
        mapped_any = any(o[0] in ("QAlloc", "Keep") and out == 0 for o, out in zip(ops, outs))
        ctx.note_case(str(ops), nontrivial=mapped_any and len(ops) >= 2)
        if len(ctx.samples) < 3 and mapped_any:
            ctx.samples.append(dict(history=jsonable(ops[:12]), outcomes=outs[:12]))
        for step, b in fl:
            report(ops[:step + 1], step, b)
    ctx.coverage["walk_lengths"] = lens
    ctx.coverage["op_and_outcome_distribution"] = stats

    # ---- exhaustive small histories
    depth = 3 if quick else 4
    ex_roots, ex_nodes = exhaustive(runner, depth, report)
    ctx.coverage["exhaustive_small_histories"] = dict(depth=depth, alphabet=len(ALPHABET), nodes=ex_nodes)
    ctx.log(f"implementation runs done: {n_walks} walks, {ex_nodes} exhaustive nodes, oracle failures {len(violations)}")

    # ---- malformed stream: the contract broken on purpose (assumption evidence, model must still agree)
    bad_hist = [("Init", 0, 0, 2), ("Init", 0, 1, 2), ("QAlloc", 0, 0, 0),
                ("Keep", 0, 1, 0, 0, 1, (0, 7, 0, 1, 0, 0, 1, 3, 4, 1)), ("QFree", 0, 0, 0), ("QFree", 0, 1, 0)]
    mroot, mfl, mouts, _ = runner.run_history(bad_hist, contract_ok=False)
    double = any("map to the same physical qubit" in b for _, b in mfl)
    ctx.coverage["contract_broken_replay"] = dict(history=jsonable(bad_hist), outcomes=mouts, double_mapping_observed=double,
                                                  second_free_keyerror=(mouts[-1] == 10))
    ctx.gen_obligation("C13_inv_without_fresh_refuted witness behaves on the implementation as in the model "
                       "(double mapping, then KeyError on the second free)", double and mouts == [0, 0, 0, 0, 0, 10],
                       f"outcomes {mouts}, failures {mfl}")
    malformed = [mroot]
    for _ in range(20 if quick else 200):
        # random well-formed prefix, then one delivery naming a mapped qubit, then frees
        ops = gen_walk(ctx.rng, runner, ctx.rng.choice([6, 12, 20]), {})
        w = runner.world()
        for o in ops:
            w.apply(o)
        ob = w.observe()
        if not ob["image"] or not w.registered:
            continue
        nd, p = ctx.rng.choice(ob["image"])
        apps_nd = [k for k in w.registered if k[0] == nd]
        a = ctx.rng.choice(apps_nd)[1]
        n = len(ob["apps"][(nd, a)]["um"])
        ops = ops + [("Keep", nd, a, ctx.rng.randrange(max(n, 1)), 4, 5, (0, 1, p, 1, 0, 0, nd + 1, 0, 0, 0))]
        holders = [(k, i) for k, ap in ob["apps"].items() if k[0] == nd for i, q in enumerate(ap["um"]) if q == p]
        for (k, i) in holders:
            ops.append(("QFree", k[0], k[1], i))
        root, _, outs, _ = runner.run_history(ops, contract_ok=False)
        # compare only up to the first KeyError of set.remove (Stop after that is not modelled exactly)
        malformed.append(root)
        ctx.note_case(str(ops), True)

    # ---- model side
    files = {}
    shard = 12
    groups = [trees[i:i + shard] for i in range(0, len(trees), shard)]
    for i, g in enumerate(groups):
        files[f"cases_walk_{i}.v"] = g
    for i, r in enumerate(ex_roots):
        files[f"cases_exh_{i}.v"] = [r]
    files["cases_malformed.v"] = malformed
    for fn, g in files.items():
        qi.write_case_file(os.path.join(ctx.build, fn), g)
    results = ctx.run_case_files(list(files), timeout=1500, jobs=14)
    mismatches = []
    for fn, r in results.items():
        if not r.ok:
            ctx.gen_obligation(f"correspondence file {fn} evaluates", False, r.err[-300:])
            continue
        fl = qi.parse_failing(r.out)
        if len(fl) != 1:
            ctx.gen_obligation(f"correspondence file {fn} output parsed", False, r.out[-300:])
            continue
        for nid in fl[0]:
            hist, step = runner.idmap[nid]
            mismatches.append((fn, list(hist[:step + 1])))
    ctx.coverage["model_impl_mismatches"] = len(mismatches)
    ctx.coverage["correspondence_files"] = len(files)
    ctx.coverage["traces_validated_against_impl"] = len(trees) + ex_nodes + len(malformed)
    if mismatches:
        fn, hist = min(mismatches, key=lambda x: len(x[1]))
        ctx.broken.append(f"correspondence Qmem.step vs Executor/QNodeController: {len(mismatches)} histories differ, "
                          f"shortest ({fn}): {jsonable(hist)}")
        ctx.log(f"model/implementation mismatch: {len(mismatches)}; shortest {jsonable(hist)}")

    # ---- search when something broke without an oracle failure
    if ctx.broken and not violations:
        ctx.log("searching for a failing history")
        seeds = [h for _, h in mismatches[:20]]
        for h in seeds:
            # continue the differing history with further random operations of the same applications
            for _ in range(30):
                ext = list(h) + gen_walk(ctx.rng, runner, 6, {})
                _, fl, _, wf = runner.run_history(ext, want_tree=False)
                if wf and fl:
                    report(ext[:fl[0][0] + 1], fl[0][0], fl[0][1])
                    break
            if violations:
                break
        for _ in range(0 if violations else 1500):
            ops = gen_walk(ctx.rng, runner, 30, {})
            _, fl, _, _ = runner.run_history(ops, want_tree=False)
            if fl:
                report(ops[:fl[0][0] + 1], fl[0][0], fl[0][1])
                break

    # ---- report (shrunk, one per failure kind)
    seen = set()
    for ops, step, text in violations:
        kind = kind_of(text)
        if kind in seen:
            continue
        seen.add(kind)
        small = shrink(runner, ops, text)
        _, fl, outs, _ = runner.run_history(small, want_tree=False)
        ctx.violation(text if not fl else fl[-1][1], dict(history=jsonable(small), outcomes=outs,
                                                           failures=[b for _, b in fl]), key=None)
    ctx.coverage["oracle_failures_total"] = len(violations)
    ctx.finish()


def replay(ctx, path):
    rec = json.load(open(path))
    rec = rec.get("replay", rec)
    runner = Runner(ctx)
    ops = list(from_json(rec["history"]))
    _, fl, outs, wf = runner.run_history(ops, want_tree=False)
    print("replay: outcomes", outs, "well-formed", wf)
    for step, b in fl:
        print(f"  step {step} {ops[step]}: {b}")
    if fl:
        ctx.violation(fl[-1][1], dict(history=jsonable(ops), outcomes=outs, failures=[b for _, b in fl]))
    ctx.finish()
