"""C13 — qubit memory is safe and applications are isolated on the controller."""
import json
import os

import qmem_impl as qi

CORPUS = os.path.join(os.path.dirname(os.path.dirname(os.path.dirname(os.path.abspath(__file__)))), "corpus", "C13")


# ---------------------------------------------------------------------- running histories on the implementation
class Runner:
    def __init__(self, ctx):
        self.ctx = ctx
        self.m = qi.load(ctx.repo)
        self.classes = qi.make_classes(self.m)
        self.next_id = 0
        self.idmap = {}     # node id -> (history, step)

    def world(self):
        w = qi.World(self.m, self.classes)
        w.log_dir = os.path.join(self.ctx.build, "instr_logs")
        os.makedirs(w.log_dir, exist_ok=True)
        return w

    def do(self, w, op, contract_ok=True):
        before = w.observe()
        out = w.apply(op)
        after = w.observe()
        bad = w.oracle(before, op, out, after, contract_ok=contract_ok)
        return out, after, bad

    def node(self, hist, step, op, out, ob):
        self.next_id += 1
        self.idmap[self.next_id] = (hist, step)
        return dict(id=self.next_id, op=op, out=out, obs=ob, kids=[])

    def nodes_for(self, w, hist, step, op, out, ob):
        """tree nodes (a chain) for one harness event: an atomic operation is one node; a
        Start / Step of an interleaved subroutine is the model operations that ran between the
        two yield points, observable only after the last one"""
        mops = w.last_model_ops
        chain = []
        for j, mop in enumerate(mops):
            last = j == len(mops) - 1
            chain.append(self.node(hist, step, mop, out if last else -1, ob if last else None))
        return chain

    def run_history(self, ops, contract_ok=True, want_tree=True):
        """fresh world; returns (root-or-None, failures [(step, text)], outcomes, well_formed)"""
        w = self.world()
        root = cur = None
        fails, outs = [], []
        wf = True
        for i, op in enumerate(ops):
            op = tuple(op)
            if op[0] == "Keep":
                key = (op[1], op[6][2])
                used_now = key[0] in w.ctrls and key[1] in w.ctrls[key[0]]._executor._used_physical_qubit_addresses
                if key not in w.reserved and used_now:
                    wf = False
            if op[0] == "Step" and op[3] not in w.live:
                outs.append(None)       # the subroutine already ended or died (shrinking removes events)
                continue
            if op[0] != "Step" and qi.op_pid(op) in w.stopping:
                wf = False              # messages of ONE application are handled in order (contract)
            out, ob, bad = self.do(w, op, contract_ok=contract_ok and wf)
            outs.append(out)
            fails += [(i, b) for b in bad]
            if want_tree:
                for n in self.nodes_for(w, ops, i, op, out, ob):
                    if cur is None:
                        root = n
                    else:
                        cur["kids"].append(n)
                    cur = n
        return root, fails, outs, wf


def jsonable(x):
    return [jsonable(y) for y in x] if isinstance(x, (list, tuple)) else x


def from_json(x):
    return tuple(from_json(y) for y in x) if isinstance(x, list) else x


# ---------------------------------------------------------------------- generation
def gen_walk(rng, runner, length, stats, interleave=True, stepped_stop=False, logged=False):
    """stateful random walk: the next operation is chosen looking at the harness's own
    lifecycle record (registered apps, reserved qubits); returns the op list"""
    w = runner.world()
    nodes = [0] if rng.random() < 0.65 else [0, 1]
    pool = rng.choice([[0, 1, 2], [0, 1], [0, 1, 2], [0, 7, 65535]])
    sizes = {}
    ops = []

    def pick_app(nd, registered):
        reg = [a for a in pool if (nd, a) in w.registered]
        unreg = [a for a in pool if (nd, a) not in w.registered]
        cand = reg if registered else unreg
        return rng.choice(cand) if cand and rng.random() < 0.88 else rng.choice(pool)

    def pick_v(nd, app):
        n = sizes.get((nd, app), 2)
        r = rng.random()
        if (r < 0.72 or logged) and n > 0:
            # (with the instruction logger attached only in-range ids: the logger itself raises on
            # `set Q0 v` with v outside the unit module)
            return rng.randrange(n)
        return rng.choice([n, n + 1, -1, -n, -n - 1, -2, 0, 1])

    def block(nd, a):
        r = rng.random()
        if r < 0.35:
            return ("QAlloc", nd, a, pick_v(nd, a))
        if r < 0.55:
            return ("QFree", nd, a, pick_v(nd, a))
        if r < 0.70:
            return ("SetReg", nd, a, (rng.choice(banks), rng.choice([0, 1, 2])), rng.randrange(-20, 20))
        if r < 0.80:
            return ("NewArr", nd, a, rng.randrange(4), rng.choice([1, 2, 3]))
        if r < 0.90:
            return ("Store", nd, a, rng.randrange(4), rng.choice([0, 1, 2]), rng.randrange(-9, 9))
        if r < 0.95:
            return ("RetReg", nd, a, (rng.choice(banks), rng.choice([0, 1, 2])))
        return ("RetArr", nd, a, rng.randrange(4))

    force = None
    nlabel = 0
    if logged:
        for nd in nodes:
            op = ("LogOn", nd)
            w.apply(op)
            ops.append(op)
    banks = [0, 1, 3] if logged else [0, 1, 2, 3]      # the logger takes every Q register for a qubit address
    while len(ops) < length:
        nd = rng.choice(nodes)
        if force is not None:
            op, force = force, None
        elif interleave and rng.random() < 0.34 and (w.live or any(k[0] == nd for k in w.registered)):
            # subroutines of several applications as interleaved generators
            if w.live and (len(w.live) >= 3 or rng.random() < 0.62):
                label = rng.choice(sorted(w.live))
                op = ("Step", w.live[label]["nd"], w.live[label]["app"], label)
            elif stepped_stop and rng.random() < 0.3:
                # a StopAppMessage handled step by step (suspended at the yields of stop_application)
                cands = [k for k in w.registered if k[0] == nd and (nd, k[1]) not in w.stopping
                         and not any(x["nd"] == nd and x["app"] == k[1] for x in w.live.values())]
                if not cands:
                    continue
                nlabel += 1
                op = ("StopStart", nd, rng.choice(sorted(cands))[1], nlabel)
            else:
                a = pick_app(nd, True)
                nlabel += 1
                op = ("Start", nd, a, nlabel, tuple(block(nd, a) for _ in range(rng.choice([2, 2, 3, 4]))))
        else:
            r = rng.random()
            if not any(k[0] == nd for k in w.registered):
                r = r * 0.12
            if r < 0.012 and w.registered:
                # the process-wide registry is reset behind the controllers' back; a registration of a
                # RUNNING application id follows
                op = ("ResetMem", 0)
                k = rng.choice(sorted(w.registered))
                if rng.random() < 0.7:
                    force = ("Init", k[0], k[1], rng.choice([1, 2, 3]))
            elif r < 0.10:
                a = pick_app(nd, False)
                n = rng.choice([1, 2, 3, 4, 4, 2, 0] if not logged else [1, 2, 3, 4])
                op = ("Init", nd, a, n)
            elif r < 0.16:
                a = pick_app(nd, True)
                op = ("Stop", nd, a)
                if rng.random() < 0.6:
                    force = ("Init", nd, a, rng.choice([1, 2, 3, 4]))
            elif r < 0.42:
                a = pick_app(nd, True)
                op = ("QAlloc", nd, a, pick_v(nd, a))
            elif r < 0.57:
                a = pick_app(nd, True)
                op = ("QFree", nd, a, pick_v(nd, a))
            elif r < 0.64:
                op = ("Reserve", nd)
            elif r < 0.78:
                # the delivered physical id: reserved from the pool, or any id not marked in use --
                # biased to ids released a moment ago and to the lowest unused id
                res = sorted(p for (n_, p) in w.reserved if n_ == nd)
                used_nd = set(w.ctrl(nd)._executor._used_physical_qubit_addresses)
                freed = [p for p in w.recent_free.get(nd, []) if p not in used_nd]
                low = min(p for p in range(len(used_nd) + 1) if p not in used_nd)
                cands = ([rng.choice(res)] * 4 if res else []) + ([rng.choice(freed)] * 4 if freed else []) \
                    + [low] * 2 + [low + rng.randrange(3)]
                p = rng.choice(cands)
                if p in used_nd and (nd, p) not in w.reserved:
                    p = low
                a = pick_app(nd, True)
                qa, ra = rng.sample(range(6), 2)
                if rng.random() < 0.04 and not logged:
                    ra = qa          # (malformed program; the logger itself trips over it)
                info = (0, rng.randrange(50), p, 1, rng.randrange(10), rng.randrange(4),
                        rng.choice([x for x in range(4) if x != nd]),  # remote node: never ourselves
                        rng.randrange(100), rng.randrange(1000), rng.randrange(4))
                op = ("Keep", nd, a, pick_v(nd, a), qa, ra, info)
                if rng.random() < 0.6:
                    a2 = pick_app(nd, True)
                    force = ("QAlloc", nd, a2, pick_v(nd, a2))      # an allocation follows the delivery
            elif r < 0.84:
                a = pick_app(nd, True)
                op = ("SetReg", nd, a, (rng.choice(banks), rng.choice([0, 0, 1, 2, 15])),
                      rng.choice([0, 1, -1, 5, 2 ** 31 - 1, -2 ** 31, rng.randrange(-100, 100)]))
            elif r < 0.89:
                a = pick_app(nd, True)
                op = ("NewArr", nd, a, rng.randrange(6), rng.choice([0, 1, 2, 3, 5, 10, -1]))
            elif r < 0.94:
                a = pick_app(nd, True)
                op = ("Store", nd, a, rng.randrange(6), rng.choice([0, 0, 1, 2, 4, 9, 10]), rng.randrange(-50, 50))
            elif r < 0.97:
                a = pick_app(nd, True)
                op = ("RetReg", nd, a, (rng.choice(banks), rng.choice([0, 0, 1, 2, 15])))
            else:
                a = pick_app(nd, True)
                op = ("RetArr", nd, a, rng.randrange(6))
        if op[0] != "Step" and qi.op_pid(op) in w.stopping:
            continue        # messages of one application are handled in order: nothing for it while its stop runs
        if logged and op[0] in ("Stop", "StopStart") and any(
                x["nd"] == op[1] and x["app"] == op[2] and not x.get("stop") for x in w.live.values()):
            continue        # (a subroutine resumed after its application was stopped trips the logger itself)
        out = w.apply(op)
        if op[0] == "Init" and out == 0:
            sizes[(op[1], op[2])] = op[3]
        stats[op[0]] = stats.get(op[0], 0) + 1
        stats[f"outcome:{out}"] = stats.get(f"outcome:{out}", 0) + 1
        ops.append(op)
    return ops


ALPHABET = [("Init", 0, 0, 2), ("Init", 0, 1, 1), ("Stop", 0, 0), ("Stop", 0, 1),
            ("QAlloc", 0, 0, 0), ("QAlloc", 0, 0, 1), ("QAlloc", 0, 1, 0),
            ("QFree", 0, 0, 0), ("QFree", 0, 0, 1), ("QFree", 0, 1, 0),
            ("Reserve", 0), ("KeepMin", 0, 0, 0), ("KeepMin", 0, 1, 0)]


ALPHABET_KEEP = ALPHABET + [("KeepLow", 0, 0, 0), ("KeepLow", 0, 1, 0)]
# two qubits allocated and the first one released again: every continuation is enumerated
RELEASED_PREFIX = [("Init", 0, 0, 2), ("Init", 0, 1, 1), ("QAlloc", 0, 0, 0), ("QAlloc", 0, 0, 1), ("QFree", 0, 0, 0)]


def exhaustive(runner, depth, report, alphabet=None, prefix=()):
    """every history prefix + (<= depth symbols of the alphabet).  KeepMin = deliver the oldest
    reserved qubit (pruned when nothing is reserved); KeepLow = deliver on the lowest physical
    id that is not marked in use (a free, unreserved qubit: legal for the link layer).  The
    implementation is re-run from a fresh world for every node; returns the root trees."""
    alphabet = ALPHABET if alphabet is None else alphabet
    prefix = list(prefix)
    roots = []
    count = [0]
    parent0 = None
    w = runner.world()
    for i, op in enumerate(prefix):
        out, ob, bad = runner.do(w, op)
        n = runner.node(prefix[:i + 1], i, op, out, ob)
        (roots if parent0 is None else parent0["kids"]).append(n)
        parent0 = n

    def concretise(w, sym):
        if sym[0] == "KeepMin":
            res = sorted(p for (n_, p) in w.reserved if n_ == sym[1])
            if not res:
                return None
            p = res[0]
        elif sym[0] == "KeepLow":
            used_nd = set(w.ctrl(sym[1])._executor._used_physical_qubit_addresses)
            p = min(q for q in range(len(used_nd) + 1) if q not in used_nd)
        else:
            return sym
        return ("Keep", sym[1], sym[2], sym[3], 0, 1, (0, 7, p, 1, 0, 0, 1, 3, 4, 1))

    def expand(path, parent, left):
        for sym in alphabet:
            w = runner.world()
            for o in path:
                w.apply(o)
            op = concretise(w, sym)
            if op is None:
                continue
            out, ob, bad = runner.do(w, op)
            count[0] += 1
            npath = path + [op]
            n = runner.node(npath, len(npath) - 1, op, out, ob)
            runner.ctx.note_case(str(npath), nontrivial=len(npath) >= 2 and bool(ob["image"]))
            for b in bad:
                report(npath, len(npath) - 1, b)
            (roots if parent is None else parent["kids"]).append(n)
            if left > 1:
                expand(npath, n, left - 1)

    expand(prefix, parent0, depth)
    return roots, count[0]


def interleavings(runner, subs, prefix, report):
    """every interleaving of the Start / Step events of the given subroutines (label, nd, app,
    blocks) after the prefix, as a prefix tree: a subroutine of k blocks is one Start and k - 1
    Steps, suspended inside a gate in between"""
    roots = []
    count = [0]
    w = runner.world()
    parent0 = None
    prefix = list(prefix)
    for i, op in enumerate(prefix):
        out, ob, bad = runner.do(w, op)
        n = runner.node(prefix[:i + 1], i, op, out, ob)
        (roots if parent0 is None else parent0["kids"]).append(n)
        parent0 = n

    def expand(path, parent, progress):
        for (label, nd, app, blocks) in subs:
            done = progress[label]
            if blocks != "STOP" and done >= len(blocks):
                continue
            if blocks == "STOP":
                ev = ("StopStart", nd, app, label) if done == 0 else ("Step", nd, app, label)
            else:
                ev = ("Start", nd, app, label, tuple(blocks)) if done == 0 else ("Step", nd, app, label)
            w = runner.world()
            for o in path:
                w.apply(o)
            if ev[0] == "Step" and label not in w.live:
                continue          # ended, or died at a fault
            out, ob, bad = runner.do(w, ev)
            count[0] += 1
            npath = path + [ev]
            chain = runner.nodes_for(w, npath, len(npath) - 1, ev, out, ob)
            runner.ctx.note_case(str(npath), nontrivial=True)
            for b in bad:
                report(npath, len(npath) - 1, b)
            np_ = dict(progress)
            np_[label] = done + 1
            if not chain:
                if blocks == "STOP":
                    expand(npath, parent, np_)      # oracle only: no model nodes
                continue
            (roots if parent is None else parent["kids"]).append(chain[0])
            for x, y in zip(chain, chain[1:]):
                x["kids"].append(y)
            expand(npath, chain[-1], np_)

    expand(prefix, parent0, {s_[0]: 0 for s_ in subs})
    return roots, count[0]


def stop_interleave_scenarios(tier):
    """a StopAppMessage handled step by step (suspended at the yields of stop_application) interleaved
    with a subroutine of another application that allocates"""
    pre = [("Init", 0, 0, 2), ("Init", 0, 1, 2), ("QAlloc", 0, 1, 0), ("QAlloc", 0, 1, 1)]
    A = (1, 0, 0, [("QAlloc", 0, 0, 0), ("QAlloc", 0, 0, 1)] + ([("QFree", 0, 0, 0)] if tier != "quick" else []))
    S = (2, 0, 1, "STOP")
    sc = [("stop-of-app1-vs-allocations-of-app0", [A, S], pre)]
    if tier != "quick":
        pre2 = pre + [("Init", 0, 2, 2), ("QAlloc", 0, 2, 1)]
        sc.append(("two-stops-vs-allocations", [A, S, (3, 0, 2, "STOP")], pre2))
    return sc


def interleave_scenarios(tier):
    pre = [("Init", 0, 0, 2), ("Init", 0, 1, 2), ("Init", 0, 2, 2)]
    A = (1, 0, 0, [("QAlloc", 0, 0, 0), ("SetReg", 0, 0, (0, 1), 5), ("QFree", 0, 0, 0)])
    B = (2, 0, 1, [("SetReg", 0, 1, (0, 2), 7), ("QAlloc", 0, 1, 1), ("NewArr", 0, 1, 0, 2)])
    C = (3, 0, 2, [("QAlloc", 0, 2, 0), ("RetReg", 0, 2, (2, 0)), ("Store", 0, 2, 0, 0, 3)])
    if tier == "quick":
        cut = lambda s_: (s_[0], s_[1], s_[2], s_[3][:2])
        return [("three-apps-two-blocks", [cut(A), cut(B), cut(C)], pre)]
    return [("three-apps-three-blocks", [A, B, C], pre),
            ("same-app-twice", [A, (2, 0, 0, [("QAlloc", 0, 0, 1), ("SetReg", 0, 0, (0, 1), 9), ("QFree", 0, 0, 1)]),
                                (3, 0, 1, B[3])], pre)]


# ---------------------------------------------------------------------- shrinking
def kind_of(text):
    """failure class of an oracle message: its words without the concrete ids"""
    import re
    return re.sub(r"[^a-zA-Z ]+", "", re.split(r"[\[\(\{:]", text)[0])[:48].strip()


def shrink(runner, ops, text):
    """delta-debug a failing history: drop operations while the same kind of oracle failure
    remains and the history stays well-formed"""
    kind = kind_of(text)

    def fails(cand):
        _, fl, _, wf = runner.run_history(cand, want_tree=False)
        return wf and any(kind_of(b) == kind for _, b in fl)

    ops = list(ops)
    changed = True
    while changed and len(ops) > 1:
        changed = False
        for i in range(len(ops) - 1, -1, -1):
            cand = ops[:i] + ops[i + 1:]
            if cand and fails(cand):
                ops = cand
                changed = True
    return ops


# ---------------------------------------------------------------------- the check
def run(ctx):
    ctx.rule = ("histories of InitNewApp / StopApp / subroutine messages (qalloc, qfree, set, array, store, ret_reg, ret_arr), "
                "pool reservations and keep-response deliveries, sent through QNodeController.handle_netqasm_message of "
                "1-2 controllers sharing the SharedMemoryManager; <=3 application ids per node, unit modules 0..4, virtual "
                "addresses in and out of range (incl. negative); stateful random walks (stop is followed by re-registration "
                "of the same id with p=0.6; keep deliveries land on reserved ids, on ids released a moment ago or on the lowest "
                "unused id, and are followed by allocations; subroutines of several applications also run as INTERLEAVED "
                "generators suspended inside gates: Start/Step events) + every history up to a depth over a 13-symbol alphabet "
                "+ every continuation (15 symbols) of a history that released a qubit + every interleaving of three "
                "multi-block subroutines of different applications; after EVERY operation / yield point the "
                "executor's maps are compared with the Coq model and the property oracle runs on them. Non-trivial = the "
                "history maps at least one qubit and has >=2 operations; distinct = distinct operation list")
    res = ctx.props("C13")
    runner = Runner(ctx)
    ctx.trusted.append("harness/qmem_impl.py: subclasses Executor/QNodeController/BaseNetworkStack at their extension points only; "
                       "reads _qubit_unit_modules, _used_physical_qubit_addresses, _registers, _app_arrays, _shared_memories, "
                       "_active_app_ids, SharedMemoryManager._MEMORIES; canonicalises exceptions to their class")
    ctx.trusted.append("correspondence: Exec/QmemCheck.v evaluated by vm_compute inside coqc on generated prefix trees")
    ctx.assume.append("fresh_delivery (environment contract, hypothesis of C13_inv_step/C13_inv_reachable): the physical qubit named "
                      "by a keep response was reserved through the executor's own _get_unused_physical_qubit and not delivered "
                      "yet, OR is not marked in use at all at the moment of delivery (free and unmapped); the network stack "
                      "owns communication-qubit allocation. Without it the executor double-maps "
                      "(C13_inv_without_fresh_refuted, replayed on the implementation every run, recorded as assumption not as "
                      "finding: the executor has no way to pick or veto the link layer's qubit id)")
    ctx.assume.append("outstanding EPR requests / pending responses are not part of this model (C12): after a deferred or failed "
                      "delivery the harness withdraws the response and its request")
    ctx.assume.append("interleaved subroutines: the Coq model is atomic per instruction block (any interleaving of blocks of "
                      "different applications IS a history, so the theorems cover it); that the executor's subroutine table "
                      "(id -> subroutine, program counter) routes a resumed subroutine's instructions to its own application "
                      "is checked by the correspondence and the isolation oracle under generated and enumerated interleavings, "
                      "not proved")
    ctx.assume.append("a StopAppMessage handled step by step (suspended at the yields of stop_application) is modelled by "
                      "Exec/QmemStop.v (XStopBegin / XStopStep) and compared with the stepped real generator after every step; "
                      "contract xev_ok: messages of ONE application are handled in order (no Init / subroutine / delivery target of an "
                      "id while its stop is suspended) -- with the unchanged code such an Init is refused but QNodeController._add_app "
                      "has already marked the id active; subroutine generators (Start/Step) and stepped stops are separate layers "
                      "over the same atomic operations")
    ctx.assume.append("instruction logging (Executor's optional collaborator, a real InstrLogger attached by set_instr_logger) is on "
                      "in every fifth random walk (virtual addresses in range and no Q registers there: the logger itself raises "
                      "otherwise); it is not part of the model -- state and outcomes must be the same with and without it")
    ctx.assume.append("Stop is modelled exactly only when set.remove cannot miss (proved under the invariant: C13_no_internal_fault)")

    violations = []

    def report(ops, step, text):
        violations.append((list(ops), step, text))

    # ---- corpus first (old witnesses of repaired defects)
    n_corpus = 0
    if os.path.isdir(CORPUS):
        for f in sorted(os.listdir(CORPUS)):
            if f.endswith(".json"):
                rec = json.load(open(os.path.join(CORPUS, f)))
                ops = list(from_json(rec["history"]))
                _, fl, outs, _ = runner.run_history(ops, want_tree=False)
                n_corpus += 1
                ctx.note_case(("corpus", f), True)
                for step, b in fl:
                    report(ops, step, b)
    ctx.coverage["corpus_cases"] = n_corpus

    def oracle_only(ops):
        """(none any more: stops handled step by step are modelled by Exec/QmemStop.v)"""
        return False

    # ---- random walks
    quick = ctx.tier == "quick"
    n_walks = 220 if quick else 1200
    stats = {}
    trees = []
    lens = {}
    n_oracle_only = 0
    walk_ops = []
    for hno in range(n_walks):
        length = ctx.rng.choice([8, 15, 25, 40, 60] if quick else [8, 15, 25, 40, 60, 120])
        ops = gen_walk(ctx.rng, runner, length, stats, stepped_stop=(hno % 4 == 3), logged=(hno % 5 == 2))
        walk_ops.append(ops)
        root, fl, outs, _ = runner.run_history(ops, want_tree=not oracle_only(ops))
        if root is not None:
            trees.append(root)
        else:
            n_oracle_only += 1
        lens[length] = lens.get(length, 0) + 1
        mapped_any = any(o[0] in ("QAlloc", "Keep") and out == 0 for o, out in zip(ops, outs))
        ctx.note_case(str(ops), nontrivial=mapped_any and len(ops) >= 2)
        if len(ctx.samples) < 3 and mapped_any:
            ctx.samples.append(dict(history=jsonable(ops[:12]), outcomes=outs[:12]))
        for step, b in fl:
            report(ops[:step + 1], step, b)
    ctx.coverage["walk_lengths"] = lens
    ctx.coverage["walks_with_instruction_logger"] = sum(1 for t in walk_ops if t and t[0][0] == "LogOn")
    ctx.coverage["walks_with_stepped_stop"] = sum(1 for t in walk_ops if any(o[0] == "StopStart" for o in t))
    ctx.coverage["op_and_outcome_distribution"] = stats

    # ---- exhaustive small histories
    depth = 3 if quick else 4
    ex_roots, ex_nodes = exhaustive(runner, depth, report)
    ctx.coverage["exhaustive_small_histories"] = dict(depth=depth, alphabet=len(ALPHABET), nodes=ex_nodes)
    # deliveries onto released / lowest unused physical ids followed by allocations
    rel_roots, rel_nodes = exhaustive(runner, 2 if quick else 3, report, alphabet=ALPHABET_KEEP, prefix=RELEASED_PREFIX)
    ctx.coverage["exhaustive_after_release"] = dict(prefix=jsonable(RELEASED_PREFIX), depth=2 if quick else 3,
                                                    alphabet=len(ALPHABET_KEEP), nodes=rel_nodes)
    # subroutines of several applications as interleaved generators: every interleaving
    il_roots, il_info = [], {}
    for name, subs, pre in interleave_scenarios(ctx.tier):
        r_, c_ = interleavings(runner, subs, pre, report)
        il_roots.append(r_)
        il_info[name] = dict(subroutines=len(subs), blocks=[len(x[3]) for x in subs], nodes=c_)
    for name, subs, pre in stop_interleave_scenarios(ctx.tier):
        r_, c_ = interleavings(runner, subs, pre, report)
        il_roots.append(r_)
        il_info[name] = dict(participants=len(subs), nodes=c_, stepped_stop=True)
    ctx.coverage["every_interleaving_scenarios"] = il_info
    # an external reset of the shared-memory registry, then everything
    rst_prefix = [("Init", 0, 0, 2), ("QAlloc", 0, 0, 0), ("ResetMem", 0)]
    rst_roots, rst_nodes = exhaustive(runner, 2 if quick else 3, report, alphabet=ALPHABET, prefix=rst_prefix)
    ctx.coverage["exhaustive_after_registry_reset"] = dict(prefix=jsonable(rst_prefix), depth=2 if quick else 3, nodes=rst_nodes)
    ex_nodes += rel_nodes
    ctx.log(f"implementation runs done: {n_walks} walks, {ex_nodes} exhaustive nodes, oracle failures {len(violations)}")

    # ---- malformed stream: the contract broken on purpose (assumption evidence, model must still agree)
    bad_hist = [("Init", 0, 0, 2), ("Init", 0, 1, 2), ("QAlloc", 0, 0, 0),
                ("Keep", 0, 1, 0, 0, 1, (0, 7, 0, 1, 0, 0, 1, 3, 4, 1)), ("QFree", 0, 0, 0), ("QFree", 0, 1, 0)]
    mroot, mfl, mouts, _ = runner.run_history(bad_hist, contract_ok=False)
    double = any("map to the same physical qubit" in b for _, b in mfl)
    ctx.coverage["contract_broken_replay"] = dict(history=jsonable(bad_hist), outcomes=mouts, double_mapping_observed=double,
                                                  second_free_keyerror=(mouts[-1] == 10))
    ctx.gen_obligation("C13_inv_without_fresh_refuted witness behaves on the implementation as in the model "
                       "(double mapping, then KeyError on the second free)", double and mouts == [0, 0, 0, 0, 0, 10],
                       f"outcomes {mouts}, failures {mfl}")
    malformed = [mroot]
    for _ in range(20 if quick else 200):
        # random well-formed prefix, then one delivery naming a mapped qubit, then frees
        ops = gen_walk(ctx.rng, runner, ctx.rng.choice([6, 12, 20]), {}, interleave=False)
        w = runner.world()
        for o in ops:
            w.apply(o)
        ob = w.observe()
        if not ob["image"] or not w.registered:
            continue
        nd, p = ctx.rng.choice(ob["image"])
        apps_nd = [k for k in w.registered if k[0] == nd]
        a = ctx.rng.choice(apps_nd)[1]
        n = len(ob["apps"][(nd, a)]["um"])
        ops = ops + [("Keep", nd, a, ctx.rng.randrange(max(n, 1)), 4, 5, (0, 1, p, 1, 0, 0, nd + 1, 0, 0, 0))]
        holders = [(k, i) for k, ap in ob["apps"].items() if k[0] == nd for i, q in enumerate(ap["um"]) if q == p]
        for (k, i) in holders:
            ops.append(("QFree", k[0], k[1], i))
        root, _, outs, _ = runner.run_history(ops, contract_ok=False)
        # compare only up to the first KeyError of set.remove (Stop after that is not modelled exactly)
        malformed.append(root)
        ctx.note_case(str(ops), True)

    # ---- model side
    files = {}
    shard = 12
    groups = [trees[i:i + shard] for i in range(0, len(trees), shard)]
    for i, g in enumerate(groups):
        files[f"cases_walk_{i}.v"] = g
    for i, r in enumerate(ex_roots):
        files[f"cases_exh_{i}.v"] = [r]
    files["cases_release.v"] = rel_roots
    files["cases_reset.v"] = rst_roots
    ex_nodes += rst_nodes + sum(v["nodes"] for v in il_info.values())
    for i, r in enumerate(il_roots):
        files[f"cases_interleave_{i}.v"] = r
    files["cases_malformed.v"] = malformed
    for fn, g in files.items():
        qi.write_case_file(os.path.join(ctx.build, fn), g)
    results = ctx.run_case_files(list(files), timeout=1500, jobs=14)
    mismatches = []
    for fn, r in results.items():
        if not r.ok:
            ctx.gen_obligation(f"correspondence file {fn} evaluates", False, r.err[-300:])
            continue
        fl = qi.parse_failing(r.out)
        if len(fl) != 1:
            ctx.gen_obligation(f"correspondence file {fn} output parsed", False, r.out[-300:])
            continue
        for nid in fl[0]:
            hist, step = runner.idmap[nid]
            mismatches.append((fn, list(hist[:step + 1])))
    ctx.coverage["model_impl_mismatches"] = len(mismatches)
    ctx.coverage["correspondence_files"] = len(files)
    ctx.coverage["traces_validated_against_impl"] = len(trees) + ex_nodes + len(malformed)
    if mismatches:
        fn, hist = min(mismatches, key=lambda x: len(x[1]))
        ctx.broken.append(f"correspondence Qmem.step vs Executor/QNodeController: {len(mismatches)} histories differ, "
                          f"shortest ({fn}): {jsonable(hist)}")
        ctx.log(f"model/implementation mismatch: {len(mismatches)}; shortest {jsonable(hist)}")

    # ---- search when something broke without an oracle failure
    if ctx.broken and not violations:
        ctx.log("searching for a failing history")
        seeds = [h for _, h in mismatches[:20]]
        for h in seeds:
            # continue the differing history with further random operations of the same applications
            for _ in range(30):
                ext = list(h) + gen_walk(ctx.rng, runner, 6, {}, interleave=False)
                _, fl, _, wf = runner.run_history(ext, want_tree=False)
                if wf and fl:
                    report(ext[:fl[0][0] + 1], fl[0][0], fl[0][1])
                    break
            if violations:
                break
        for _ in range(0 if violations else 1500):
            ops = gen_walk(ctx.rng, runner, 30, {})
            _, fl, _, _ = runner.run_history(ops, want_tree=False)
            if fl:
                report(ops[:fl[0][0] + 1], fl[0][0], fl[0][1])
                break

    # ---- report (shrunk, one per failure kind)
    seen = set()
    for ops, step, text in violations:
        kind = kind_of(text)
        if kind in seen:
            continue
        seen.add(kind)
        small = shrink(runner, ops, text)
        _, fl, outs, _ = runner.run_history(small, want_tree=False)
        ctx.violation(text if not fl else fl[-1][1], dict(history=jsonable(small), outcomes=outs,
                                                           failures=[b for _, b in fl]), key=None)
    ctx.coverage["oracle_failures_total"] = len(violations)
    ctx.finish()


def replay(ctx, path):
    rec = json.load(open(path))
    rec = rec.get("replay", rec)
    runner = Runner(ctx)
    ops = list(from_json(rec["history"]))
    _, fl, outs, wf = runner.run_history(ops, want_tree=False)
    print("replay: outcomes", outs, "well-formed", wf)
    for step, b in fl:
        print(f"  step {step} {ops[step]}: {b}")
    if fl:
        ctx.violation(fl[-1][1], dict(history=jsonable(ops), outcomes=outs, failures=[b for _, b in fl]))
    ctx.finish()
