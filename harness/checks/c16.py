"""C16 — operands the format cannot represent are rejected, never silently altered."""
import codec_common as cc
import codec_impl as ci


class IndexLike:
    """An integer-like object that is not an int (what numpy integers look like to ctypes)."""

    def __init__(self, v):
        self.v = int(v)

    def __index__(self):
        return self.v

    def __int__(self):
        return self.v

    def __eq__(self, other):
        try:
            return int(other) == self.v
        except Exception:
            return NotImplemented

    def __hash__(self):
        return hash(self.v)

    def __repr__(self):
        return f"IndexLike({self.v})"


def text_entry(ctx, impl, n):
    """Entry point 2: the text assembler.  Out-of-range operands written as text
    must raise at parse or at bytes(); never yield bytes decoding to something else."""
    from netqasm.lang.parsing import deserialize, parse_text_subroutine
    rng = ctx.rng
    tried = 0
    for _ in range(n):
        kind = rng.choice(["reg", "imm8", "int", "addr", "app", "entry_idx"])
        app = 0
        if kind == "reg":
            idx = rng.choice([16, 17, 31, 32, 64, 255, 256, 1000])
            body = f"set {rng.choice('RCQM')}{idx} 5"
        elif kind == "imm8":
            v = rng.choice([256, 257, 300, 511, 512, 65536, 2 ** 32])
            body = rng.choice([f"rot_x Q0 {v} 1", f"rot_z Q0 1 {v}", f"meas_basis Q0 M0 {v} 0 0 4"])
        elif kind == "int":
            v = rng.choice([2 ** 31, 2 ** 31 + 5, 2 ** 32, 2 ** 32 + 7, -2 ** 31 - 1, -2 ** 32, 2 ** 40])
            body = rng.choice([f"set R0 {v}", f"jmp {v}" if v >= 0 else f"set R1 {v}"])
        elif kind == "addr":
            v = rng.choice([2 ** 31, 2 ** 32, 2 ** 32 + 1, 2 ** 40])
            body = rng.choice([f"array R0 @{v}", f"ret_arr @{v}", f"store R0 @{v}[R1]"])
        elif kind == "entry_idx":
            body = f"load R0 @0[R{rng.choice([16, 20, 32])}]"
        else:
            app = rng.choice([65536, 70000, 2 ** 32])
            body = "set R0 1"
        tried += 1
        src = f"# NETQASM 1.0\n# APPID {app}\n{body}\n"
        ctx.note_case(("text", src))
        try:
            sub = parse_text_subroutine(src)
            raw = bytes(sub)
        except Exception:
            continue
        try:
            back = deserialize(raw)
            same = list(back.instructions) == list(sub.instructions) and back.app_id == sub.app_id
        except Exception:
            same = False
        if not same:
            ctx.violation("text program with an unrepresentable operand was encoded to bytes that decode differently",
                          dict(entry="text", source=src, decoded=[str(i) for i in back.instructions] if same is False and 'back' in dir() else None))
    return tried


def sdk_entry(ctx, n):
    """Entry point 3: SDK calls on an in-process connection."""
    import sdk_pipeline as sp
    rng = ctx.rng
    tried = 0
    for _ in range(n):
        nval = rng.choice([256, 300, 511, 1024, 65536])
        dval = rng.choice([0, 1, 4, 256, 300])
        axis = rng.choice(["rot_X", "rot_Y", "rot_Z"])
        tried += 1
        ctx.note_case(("sdk", axis, nval, dval))
        try:
            pipe = sp.Pipeline(ctx.repo)
            with pipe.connection() as conn:
                from netqasm.sdk.qubit import Qubit
                q = Qubit(conn)
                getattr(q, axis)(n=nval, d=dval)
                conn.flush()
            trace = pipe.gate_trace()
        except Exception:
            continue
        # accepted: the controller must have seen exactly the requested rotation
        rots = [t for t in trace if t[0].startswith("rot")]
        if not rots or rots[0][2] != (nval, dval):
            ctx.violation("SDK rotation with an unrepresentable immediate reached the controller altered",
                          dict(entry="sdk", call=f"{axis}(n={nval}, d={dval})", controller_saw=rots))
    return tried


OPT_SCRIPT = r"""
import sys
sys.path.insert(0, sys.argv[1])
from netqasm.lang.parsing import parse_text_subroutine, deserialize
bad = []
for body in ["add R16 R0 R1", "load R0 @0[R255]", "ret_reg M-1", "array R0 @4294967297", "ret_arr @2147483648",
             "wait_any @0[R0:R1000]", "rot_x Q0 300 4", "set R1 2147483648", "set R0 -2147483649", "qalloc Q16"]:
    try:
        sub = parse_text_subroutine("# NETQASM 1.0\n# APPID 0\n" + body + "\n")
        raw = bytes(sub)
    except Exception:
        continue
    back = deserialize(raw)
    if [str(i) for i in back.instructions] != [str(i) for i in sub.instructions]:
        bad.append((body, [str(i) for i in back.instructions]))
print(repr(bad))
"""


def optimised_interpreter_entry(ctx):
    """Entry point 4: the same rejections with the interpreter's assert statements compiled away (python -O)."""
    import ast
    import subprocess
    r = subprocess.run(["/venv/bin/python", "-O", "-c", OPT_SCRIPT, ctx.repo], capture_output=True, text=True,
                       env=dict(PYTHONDONTWRITEBYTECODE="1", PYTHONHASHSEED="0", PATH="/usr/bin:/bin"))
    if r.returncode != 0:
        ctx.broken.append("python -O entry point could not run: " + r.stderr[-300:])
        return 0
    bad = ast.literal_eval(r.stdout.strip().splitlines()[-1])
    for body, got in bad:
        ctx.violation("with `python -O` an unrepresentable operand is encoded to bytes that decode differently",
                      dict(entry="python -O", source=body, decoded=got))
    ctx.note_case(("python -O",))
    return 10


def oor_history_entry(ctx, impl, n):
    """Entry point 1d: ONE Subroutine object that is in range, is serialised (and printed), is then
    changed so that it is NOT representable (app id through instantiate() or the setter, an
    instruction with an out-of-range leaf put in by replacing / appending / assigning the
    instruction list), and is serialised again.  The second bytes() must refuse; bytes that decode
    to anything but the object's current content are a silent alteration (a cached encoding, a
    range check done only once per object).  Derived from ctx.rng; the history is the replay."""
    rng = ctx.rng
    tried = 0
    for fname in cc.FLAVS:
        rows = impl.t["flavours"][fname]["rows"]
        cand = [r for r in rows if any(hi != 3 for (lo, hi) in ci.leaf_ranges(r))]
        flav = impl.t["flavours"][fname]["flavour"]
        for _ in range(n):
            body = [ci.gen_in_range_instr(rng, rng.choice(rows)) for _ in range(rng.randint(1, 4))]
            app = rng.choice([0, 1, 65535, rng.randint(0, 65535)])
            kind = rng.choice(["instantiate", "app_setter", "replace", "append", "assign_list"])
            try:
                instrs = [impl.build_instr(impl.rows[fname][nm], lv) for nm, lv in body]
                sub = impl.Subroutine(instructions=instrs, netqasm_version=(1, 0), app_id=app)
                for _k in range(rng.randint(1, 2)):
                    bytes(sub)
                str(sub)
            except Exception:
                continue  # an in-range object refused: C01/C02's subject
            final = [(nm, list(lv)) for nm, lv in body]
            mut = None
            try:
                if kind in ("instantiate", "app_setter"):
                    bad = rng.choice([65536, 65536 + app, 70000, 2 ** 31, -1, 2 ** 16 + 1])
                    mut = [kind, bad]
                    if kind == "instantiate":
                        sub.instantiate(bad, {})
                    else:
                        sub.app_id = bad
                    app2 = bad
                else:
                    row = rng.choice(cand)
                    rs = ci.leaf_ranges(row)
                    js = [j for j, (lo, hi) in enumerate(rs) if hi != 3]
                    j = rng.choice(js)
                    nm, lv = ci.distinct_field_instr(rng, row)
                    lv[j] = rng.choice([rs[j][1] + 1, rs[j][0] - 1, rs[j][1] + 256, rs[j][1] * 2 + 2])
                    new = impl.build_instr(impl.rows[fname][nm], lv)
                    app2 = app
                    if kind == "replace":
                        i = rng.randrange(len(final)); sub.instructions[i] = new; final[i] = (nm, list(lv))
                    elif kind == "append":
                        sub.instructions.append(new); final.append((nm, list(lv)))
                    else:
                        i = rng.randrange(len(final) + 1)
                        lst = list(sub.instructions); lst.insert(i, new); sub.instructions = lst; final.insert(i, (nm, list(lv)))
                    mut = [kind, nm, list(lv)]
            except Exception:
                tried += 1
                ctx.note_case(("oor-history", fname, kind, "refused at the change"))
                continue  # refused when the change is made: fine
            tried += 1
            ctx.note_case(("oor-history", fname, app, str(body), str(mut)))
            d = ctx.coverage.setdefault("stream_distribution_oor_histories", {})
            d[kind] = d.get(kind, 0) + 1
            try:
                raw = bytes(sub)
            except Exception:
                continue  # rejected with an error: what the property asks for
            try:
                back = impl.deserialize(raw, flavour=flav)
                dec = [back.app_id, [impl.view_instr(i) for i in back.instructions]]
                dec = [dec[0], [[a, [int(x) for x in b]] for a, b in dec[1]]]
            except Exception as e:  # noqa
                dec = "undecodable: " + type(e).__name__
            want = [app2, [[a, [int(x) for x in b]] for a, b in final]]
            if dec != want:
                ctx.violation("an object changed to an unrepresentable content after it had been serialised is encoded "
                              "without error, to bytes that decode to something else (serialize -> change -> serialize)",
                              dict(entry="object history", flavour=fname, version=[1, 0], first_app_id=app, first_body=body,
                                   change=mut, current_content=want, decoded=dec))
    return tried


def run(ctx):
    ctx.rule = ("sequences with exactly one operand leaf (or the app id) just outside / far outside its range, mixed "
                "with in-range sequences; accept/reject decision and bytes compared with the model's encode_checked; "
                "plus text-assembler and SDK entry points; non-trivial = at least one instruction")
    impl = cc.prepare(ctx)
    if impl is None:
        return ctx.finish()
    ctx.props("C16")
    n_seq = 250 if ctx.tier == "quick" else 8000
    cases = cc.gen_sequences(ctx, impl, n_seq, 6, oor_fraction=0.7, per_class_boundary=False)
    cases += cc.published_boundary_cases(impl)
    # plus: every class x every leaf that can be out of range, just outside on both sides
    for fname in cc.FLAVS:
        for row in impl.t["flavours"][fname]["rows"]:
            rs = ci.leaf_ranges(row)
            for j, (lo, hi) in enumerate(rs):
                if hi == 3:
                    continue
                for v in (hi + 1, lo - 1):
                    name, lv = ci.distinct_field_instr(ctx.rng, row)
                    lv[j] = v
                    cases.append((fname, 1, 0, 0, [(name, lv)], "oor-leaf"))
    ctx.samples = [dict(flavour=c[0], version=[c[1], c[2]], app_id=c[3], body=c[4], tag=c[5]) for c in cases[:2] + cases[-3:]]
    # oracle on the implementation: raises, or decodes to the same program
    mism = cc.correspond(ctx, impl, cases, [], oracle=True)
    if mism and not ctx.violations:
        ctx.broken.append(f"correspondence CodecCheck.encode_checked vs bytes(Subroutine) accept/reject: "
                          f"{len(mism)} differing cases, first: {str(mism[0])[:300]}")
        # search: an accepted out-of-range program is, by C01's theorem, one that decodes differently;
        # the oracle above already ran on every case, so reaching here means the difference is the other
        # way round (in-range rejected) or in decode only
    # entry point 1b: the app id given through Subroutine.instantiate(app_id) instead of the constructor
    impl.app_via_instantiate = True
    inst_cases = [c for c in cases if c[5] in ("oor-app", "seq")][: (200 if ctx.tier == "quick" else 3000)]
    for c in inst_cases:
        fname, v0, v1, app, body, tag = c
        res = impl.run_ecase(fname, v0, v1, app, body)
        ctx.note_case(("instantiate", fname, app, str(body)))
        if res["bytes"] is not None and res["oracle_ok"] is False:
            ctx.violation("decode(encode(s)) != s on the implementation (app id given through instantiate())",
                          dict(entry="instantiate", flavour=fname, version=[v0, v1], app_id=app, body=body, got=res["dec"]))
    impl.app_via_instantiate = False
    # entry point 1c: operand values handed over as integer-like objects that are not `int` (numpy integers
    # as computed angles / indices; any class with __index__): ctypes accepts those through __index__ and
    # truncates.  Refusing them is fine; encoding them to something else is not.
    wrappers = [("__index__ object", IndexLike)]
    try:
        import numpy as np
        wrappers += [("numpy.int64", lambda v: np.int64(v) if -2 ** 63 <= v < 2 ** 63 else IndexLike(v)),
                     ("numpy.uint16", lambda v: np.uint16(v) if 0 <= v < 2 ** 16 else np.int64(v) if -2 ** 63 <= v < 2 ** 63 else IndexLike(v))]
    except ImportError:
        pass
    n_like = 0
    like_cases = [c for c in cases if c[5] in ("oor-leaf", "seq", "oor")][: (300 if ctx.tier == "quick" else 4000)]
    for k, c in enumerate(like_cases):
        fname, v0, v1, app, body, tag = c
        wname, w = wrappers[k % len(wrappers)]
        impl.int_wrapper = w
        try:
            res = impl.run_ecase(fname, v0, v1, app, body)
        finally:
            impl.int_wrapper = None
        n_like += 1
        ctx.note_case(("int-like", wname, fname, str(body)))
        if res["bytes"] is not None and res["dec"] is not None:
            want = [(n, [int(x) for x in lv]) for n, lv in body]
            got = [(n, [int(x) for x in lv]) for n, lv in res["dec"][3]]
            if want != got:
                ctx.violation(f"operand values given as {wname}: encoded without error, decode to different values",
                              dict(entry="int-like", type=wname, flavour=fname, version=[v0, v1], app_id=app,
                                   body=[[n, [int(x) for x in lv]] for n, lv in body], got=res["dec"]))
    ctx.coverage["int_like_cases"] = n_like
    nt = text_entry(ctx, impl, 60 if ctx.tier == "quick" else 600)
    try:
        ns = sdk_entry(ctx, 8 if ctx.tier == "quick" else 60)
    except ImportError:
        ns = 0
    no = optimised_interpreter_entry(ctx)
    nh = oor_history_entry(ctx, impl, 60 if ctx.tier == "quick" else 1500)
    ctx.coverage["entry_points"] = dict(direct=len(cases), text=nt, sdk=ns, python_O=no, object_histories=nh)
    ctx.finish()


def replay(ctx, path):
    import json
    rec = json.load(open(path))["replay"]
    print(rec)
    ctx.finish()
