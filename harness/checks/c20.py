"""C20 — toolbox circuits implement their documented operators (full pipeline)."""
import cmath
import itertools
import json
import math
import os

import numpy as np

import qcommon as qc
import sv_pipeline

ANGLE_TOL = 1e-4   # radians per rotation: get_angle_spec_from_float's documented default tolerance (C19)


# ------------------------------------------------------------------ model values from Coq
def model_values(ctx):
    src = """From Coq Require Import ZArith List Bool.
From NQ Require Import Base.Cyclo Base.QMat Toolbox.ToolboxSem.
From Gen Require Import Gen_Toolbox.
Import ListNotations.
Open Scope Z_scope.
Eval vm_compute in (omser (circuit 3 gen_toffoli)).
Eval vm_compute in (omser (circuit 1 gen_t_inverse)).
Eval vm_compute in (map (fun r => match pm_kraus r false, pm_kraus r true with
   | Some (D0, m0), Some (D1, m1) => [mser D0; mser D1] | _, _ => [] end) gen_parity).
Eval vm_compute in (map (fun r => match pm_kraus r false, pm_kraus r true with
   | Some (D0, m0), Some (D1, m1) => [Z.b2z m0; Z.b2z m1] | _, _ => [] end) gen_parity).
"""
    open(os.path.join(ctx.build, "cases_model.v"), "w").write(src)
    r = ctx.coqc("cases_model.v")
    if not r.ok:
        ctx.gen_obligation("model values evaluate in Coq", False, r.err[-300:])
        return None
    v = qc.parse_evals(r.out)
    if len(v) != 4:
        ctx.gen_obligation("model values parsed", False, f"{len(v)} values")
        return None
    return dict(toffoli=qc.mat32(v[0]), t_inverse=qc.mat32(v[1]),
                kraus=[[qc.mat32(m) for m in row] for row in v[2]], ret=v[3])


# ------------------------------------------------------------------ pipeline runs
class Runner:
    def __init__(self, ctx):
        self.ns = sv_pipeline.make()
        from netqasm.sdk.qubit import Qubit
        from netqasm.sdk.toolbox.gates import t_inverse, toffoli_gate
        from netqasm.sdk.toolbox.measurements import parity_meas
        from netqasm.sdk.toolbox.state_prep import set_qubit_state
        self.Qubit, self.t_inverse, self.toffoli_gate = Qubit, t_inverse, toffoli_gate
        self.parity_meas, self.set_qubit_state = parity_meas, set_qubit_state

    def start(self, nq, psi):
        ctrl, conn = self.ns.new_session(max_qubits=5)
        ex = ctrl._executor
        qs = [self.Qubit(conn) for _ in range(nq)]
        conn.flush()
        pos = [ex._get_position(app_id=conn.app_id, address=q.qubit_id) for q in qs]
        ex.set_state(pos, psi)
        return ctrl, conn, ex, qs, pos

    def unitary(self, which, psi):
        nq = 3 if which == "toffoli" else 1
        ctrl, conn, ex, qs, pos = self.start(nq, psi)
        (self.toffoli_gate if which == "toffoli" else self.t_inverse)(*qs)
        conn.flush()
        return ex.state_on(pos)

    def parity(self, bases, neg, psi, forced):
        nd = len(bases)
        ctrl, conn, ex, qs, pos = self.start(nd, psi)
        ex.meas_script = [forced]
        m = self.parity_meas(qs, ("-" if neg else "") + bases)
        conn.flush()
        val = int(m)
        prob = ex.meas_log[0][2] if ex.meas_log else None
        live = [p for p in ex._qubit_unit_modules[conn.app_id] if p is not None]
        return dict(ret=val, prob=prob, post=ex.state_on(pos), n_meas=len(ex.meas_log),
                    anc_freed=sorted(live) == sorted(pos) and sorted(ex.wires) == sorted(pos),
                    script_left=len(ex.meas_script))

    def state_prep(self, phi, theta):
        ctrl, conn, ex, qs, pos = self.start(1, [1, 0])
        self.set_qubit_state(qs[0], phi, theta)
        conn.flush()
        return ex.state_on(pos), list(ex.gate_log)


def rand_state(rng, n):
    v = np.array([complex(rng.gauss(0, 1), rng.gauss(0, 1)) for _ in range(2 ** n)])
    return v / np.linalg.norm(v)


def basis_state(n, k):
    v = np.zeros(2 ** n, dtype=complex)
    v[k] = 1
    return v


def dist_up_to_phase(a, b):
    ov = np.vdot(b, a)
    ph = ov / abs(ov) if abs(ov) > 1e-12 else 1
    return float(np.linalg.norm(a - ph * b))


TOFFOLI = np.eye(8, dtype=complex)
TOFFOLI[[6, 7]] = TOFFOLI[[7, 6]]
TDG = np.array([[1, 0], [0, cmath.exp(-1j * math.pi / 4)]], dtype=complex)


def pauli_string(bases):
    P = np.array([[1]], dtype=complex)
    for c in bases:
        P = np.kron(P, qc.PAULI[c])
    return P


def lst(v):
    return [[float(x.real), float(x.imag)] for x in v]


# ------------------------------------------------------------------ the individual case kinds (also used by replay)
def case_unitary(ctx, R, model, which, psi):
    got = R.unitary(which, psi)
    want_model = model[which] @ psi
    want_doc = (TOFFOLI if which == "toffoli" else TDG) @ psi
    ok_model = float(np.linalg.norm(got - want_model)) < qc.TOL
    ok_doc = dist_up_to_phase(got, want_doc) < qc.TOL
    if not ok_doc:
        ctx.violation(f"{which}: pipeline state differs from the documented operator applied to the input",
                      dict(kind=which, psi=lst(psi), got=lst(got)), key=f"C20:{which}")
    return ok_model, ok_doc


def case_parity(ctx, R, model, idx, row, psi, forced):
    bases, neg = row["bases"], row["neg"]
    P = pauli_string(bases)
    Id = np.eye(len(P), dtype=complex)
    res = R.parity(bases, neg, psi, forced)
    r = res["ret"]
    proj = (Id + (-1) ** (r ^ int(neg)) * P) / 2          # documented operator for the returned value
    want = proj @ psi
    pw = float(np.linalg.norm(want) ** 2)
    ok_doc, why = True, ""
    if r not in (0, 1):
        ok_doc, why = False, f"returned value {r}"
    elif row["const"] is not None:
        if pw < 1 - qc.TOL or np.linalg.norm(res["post"] - psi) > qc.TOL:
            ok_doc, why = False, "identity string: result not certain or state disturbed"
    else:
        if res["n_meas"] != 1 or res["script_left"] != 0:
            ok_doc, why = False, f"{res['n_meas']} measurements performed"
        elif abs(res["prob"] - pw) > qc.TOL:
            ok_doc, why = False, f"outcome probability {res['prob']} but the parity projector gives {pw}"
        elif np.linalg.norm(res["post"] - want / math.sqrt(pw)) > 1e-7:
            ok_doc, why = False, "post-measurement state is not the projected input"
    if ok_doc and not res["anc_freed"]:
        ok_doc, why = False, "ancilla still allocated / extra wires alive after the call"
    if not ok_doc:
        ctx.violation(f"parity_meas({'-' if neg else ''}{bases}): {why}",
                      dict(kind="parity", bases=bases, neg=neg, psi=lst(psi), forced=forced, returned=r,
                           prob=res["prob"], post=lst(res["post"])), key=f"C20:parity_meas:{'-' if neg else '+'}{bases}")
    # model side (exact Kraus operators from Coq)
    ok_model = True
    if model is None:
        pass
    elif row["const"] is None:
        if not model["kraus"][idx]:
            return False, ok_doc, r
        D = model["kraus"][idx][forced]
        mret = model["ret"][idx][forced]
        w = D @ psi
        ok_model = (mret == r and abs(float(np.linalg.norm(w) ** 2) - res["prob"]) < qc.TOL
                    and float(np.linalg.norm(res["post"] - w / max(np.linalg.norm(w), 1e-300))) < 1e-7)
    else:
        ok_model = (r == row["const"])
    return ok_model, ok_doc, r


def case_state_prep(ctx, R, phi, theta):
    got, gates = R.state_prep(phi, theta)
    # exact model of what was emitted: rotations about Y, then about Z, by the emitted (n, d)
    v = np.array([1, 0], dtype=complex)
    seen_z, order_ok = False, True
    for g in gates:
        if g[0] == "rot_y":
            order_ok &= not seen_z
        elif g[0] == "rot_z":
            seen_z = True
        else:
            order_ok = False
            continue
        v = qc.rot_nd(g[0][-1], g[2], g[3]) @ v
    ok_model = order_ok and float(np.linalg.norm(got - v)) < qc.TOL
    want = np.array([math.cos(theta / 2), cmath.exp(1j * phi) * math.sin(theta / 2)])
    d = dist_up_to_phase(got, want)
    ok_doc = d <= ANGLE_TOL + 1e-9          # two rotations, each within ANGLE_TOL, each contributing half its angle error
    if not ok_doc:
        ctx.violation(f"set_qubit_state(phi={phi}, theta={theta}): prepared state is {d:.3e} away from the documented state",
                      dict(kind="state_prep", phi=phi, theta=theta, got=lst(got), emitted=gates), key="C20:set_qubit_state")
    return ok_model, ok_doc


# ------------------------------------------------------------------ main
def run(ctx):
    ctx.rule = ("toffoli_gate / t_inverse: every computational basis state + random states; parity_meas: all 168 signed "
                "Pauli strings of length 1..3 x input states (basis + Haar-like random) x both forced physical outcomes "
                "(skipped when its probability is < 1e-9); set_qubit_state: grid + random (phi, theta) incl. negative and "
                "> 2 pi; every case runs real SDK -> builder -> bytes -> deserialize -> Executor subclass with a numpy state "
                "vector and is compared (1e-9) with the exact Coq model and with the documented operator; non-trivial = "
                "input not an eigenstate-free trivial case (identity string) ; distinct = distinct (kind, string, sign, "
                "input, forced outcome)")
    jpath = os.path.join(ctx.build, "tb.json")
    ok, err = ctx.gen("toolbox.py", "Gen_Toolbox.v", "--json", jpath)
    ctx.gen_obligation("translator toolbox.py understands the toolbox calls", ok, err.strip()[-400:])
    ctx.trusted.append("gen/toolbox.py: calls the real toolbox functions on recording Qubit/Future subclasses "
                       "(gate methods, cnot, measure(inplace), Future.add(1, mod=2)); wires in creation order")
    ctx.trusted.append("harness/sv_pipeline.py: in-process connection/controller; Executor subclass supplying only the "
                       "quantum hooks with a numpy state vector (gate matrices from harness/qcommon.py), forced "
                       "measurement outcomes with projection, state injection before the toolbox call")
    ctx.assume.append("vanilla flavour on generic hardware (no NV transpilation; with the NV compiler the statement "
                      "additionally rests on C07)")
    ctx.assume.append("set_qubit_state: the float -> (n, d) expansion is covered by C19; here the prepared state must be "
                      "within 1e-4 (the documented default tolerance per rotation, two rotations each contributing half "
                      "its angle error) of the documented state")
    ctx.assume.append("ring-generic theorems are axiom-free; C20_complex.v instantiates the Toffoli identity at the complex "
                      "numbers using the axioms of Coq's reals; parity_meas returns the default measure() Future (array future)")
    if not ok:
        return ctx.finish()
    r = ctx.coqc("Gen_Toolbox.v")
    ctx.gen_obligation("Gen_Toolbox.v type-checks", r.ok, r.err[-300:])
    res = ctx.props("C20")
    if res.ok:
        qc.complex_props(ctx, "C20_complex")
    tb = json.load(open(jpath))
    model = model_values(ctx) if r.ok else None
    R = Runner(ctx)
    rng = ctx.rng
    thorough = ctx.tier != "quick"
    stats = {"toffoli": 0, "t_inverse": 0, "parity": 0, "parity_skipped_zero_prob": 0, "state_prep": 0}
    mism = []

    def note(kind, key, okm, nontrivial=True):
        ctx.note_case(key, nontrivial)
        stats[kind] += 1
        if model is not None and not okm:
            mism.append(key)

    fake_model = model or dict(toffoli=TOFFOLI, t_inverse=TDG, kraus=None, ret=None)
    # --- unitaries
    for which, n in (("toffoli", 3), ("t_inverse", 1)):
        states = [("basis", k, basis_state(n, k)) for k in range(2 ** n)]
        states += [("random", i, rand_state(rng, n)) for i in range(40 if thorough else 8)]
        for tag, k, psi in states:
            okm, okd = case_unitary(ctx, R, fake_model, which, psi)
            note(which, (which, tag, k), okm)
    # --- parity measurements
    rows = tb["parity"]
    for idx, row in enumerate(rows):
        nd = row["nd"]
        ks = list(range(2 ** nd)) if thorough else sorted(set([0, 2 ** nd - 1, rng.randrange(2 ** nd)]))
        states = [("basis", k, basis_state(nd, k)) for k in ks]
        states += [("random", i, rand_state(rng, nd)) for i in range(6 if thorough else 2)]
        for tag, k, psi in states:
            rets = {}
            for forced in (0, 1):
                if row["const"] is not None and forced == 1:
                    continue
                try:
                    okm, okd, r = case_parity(ctx, R, model, idx, row, psi, forced)
                except sv_pipeline.ImpossibleOutcome:
                    # this physical outcome has probability 0 on this input; the other one is then
                    # certain and its probability is compared with the documented projector below/above
                    stats["parity_skipped_zero_prob"] += 1
                    continue
                rets[forced] = r
                note("parity", ("parity", row["bases"], row["neg"], tag, k, forced), okm,
                     nontrivial=row["const"] is None)
            if len(rets) == 2 and rets[0] == rets[1]:
                ctx.violation(f"parity_meas({'-' if row['neg'] else ''}{row['bases']}): both measurement outcomes return {rets[0]}",
                              dict(kind="parity", bases=row["bases"], neg=row["neg"], psi=lst(psi), forced=0),
                              key=f"C20:parity_meas:{'-' if row['neg'] else '+'}{row['bases']}")
            if row["const"] is None and not rets:
                ctx.broken.append(f"parity_meas {row['bases']}: no measurement outcome possible")
    # --- state preparation
    grid = [0.0, math.pi / 2, math.pi, 3 * math.pi / 2, math.pi / 4, 1e-3, 2 * math.pi - 1e-3]
    cases = [(p, t) for p in grid for t in grid] if thorough else [(p, t) for p in grid[:4] for t in grid[:4]]
    cases += [(rng.uniform(-7, 14), rng.uniform(-7, 14)) for _ in range(300 if thorough else 40)]
    for (phi, theta) in cases:
        okm, okd = case_state_prep(ctx, R, phi, theta)
        note("state_prep", ("state_prep", phi, theta), okm, nontrivial=abs(math.sin(theta / 2)) > 1e-6)
    ctx.coverage["pipeline_runs"] = stats
    ctx.coverage["model_impl_mismatches"] = len(mism)
    ctx.samples = [dict(kind="toffoli", gates=tb["toffoli"][:6] + ["..."]),
                   dict(kind="parity", bases=rows[100]["bases"], neg=rows[100]["neg"], ops=rows[100]["ops"]),
                   dict(kind="parity", bases=rows[167]["bases"], neg=rows[167]["neg"], ops=rows[167]["ops"]),
                   dict(kind="state_prep", phi=cases[-1][0], theta=cases[-1][1])]
    if mism and not ctx.violations:
        ctx.broken.append(f"correspondence pipeline vs Coq model: {len(mism)} differing cases, first: {mism[0]}")
    if not res.ok and not ctx.violations:
        search(ctx, R, tb)
    ctx.finish()


def search(ctx, R, tb):
    """A Coq obligation broke but no pipeline case failed: widen the pipeline runs."""
    rng = ctx.rng
    for _ in range(200):
        psi = rand_state(rng, 3)
        got = R.unitary("toffoli", psi)
        if dist_up_to_phase(got, TOFFOLI @ psi) > qc.TOL:
            ctx.violation("toffoli_gate differs from the Toffoli unitary", dict(kind="toffoli", psi=lst(psi), got=lst(got)),
                          key="C20:toffoli")
            return


def replay(ctx, path):
    rec = json.load(open(path))
    rec = rec.get("replay", rec)
    if "kind" not in rec:
        # the replay names a broken obligation, not an input: re-run the whole check
        print("replay: no concrete input recorded (broken obligation); running the full check")
        return run(ctx)
    R = Runner(ctx)

    def vec(l):
        return np.array([complex(a, b) for a, b in l])

    if rec["kind"] in ("toffoli", "t_inverse"):
        _, okd = case_unitary(ctx, R, dict(toffoli=TOFFOLI, t_inverse=TDG), rec["kind"], vec(rec["psi"]))
    elif rec["kind"] == "parity":
        nd = len(rec["bases"])
        row = dict(bases=rec["bases"], neg=rec["neg"], nd=nd, const=None if any(c != "I" for c in rec["bases"]) else int(rec["neg"]))
        try:
            _, okd, _ = case_parity(ctx, R, None, 0, row, vec(rec["psi"]), rec["forced"])
        except sv_pipeline.ImpossibleOutcome:
            okd = True
    elif rec["kind"] == "state_prep":
        _, okd = case_state_prep(ctx, R, rec["phi"], rec["theta"])
    else:
        raise ValueError(rec)
    print("replay:", "passes now" if okd else "FAILS")
    ctx.finish()
