"""C20 — toolbox circuits implement their documented operators (full pipeline)."""
import cmath
import itertools
import json
import math
import os

import numpy as np

import qcommon as qc
import sv_pipeline

ANGLE_TOL = 1e-4   # radians per rotation: get_angle_spec_from_float's documented default tolerance (C19)


# ------------------------------------------------------------------ model values from Coq
def model_values(ctx):
    src = """From Coq Require Import ZArith List Bool.
From NQ Require Import Base.Cyclo Base.QMat Toolbox.ToolboxSem.
From Gen Require Import Gen_Toolbox.
Import ListNotations.
Open Scope Z_scope.
Eval vm_compute in (omser (circuit 3 gen_toffoli)).
Eval vm_compute in (omser (circuit 1 gen_t_inverse)).
Eval vm_compute in (map (fun r => match pm_kraus r false, pm_kraus r true with
   | Some (D0, m0), Some (D1, m1) => [mser D0; mser D1] | _, _ => [] end) gen_parity).
Eval vm_compute in (map (fun r => match pm_kraus r false, pm_kraus r true with
   | Some (D0, m0), Some (D1, m1) => [Z.b2z m0; Z.b2z m1] | _, _ => [] end) gen_parity).
"""
    open(os.path.join(ctx.build, "cases_model.v"), "w").write(src)
    r = ctx.coqc("cases_model.v")
    if not r.ok:
        ctx.gen_obligation("model values evaluate in Coq", False, r.err[-300:])
        return None
    v = qc.parse_evals(r.out)
    if len(v) != 4:
        ctx.gen_obligation("model values parsed", False, f"{len(v)} values")
        return None
    return dict(toffoli=qc.mat32(v[0]), t_inverse=qc.mat32(v[1]),
                kraus=[[qc.mat32(m) for m in row] for row in v[2]], ret=v[3])


# ------------------------------------------------------------------ pipeline runs
def data_state(ex, pos):
    """State of the data qubits; extra wires still alive (a measured, unfreed ancilla is in a basis
    state) are split off - their being allocated is reported separately."""
    extra = [w for w in ex.wires if w not in pos]
    if not extra:
        return ex.state_on(pos)
    full = ex.state_on(pos + extra).reshape(2 ** len(pos), -1)
    col = int(np.argmax(np.linalg.norm(full, axis=0)))
    v = full[:, col]
    return v / max(np.linalg.norm(v), 1e-300)


class Runner:
    def __init__(self, ctx):
        self.ns = sv_pipeline.make()
        from netqasm.sdk.qubit import Qubit
        from netqasm.sdk.toolbox.gates import t_inverse, toffoli_gate
        from netqasm.sdk.toolbox.measurements import parity_meas
        from netqasm.sdk.toolbox.state_prep import set_qubit_state
        self.Qubit, self.t_inverse, self.toffoli_gate = Qubit, t_inverse, toffoli_gate
        self.parity_meas, self.set_qubit_state = parity_meas, set_qubit_state

    def start(self, nq, psi):
        ctrl, conn = self.ns.new_session(max_qubits=5)
        ex = ctrl._executor
        qs = [self.Qubit(conn) for _ in range(nq)]
        conn.flush()
        pos = [ex._get_position(app_id=conn.app_id, address=q.qubit_id) for q in qs]
        ex.set_state(pos, psi)
        return ctrl, conn, ex, qs, pos

    def unitary(self, which, psi):
        nq = 3 if which == "toffoli" else 1
        ctrl, conn, ex, qs, pos = self.start(nq, psi)
        (self.toffoli_gate if which == "toffoli" else self.t_inverse)(*qs)
        conn.flush()
        return ex.state_on(pos)

    def parity(self, bases, neg, psi, forced):
        nd = len(bases)
        ctrl, conn, ex, qs, pos = self.start(nd, psi)
        ex.meas_script = [forced]
        m = self.parity_meas(qs, ("-" if neg else "") + bases)
        conn.flush()
        val = int(m)
        prob = ex.meas_log[0][2] if ex.meas_log else None
        live = [p for p in ex._qubit_unit_modules[conn.app_id] if p is not None]
        clean = sorted(live) == sorted(pos) and sorted(ex.wires) == sorted(pos)
        post = data_state(ex, pos)
        return dict(ret=val, prob=prob, post=post, n_meas=len(ex.meas_log), anc_freed=clean, live=sorted(live),
                    script_left=len(ex.meas_script))

    def parity_seq(self, nd, psi, calls):
        """Several parity_meas calls on ONE connection and the same data qubits.
        calls: [(bases, neg, forced)].  Each call is flushed separately; returns per call
        (returned value, probability of the forced outcome or None, state after the call,
        only-data-qubits-allocated)."""
        ctrl, conn, ex, qs, pos = self.start(nd, psi)
        out = []
        for bases, neg, forced in calls:
            ex.meas_script = [forced]
            n0 = len(ex.meas_log)
            m = self.parity_meas(qs, ("-" if neg else "") + bases)
            conn.flush()
            live = [p for p in ex._qubit_unit_modules[conn.app_id] if p is not None]
            clean = sorted(live) == sorted(pos)
            extra = [w for w in ex.wires if w not in pos]
            post = data_state(ex, pos)
            out.append(dict(ret=int(m), prob=ex.meas_log[n0][2] if len(ex.meas_log) > n0 else None,
                            n_meas=len(ex.meas_log) - n0, post=post, clean=clean and not extra,
                            live=sorted(live), script_left=len(ex.meas_script)))
            ex.meas_script = []
        return out

    def parity_history(self, nd, psi, calls):
        """k parity_meas calls on one connection, EACH FLUSHED AS ITS OWN SUBROUTINE; the outcome
        handles are read when `read_now` says so and ALL of them again at the very end
        (collect-then-use).  calls: [(bases, neg, read_now)]."""
        ctrl, conn, ex, qs, pos = self.start(nd, psi)
        handles, early = [], []
        for bases, neg, read_now in calls:
            m = self.parity_meas(qs, ("-" if neg else "") + bases)
            conn.flush()
            handles.append(m)
            early.append(int(m) if read_now else None)
        late = [int(m) for m in handles]
        live = [p for p in ex._qubit_unit_modules[conn.app_id] if p is not None]
        return dict(early=early, late=late, post=data_state(ex, pos), clean=sorted(live) == sorted(pos),
                    n_subroutines=len([1 for _ in calls]))

    def state_prep(self, phi, theta):
        ctrl, conn, ex, qs, pos = self.start(1, [1, 0])
        self.set_qubit_state(qs[0], phi, theta)
        conn.flush()
        return ex.state_on(pos), list(ex.gate_log)


def rand_state(rng, n):
    v = np.array([complex(rng.gauss(0, 1), rng.gauss(0, 1)) for _ in range(2 ** n)])
    return v / np.linalg.norm(v)


def basis_state(n, k):
    v = np.zeros(2 ** n, dtype=complex)
    v[k] = 1
    return v


def dist_up_to_phase(a, b):
    ov = np.vdot(b, a)
    ph = ov / abs(ov) if abs(ov) > 1e-12 else 1
    return float(np.linalg.norm(a - ph * b))


TOFFOLI = np.eye(8, dtype=complex)
TOFFOLI[[6, 7]] = TOFFOLI[[7, 6]]
TDG = np.array([[1, 0], [0, cmath.exp(-1j * math.pi / 4)]], dtype=complex)


def pauli_string(bases):
    P = np.array([[1]], dtype=complex)
    for c in bases:
        P = np.kron(P, qc.PAULI[c])
    return P


def lst(v):
    return [[float(x.real), float(x.imag)] for x in v]


# ------------------------------------------------------------------ the individual case kinds (also used by replay)
def case_unitary(ctx, R, model, which, psi):
    got = R.unitary(which, psi)
    want_model = model[which] @ psi
    want_doc = (TOFFOLI if which == "toffoli" else TDG) @ psi
    ok_model = float(np.linalg.norm(got - want_model)) < qc.TOL
    ok_doc = dist_up_to_phase(got, want_doc) < qc.TOL
    if not ok_doc:
        ctx.violation(f"{which}: pipeline state differs from the documented operator applied to the input",
                      dict(kind=which, psi=lst(psi), got=lst(got)), key=f"C20:{which}")
    return ok_model, ok_doc


def case_parity(ctx, R, model, idx, row, psi, forced):
    bases, neg = row["bases"], row["neg"]
    P = pauli_string(bases)
    Id = np.eye(len(P), dtype=complex)
    res = R.parity(bases, neg, psi, forced)
    r = res["ret"]
    proj = (Id + (-1) ** (r ^ int(neg)) * P) / 2          # documented operator for the returned value
    want = proj @ psi
    pw = float(np.linalg.norm(want) ** 2)
    ok_doc, why = True, ""
    if r not in (0, 1):
        ok_doc, why = False, f"returned value {r}"
    elif row["const"] is not None:
        if pw < 1 - qc.TOL or np.linalg.norm(res["post"] - psi) > qc.TOL:
            ok_doc, why = False, "identity string: result not certain or state disturbed"
    else:
        if res["n_meas"] != 1 or res["script_left"] != 0:
            ok_doc, why = False, f"{res['n_meas']} measurements performed"
        elif abs(res["prob"] - pw) > qc.TOL:
            ok_doc, why = False, f"outcome probability {res['prob']} but the parity projector gives {pw}"
        elif np.linalg.norm(res["post"] - want / math.sqrt(pw)) > 1e-7:
            ok_doc, why = False, "post-measurement state is not the projected input"
    if not res["anc_freed"]:
        ok_doc = False
        why = (why + "; " if why else "") + (f"after the call qubits {res['live']} are allocated on the controller, not only "
                                             "the data qubits (ancilla not returned to |0> and freed)")
    if not ok_doc:
        ctx.violation(f"parity_meas({'-' if neg else ''}{bases}): {why}",
                      dict(kind="parity", bases=bases, neg=neg, psi=lst(psi), forced=forced, returned=r,
                           prob=res["prob"], post=lst(res["post"])), key=f"C20:parity_meas:{'-' if neg else '+'}{bases}")
    # model side (exact Kraus operators from Coq)
    ok_model = True
    if model is None:
        pass
    elif row["const"] is None:
        if not model["kraus"][idx]:
            return False, ok_doc, r
        D = model["kraus"][idx][forced]
        mret = model["ret"][idx][forced]
        w = D @ psi
        ok_model = (mret == r and abs(float(np.linalg.norm(w) ** 2) - res["prob"]) < qc.TOL
                    and float(np.linalg.norm(res["post"] - w / max(np.linalg.norm(w), 1e-300))) < 1e-7)
    else:
        ok_model = (r == row["const"])
    return ok_model, ok_doc, r


def proj_doc(bases, neg, r):
    P = pauli_string(bases)
    return (np.eye(len(P), dtype=complex) + (-1) ** (r ^ int(neg)) * P) / 2


def case_parity_seq(ctx, R, nd, psi, calls):
    """Sequence of parity_meas calls on one connection: each call must act as the documented
    projector on the CURRENT state and leave only the data qubits allocated."""
    res = R.parity_seq(nd, psi, calls)
    cur = np.array(psi, dtype=complex)
    unclean = None
    for k, ((bases, neg, forced), out) in enumerate(zip(calls, res)):
        why = ""
        r = out["ret"]
        trivial = all(c == "I" for c in bases)
        if r not in (0, 1):
            why = f"returned value {r}"
        else:
            want = proj_doc(bases, neg, r) @ cur
            pw = float(np.linalg.norm(want) ** 2)
            if trivial:
                if pw < 1 - qc.TOL:
                    why = "identity string returns the impossible value"
            elif out["n_meas"] != 1:
                why = f"{out['n_meas']} measurements in call {k + 1}"
            elif abs(out["prob"] - pw) > qc.TOL:
                why = f"call {k + 1}: outcome probability {out['prob']} but the parity projector gives {pw}"
            if not why:
                cur = want / math.sqrt(pw)
                if out["post"] is None or dist_up_to_phase(out["post"], cur) > 1e-7:
                    why = f"call {k + 1}: post-measurement state is not the projected state"
            if not why and not out["clean"] and unclean is None:
                unclean = (k, f"after call {k + 1} qubits {out['live']} are allocated on the controller, not only the "
                              "data qubits (ancilla not returned to |0> and freed)")
        if not why and unclean is not None and k == len(calls) - 1:
            k, why = unclean                       # no wrong statistics seen: report the allocation post-condition
        elif why and unclean is not None:
            why += "; " + unclean[1]
        if why:
            ctx.violation("parity_meas sequence " + " ; ".join(("-" if n else "") + b for b, n, _ in calls) + ": " + why,
                          dict(kind="parity_seq", nd=nd, psi=lst(psi), calls=[list(c) for c in calls], failing_call=k + 1,
                               returned=[o["ret"] for o in res]),
                          key="C20:parity_meas:sequence")
            return False
    return True


EIG = {("Z", 0): [1, 0], ("Z", 1): [0, 1],
       ("X", 0): [R2 := math.sqrt(0.5), R2], ("X", 1): [R2, -R2],
       ("Y", 0): [R2, 1j * R2], ("Y", 1): [R2, -1j * R2]}


def product_eigenstate(qubits):
    """qubits: [(letter, bit)]: qubit i is the eigenstate of Pauli `letter` with eigenvalue (-1)^bit"""
    v = np.array([1], dtype=complex)
    for letter, bit in qubits:
        v = np.kron(v, np.array(EIG[(letter, bit)], dtype=complex))
    return v


def case_parity_history(ctx, R, qubits, calls):
    """Collect-then-read: every call is its own subroutine, every handle is read (again) after the last
    flush.  The input is a product of Pauli eigenstates and every string only uses, per qubit, I or that
    qubit's Pauli, so each outcome is CERTAIN: xor of the eigenvalue bits of the qubits it touches, xor sign;
    the state is unchanged."""
    nd = len(qubits)
    psi = product_eigenstate(qubits)
    res = R.parity_history(nd, psi, calls)
    want = []
    for bases, neg, _ in calls:
        r = int(neg)
        for (letter, bit), c in zip(qubits, bases):
            if c != "I":
                assert c == letter
                r ^= bit
        want.append(r)
    why = ""
    for k, (w, e, l) in enumerate(zip(want, res["early"], res["late"])):
        if e is not None and e != w:
            why = f"call {k + 1} ({'-' if calls[k][1] else ''}{calls[k][0]}): outcome read right after its flush is {e}, the parity is {w}"
            break
        if l != w:
            why = (f"call {k + 1} ({'-' if calls[k][1] else ''}{calls[k][0]}): its outcome handle read after the last flush gives {l}, "
                   f"the parity is {w}" + (f" (it read {e} right after its own flush)" if e is not None else ""))
            break
    if not why and dist_up_to_phase(res["post"], psi) > 1e-7:
        why = "the eigenstate was disturbed"
    if not why and not res["clean"]:
        why = "after the history more than the data qubits are allocated on the controller"
    if why:
        ctx.violation("parity_meas history " + " | ".join(("-" if n else "") + b for b, n, _ in calls) + ": " + why,
                      dict(kind="parity_history", qubits=[list(q) for q in qubits], calls=[list(c) for c in calls],
                           expected=want, read_early=res["early"], read_at_end=res["late"]),
                      key="C20:parity_meas:history")
        return False
    return True


def angle_err(emitted, angle):
    """circular distance between the exactly emitted angle (Fraction, units of pi) and the requested one"""
    x = (float(emitted) * math.pi - angle) % (2 * math.pi)
    return min(x, 2 * math.pi - x)


def case_state_prep(ctx, R, phi, theta):
    got, gates = R.state_prep(phi, theta)
    # exact model of what was emitted: rotations about Y, then about Z, by the emitted (n, d)
    v = np.array([1, 0], dtype=complex)
    seen_z, order_ok = False, True
    for g in gates:
        if g[0] == "rot_y":
            order_ok &= not seen_z
        elif g[0] == "rot_z":
            seen_z = True
        else:
            order_ok = False
            continue
        v = qc.rot_nd(g[0][-1], g[2], g[3]) @ v
    ok_model = order_ok and float(np.linalg.norm(got - v)) < qc.TOL
    from fractions import Fraction
    em = {"rot_y": Fraction(0), "rot_z": Fraction(0)}
    for g in gates:
        if g[0] in em:
            em[g[0]] += Fraction(g[2], 2 ** g[3])
    e_theta, e_phi = angle_err(em["rot_y"], theta), angle_err(em["rot_z"], phi)
    want = np.array([math.cos(theta / 2), cmath.exp(1j * phi) * math.sin(theta / 2)])
    d = dist_up_to_phase(got, want)
    # documented contract: EACH of the two rotations approximates its angle within ANGLE_TOL (1e-4 rad);
    # the state error is then at most (e_theta + e_phi)/2 <= ANGLE_TOL
    ok_doc = order_ok and e_theta <= ANGLE_TOL + 1e-12 and e_phi <= ANGLE_TOL + 1e-12 and d <= (e_theta + e_phi) / 2 + 1e-9
    if not ok_doc:
        ctx.violation(f"set_qubit_state(phi={phi!r}, theta={theta!r}): emitted rotations are off by {e_theta:.3e} rad (theta) / "
                      f"{e_phi:.3e} rad (phi), tolerance {ANGLE_TOL}; prepared state is {d:.3e} away from the documented state",
                      dict(kind="state_prep", phi=phi, theta=theta, got=lst(got), emitted=gates,
                           theta_error=e_theta, phi_error=e_phi), key="C20:set_qubit_state")
    return ok_model, ok_doc


# ------------------------------------------------------------------ main
def run(ctx):
    ctx.rule = ("toffoli_gate / t_inverse: every computational basis state + random states; parity_meas: all 168 signed "
                "Pauli strings of length 1..3 x input states (basis + Haar-like random) x both forced physical outcomes "
                "(skipped when its probability is 0); sequences of 2-3 parity_meas calls on one connection (first always "
                "ancilla-based, same and different strings) x every vector of forced outcomes, with the post-condition that "
                "only the data qubits stay allocated after each call; collect-then-read histories (2-4 calls, each its own "
                "subroutine, handles read after the last flush / immediately / mixed) on products of Pauli eigenstates so "
                "that every outcome is certain; set_qubit_state: grid + random (phi, theta) incl. "
                "negative and > 2 pi + adversarial angles just below k*pi/2^j and 2*pi, each rotation within 1e-4 rad; every case runs real SDK -> builder -> bytes -> deserialize -> Executor subclass with a numpy state "
                "vector and is compared (1e-9) with the exact Coq model and with the documented operator; non-trivial = "
                "input not an eigenstate-free trivial case (identity string) ; distinct = distinct (kind, string, sign, "
                "input, forced outcome)")
    jpath = os.path.join(ctx.build, "tb.json")
    ok, err = ctx.gen("toolbox.py", "Gen_Toolbox.v", "--json", jpath)
    ctx.gen_obligation("translator toolbox.py understands the toolbox calls", ok, err.strip()[-400:])
    ctx.trusted.append("gen/toolbox.py: calls the real toolbox functions on recording Qubit/Future subclasses "
                       "(gate methods, cnot, measure(inplace), Future.add(1, mod=2)); wires in creation order")
    ctx.trusted.append("harness/sv_pipeline.py: in-process connection/controller; Executor subclass supplying only the "
                       "quantum hooks with a numpy state vector (gate matrices from harness/qcommon.py), forced "
                       "measurement outcomes with projection, state injection before the toolbox call")
    ctx.assume.append("vanilla flavour on generic hardware (no NV transpilation; with the NV compiler the statement "
                      "additionally rests on C07)")
    ctx.assume.append("set_qubit_state: documented contract = each of the two rotations approximates its angle within the "
                      "default tolerance 1e-4 rad (circular distance of the exactly summed emitted n*pi/2^d to the requested "
                      "angle), hence the state within (e_theta + e_phi)/2 <= 1e-4; the expansion algorithm itself is C19's subject")
    ctx.assume.append("ring-generic theorems are axiom-free; C20_complex.v instantiates the Toffoli identity at the complex "
                      "numbers using the axioms of Coq's reals; parity_meas returns the default measure() Future (array future)")
    model, res, tb = None, None, None
    if ok:
        r = ctx.coqc("Gen_Toolbox.v")
        ctx.gen_obligation("Gen_Toolbox.v type-checks", r.ok, r.err[-300:])
        res = ctx.props("C20")
        if res.ok:
            qc.complex_props(ctx, "C20_complex")
        tb = json.load(open(jpath))
        notes = tb.get("notes", {})
        if any(notes.get(k) for k in ("toffoli", "t_inverse", "state_prep")) or notes.get("parity"):
            ctx.coverage["translator_notes"] = dict(toffoli=notes.get("toffoli"), t_inverse=notes.get("t_inverse"),
                                                    state_prep=notes.get("state_prep"), parity=notes.get("parity", [])[:10])
            ctx.broken.append("gen/toolbox.py could not express: " + str(ctx.coverage["translator_notes"])[:400])
        model = model_values(ctx) if r.ok else None
    # the pipeline runs do not depend on the translator: every signed string, independently enumerated
    all_rows = [dict(bases="".join(t), neg=neg, nd=n, const=(int(neg) if all(c == "I" for c in t) else None))
                for n in (1, 2, 3) for t in itertools.product("IXYZ", repeat=n) for neg in (False, True)]
    if tb is not None and [(r_["bases"], r_["neg"]) for r_ in tb["parity"]] != [(r_["bases"], r_["neg"]) for r_ in all_rows]:
        ctx.broken.append("translator rows are not the 168 signed strings in enumeration order")
        model = None
    R = Runner(ctx)
    rng = ctx.rng
    thorough = ctx.tier != "quick"
    stats = {"toffoli": 0, "t_inverse": 0, "parity": 0, "parity_skipped_zero_prob": 0, "parity_seq": 0,
             "parity_seq_skipped_zero_prob": 0, "parity_history": 0, "state_prep": 0, "state_prep_adversarial": 0, "raised": 0}

    def guarded(kind, replay, fn):
        """a toolbox call that raises on a fresh connection is itself a failure with a concrete input"""
        try:
            return fn()
        except sv_pipeline.ImpossibleOutcome:
            raise
        except Exception as e:  # noqa
            stats["raised"] += 1
            if stats["raised"] <= 5:
                ctx.violation(f"{kind}: the call raised {type(e).__name__}: {str(e)[:200]}", replay, key=f"C20:{kind}:raised")
            return None
    mism = []

    def note(kind, key, okm, nontrivial=True):
        ctx.note_case(key, nontrivial)
        stats[kind] += 1
        if model is not None and not okm:
            mism.append(key)

    fake_model = model or dict(toffoli=TOFFOLI, t_inverse=TDG, kraus=None, ret=None)
    # --- unitaries
    for which, n in (("toffoli", 3), ("t_inverse", 1)):
        states = [("basis", k, basis_state(n, k)) for k in range(2 ** n)]
        states += [("random", i, rand_state(rng, n)) for i in range(40 if thorough else 8)]
        for tag, k, psi in states:
            out = guarded(which, dict(kind=which, psi=lst(psi)), lambda: case_unitary(ctx, R, fake_model, which, psi))
            if out is not None:
                note(which, (which, tag, k), out[0])
    # --- parity measurements
    rows = all_rows
    for idx, row in enumerate(rows):
        nd = row["nd"]
        ks = list(range(2 ** nd)) if thorough else sorted(set([0, 2 ** nd - 1, rng.randrange(2 ** nd)]))
        states = [("basis", k, basis_state(nd, k)) for k in ks]
        states += [("random", i, rand_state(rng, nd)) for i in range(6 if thorough else 2)]
        for tag, k, psi in states:
            rets = {}
            for forced in (0, 1):
                if row["const"] is not None and forced == 1:
                    continue
                try:
                    out = guarded("parity_meas", dict(kind="parity", bases=row["bases"], neg=row["neg"], psi=lst(psi), forced=forced),
                                  lambda: case_parity(ctx, R, model, idx, row, psi, forced))
                    if out is None:
                        continue
                    okm, okd, r = out
                except sv_pipeline.ImpossibleOutcome:
                    # this physical outcome has probability 0 on this input; the other one is then
                    # certain and its probability is compared with the documented projector below/above
                    stats["parity_skipped_zero_prob"] += 1
                    continue
                rets[forced] = r
                note("parity", ("parity", row["bases"], row["neg"], tag, k, forced), okm,
                     nontrivial=row["const"] is None)
            if len(rets) == 2 and rets[0] == rets[1]:
                ctx.violation(f"parity_meas({'-' if row['neg'] else ''}{row['bases']}): both measurement outcomes return {rets[0]}",
                              dict(kind="parity", bases=row["bases"], neg=row["neg"], psi=lst(psi), forced=0),
                              key=f"C20:parity_meas:{'-' if row['neg'] else '+'}{row['bases']}")
            if row["const"] is None and not rets:
                ctx.broken.append(f"parity_meas {row['bases']}: no measurement outcome possible")
    # --- sequences of parity measurements on ONE connection (ancilla reuse, state carried over)
    anc_strings = [r_ for r_ in all_rows if sum(c != "I" for c in r_["bases"]) >= 2]
    n_seq = 250 if thorough else 40
    for i in range(n_seq):
        nd = rng.choice([2, 3, 3])
        pool = [r_ for r_ in all_rows if r_["nd"] == nd]
        apool = [r_ for r_ in anc_strings if r_["nd"] == nd]
        k = rng.choice([2, 2, 3])
        first = rng.choice(apool)                                  # the first call always uses the ancilla ...
        rest = []
        for j in range(k - 1):
            c = rng.random()
            rest.append(first if c < 0.3 else rng.choice(apool) if c < 0.85 else rng.choice(pool))
        strings = [first] + rest
        psi = rand_state(rng, nd) if i % 5 else basis_state(nd, rng.randrange(2 ** nd))
        # ... and every vector of forced physical outcomes is tried: covers 1-then-anything
        for forced in itertools.product((1, 0), repeat=k):
            calls = [(r_["bases"], r_["neg"], f) for r_, f in zip(strings, forced)]
            try:
                out = guarded("parity_meas", dict(kind="parity_seq", nd=nd, psi=lst(psi), calls=[list(c) for c in calls]),
                              lambda: case_parity_seq(ctx, R, nd, psi, calls))
            except sv_pipeline.ImpossibleOutcome:
                stats["parity_seq_skipped_zero_prob"] += 1
                continue
            if out is not None:
                ctx.note_case(("parity_seq", tuple(calls), i))
                stats["parity_seq"] += 1
    # --- histories: several parity measurements flushed as SEPARATE subroutines, handles read late
    for i in range(300 if thorough else 50):
        nd = rng.choice([1, 2, 3, 3])
        qubits = [(rng.choice("XYZ"), rng.randrange(2)) for _ in range(nd)]
        k = rng.choice([2, 3, 3, 4])
        mode = i % 3                          # 0: read only at the end; 1: read every one at once too; 2: mixed
        calls, wants = [], []
        for j in range(k):
            while True:
                bases = "".join(rng.choice(["I", q[0]]) for q in qubits)
                if i % 7 == 6 or any(c != "I" for c in bases):
                    break
            neg = rng.random() < 0.4
            w = int(neg)
            for (letter, bit), c in zip(qubits, bases):
                w ^= bit if c != "I" else 0
            if j == k - 1 and len(set(wants + [w])) == 1:
                neg = not neg                 # make sure the expected outcomes of a history are not all equal
                w ^= 1
            wants.append(w)
            calls.append((bases, neg, mode == 1 or (mode == 2 and rng.random() < 0.5)))
        out = guarded("parity_meas", dict(kind="parity_history", qubits=[list(q) for q in qubits], calls=[list(c) for c in calls]),
                      lambda: case_parity_history(ctx, R, qubits, calls))
        if out is not None:
            ctx.note_case(("parity_history", tuple(qubits), tuple(calls)))
            stats["parity_history"] += 1
    # --- state preparation
    grid = [0.0, math.pi / 2, math.pi, 3 * math.pi / 2, math.pi / 4, 1e-3, 2 * math.pi - 1e-3]
    cases = [(p, t) for p in grid for t in grid] if thorough else [(p, t) for p in grid[:4] for t in grid[:4]]
    cases += [(rng.uniform(-7, 14), rng.uniform(-7, 14)) for _ in range(300 if thorough else 40)]
    # adversarial angles: binary expansions (in units of pi) with long runs of one-bits, i.e. values just
    # below k*pi/2^j and just below 2*pi, where an expansion needs its last term to reach the tolerance
    adv = [3.141584, 3.141564, 6.2734, 6.274705, 4.319662]
    for j in range(0, 9):
        for kk in ([1, 2] if j == 0 else [1, 3, 2 ** j + 1, 2 ** (j + 1) - 1]):
            for eps in (2e-6, 1.1e-5, 2.9e-5, 6e-5, 1.3e-4, 2.4e-4, 4.9e-4, 9e-4, 3e-3, 8e-3):
                a = kk * math.pi / 2 ** j - eps
                if 0 < a < 2 * math.pi:
                    adv.append(a)
    adv = sorted(set(adv))
    if not thorough:
        adv = adv[:5] + rng.sample(adv, 120)
    n_plain = len(cases)
    for a in adv:
        other = rng.choice(grid + [rng.uniform(0, 6.28)])
        cases.append((a, other) if rng.random() < 0.5 else (other, a))
        if thorough:
            cases.append((other, a) if cases[-1][0] == a else (a, other))
    for ci, (phi, theta) in enumerate(cases):
        out = guarded("set_qubit_state", dict(kind="state_prep", phi=phi, theta=theta),
                      lambda: case_state_prep(ctx, R, phi, theta))
        if out is not None:
            note("state_prep", ("state_prep", phi, theta), out[0], nontrivial=abs(math.sin(theta / 2)) > 1e-6)
            if ci >= n_plain:
                stats["state_prep_adversarial"] += 1
    ctx.coverage["pipeline_runs"] = stats
    ctx.coverage["model_impl_mismatches"] = len(mism)
    ctx.samples = [dict(kind="toffoli", gates=(tb["toffoli"][:6] if tb else []) + ["..."]),
                   dict(kind="parity", bases=rows[100]["bases"], neg=rows[100]["neg"],
                        ops=tb["parity"][100]["ops"] if tb else None),
                   dict(kind="parity_seq", example="XZ ; -ZZ ; XZ with forced ancilla outcomes (1, 0, 1)"),
                   dict(kind="state_prep", phi=cases[-1][0], theta=cases[-1][1])]
    if mism and not ctx.violations:
        ctx.broken.append(f"correspondence pipeline vs Coq model: {len(mism)} differing cases, first: {mism[0]}")
    if (res is None or not res.ok) and not ctx.violations:
        search(ctx, R, tb)
    ctx.finish()


def search(ctx, R, tb):
    """A Coq obligation broke but no pipeline case failed: widen the pipeline runs."""
    rng = ctx.rng
    for _ in range(200):
        psi = rand_state(rng, 3)
        got = R.unitary("toffoli", psi)
        if dist_up_to_phase(got, TOFFOLI @ psi) > qc.TOL:
            ctx.violation("toffoli_gate differs from the Toffoli unitary", dict(kind="toffoli", psi=lst(psi), got=lst(got)),
                          key="C20:toffoli")
            return


def replay(ctx, path):
    rec = json.load(open(path))
    rec = rec.get("replay", rec)
    if "kind" not in rec:
        # the replay names a broken obligation, not an input: re-run the whole check
        print("replay: no concrete input recorded (broken obligation); running the full check")
        return run(ctx)
    R = Runner(ctx)

    def vec(l):
        return np.array([complex(a, b) for a, b in l])

    if rec["kind"] in ("toffoli", "t_inverse"):
        _, okd = case_unitary(ctx, R, dict(toffoli=TOFFOLI, t_inverse=TDG), rec["kind"], vec(rec["psi"]))
    elif rec["kind"] == "parity":
        nd = len(rec["bases"])
        row = dict(bases=rec["bases"], neg=rec["neg"], nd=nd, const=None if any(c != "I" for c in rec["bases"]) else int(rec["neg"]))
        try:
            _, okd, _ = case_parity(ctx, R, None, 0, row, vec(rec["psi"]), rec["forced"])
        except sv_pipeline.ImpossibleOutcome:
            okd = True
    elif rec["kind"] == "parity_seq":
        try:
            okd = case_parity_seq(ctx, R, rec["nd"], vec(rec["psi"]), [tuple(c) for c in rec["calls"]])
        except sv_pipeline.ImpossibleOutcome:
            okd = True
    elif rec["kind"] == "parity_history":
        okd = case_parity_history(ctx, R, [tuple(q) for q in rec["qubits"]], [tuple(c) for c in rec["calls"]])
    elif rec["kind"] == "state_prep":
        _, okd = case_state_prep(ctx, R, rec["phi"], rec["theta"])
    else:
        raise ValueError(rec)
    print("replay:", "passes now" if okd else "FAILS")
    ctx.finish()
