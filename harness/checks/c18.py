"""C18 — thread sockets deliver every message once and in order under any schedule.

Per run:
  1. extract the Coq model (Net/Hub.v) to OCaml, build the driver;
  2. compile props/C18.v (theorems for every schedule, any number of endpoints);
  3. replay the corpus (old defect witnesses) on the REAL hub under the scheduler -> oracle;
  4. random / PCT line-level schedules of small configurations on the REAL hub:
       a. step-level correspondence: the sequence of shared accesses (who, what) the
          hub performed is fed to the model as a schedule; model labels and final
          observation must be identical;
       b. the property oracle on the implementation's own observations;
       c. for configurations whose state graph is small, the model enumerates the SET
          of quiescent outcomes over all schedules; the implementation's outcome must
          be in it; (thorough) every model outcome is reproduced on the
          implementation by replaying its witness schedule;
  5. a sample of the schedules is re-evaluated by vm_compute inside Coq and compared
     with the OCaml output (extraction cross-check).
"""
import glob
import json
import os
import time

import hub_common as hc
import hub_sched as hs

CORPUS = os.path.join(hc.VERIF, "corpus", "C18")


def coq_key(k):
    return f"({k[0]}, {k[1]}, {k[2]})"


def coq_cfg(cfg):
    ths = []
    for th in hc.model_cfg(cfg):
        ops = []
        for o in th["ops"]:
            ops.append({"connect": "Connect", "recv": "Recv false", "recvnb": "Recv true",
                        "disconnect": "Disconnect"}.get(o[0]) or f"Send {o[1]}")
        ths.append(f"({coq_key(th['key'])}, {'true' if th['cb'] else 'false'}, [{'; '.join(ops)}])")
    return "[" + "; ".join(ths) + "]"


def flat_obs(o):
    """flatten the raw (unsorted) model outcome exactly like HubCheck.flat_obs"""
    out = []
    for th in o["threads"]:
        out.append(100)
        for r in th["res"]:
            out += [2, r[1]] if isinstance(r, list) else [{"ok": 0, "connerr": 1, "empty": 3, "indexerr": 4}[r]]
        out += [101, th["left"], 102] + th["store"] + [103, th["lost"]]
    out.append(104)
    for k, l in o["queues"]:
        out += k + [105] + l + [106]
    out.append(107)
    for k in o["open"]:
        out += k
    out.append(108)
    for k in o["rem"]:
        out += k
    return out


def bflat_obs(o):
    """flatten the raw model outcome of a broadcast run exactly like HubCheck.bflat_obs"""
    out = []
    for p in o["parties"]:
        out.append(100)
        for r in p["bres"]:
            out += [2, r[1], r[2]] if isinstance(r, list) else [{"ok": 0, "connerr": 1}[r]]
        out += [101, p["left"], 102]
        for r in p["res"]:
            out += [2, r[1]] if isinstance(r, list) else [{"ok": 0, "connerr": 1, "empty": 3, "indexerr": 4}[r]]
    out.append(104)
    for k, l in o["queues"]:
        out += k + [105] + l + [106]
    out.append(107)
    for k in o["open"]:
        out += k
    out.append(108)
    for k in o["rem"]:
        out += k
    return out


def coq_bcfg(cfg):
    ps = []
    for th in cfg:
        if th.get("kind") == "bc":
            ops = [{"bconnect": "BConnect", "brecv": "BRecv", "bclose": "BClose"}.get(o[0]) or f"BSend {o[1]}" for o in th["ops"]]
            ps.append(f"CB {th['app']} [{'; '.join(map(str, th['remotes']))}] [{'; '.join(ops)}]")
        else:
            ops = [{"connect": "Connect", "recv": "Recv false", "recvnb": "Recv true", "disconnect": "Disconnect"}.get(o[0])
                   or f"Send {o[1]}" for o in th["ops"] if o[0] != "setcb"]
            ps.append(f"CRaw {coq_key(th['key'])} [{'; '.join(ops)}]")
    return "[" + "; ".join(ps) + "]"


def one_run(ctx, drv, cfg, chooser, mode, info, trace_socket_py=False):
    """Run cfg on the implementation, compare with the model step by step, apply the oracle.
    Returns (run, canonical outcome, model answer, problems)."""
    r = hc.run_impl(cfg, chooser, mode=mode, trace_socket_py=trace_socket_py)
    if r.harness_errors:
        # the harness itself failed on this run: no verdict from it (never a property violation)
        HERR.append((r.harness_errors[0], dict(cfg=cfg, info=info)))
        return r, None, None, [], None
    ci = hc.canon_impl(r, cfg)
    sched = r.access_schedule()
    m = drv.run(sched)
    probs = []
    bad = hc.oracle(r, cfg)
    rep = dict(cfg=cfg, mode="access", schedule=sched, line_schedule=r.line_sched, impl_accesses=r.labels(),
               impl_outcome=ci, info=info, payloads={str(m): hc.pay(m) for m in range(1, 13)})
    for kind, what in bad:
        probs.append(("oracle", kind, what))
        ctx.violation(f"{kind}: {what}", dict(rep, oracle=[list(b) for b in bad]), key=None)
        break
    if m["labels"] != r.labels():
        i = next((j for j, (a, b) in enumerate(zip(m["labels"], r.labels())) if a != b), min(len(m["labels"]), len(r.labels())))
        probs.append(("labels", i, (m["labels"][i:i + 3], r.labels()[i:i + 3])))
    elif hc.canon_model(m["outcome"]) != ci:
        probs.append(("outcome", hc.canon_model(m["outcome"]), ci))
    return r, ci, m, probs, rep


def replay_entry(ctx, drv, rec, info):
    cfg = rec["cfg"]
    drv.set_cfg(cfg)
    ch = hs.list_chooser(rec["schedule"], then_round_robin=rec.get("then_round_robin", True))
    return one_run(ctx, drv, cfg, ch, rec.get("mode", "access"), info)


HERR = []        # (message, where) for runs the harness could not drive


class Deadline(Exception):
    pass


def arm_deadline(ctx, seconds):
    """Global wall-clock deadline of the whole check: whatever hangs, the main thread gets an exception, vlib
    turns it into a broken obligation and reports what was found so far."""
    import signal

    def on_alarm(signum, frame):
        raise Deadline(f"C18 global deadline of {seconds} s reached ({ctx.tier})")

    signal.signal(signal.SIGALRM, on_alarm)
    signal.setitimer(signal.ITIMER_REAL, seconds)


def too_many_leaks(ctx):
    if hs.LEAKED > 30:
        msg = (f"{hs.LEAKED} threads were left blocked in waits the scheduler cannot see (un-patched blocking "
               f"primitive in the hub): exploration stopped early")
        if msg not in ctx.notes:
            ctx.notes.append(msg)
        return True
    return False


def run(ctx):
    quick = ctx.tier == "quick"
    arm_deadline(ctx, 330 if quick else 1750)
    ctx.rule = ("configurations: 2-4 threads over 1-3 endpoint pairs (families pair, paircb = callback endpoints, twosock, "
                "threenode, reinc = a later endpoint re-using a key, switch = the receiver flips use_callbacks on its connected socket while the peer sends, structured = send_structured/recv_structured with one re-used message object changed in place between sends (compared with a deep copy taken at send time), storage = endpoints of every exported socket class (StorageThreadSocket as callback endpoint; the constructors are scheduling points), reconn = a (callback) receiver that stays connected while the sender disconnects, reconnects with the same socket id and sends again, lone = no peer, shared = two threads on one key), "
                "<= 4 send/recv/recv-nonblocking ops between connect and optional disconnect; each is run on the real "
                "hub under seeded random (pre-emption probability 0.03..0.7) and PCT-style (depth 2..5) line-level "
                "schedules; message payloads include the empty string, \"0\" and whitespace. A second stream runs "
                "ThreadBroadcastChannel endpoints (2-3 nodes all broadcasting, or one broadcast receiver polling 1-2 plain "
                "peers) under the same scheduler, compared step by step with Net/Bcast.v and judged by the broadcast oracle; a third runs two configurations in one "
                "process separated by reset_socket_hub() on the module-level hub. "
                "A case = (configuration, executed access schedule); non-trivial if at least one message "
                "was sent and the schedule switched threads at least twice; distinct = distinct (configuration, "
                "access schedule).")
    ctx.trusted += [
        "Coq Extraction (ExtrOcamlBasic only; nat stays inductive) + OCaml 4.13 compiler; ocaml/hub_driver.ml "
        "(nat<->int, JSON printing, breadth-first search over erased states keyed by MD5 of Marshal) — a sample of "
        "schedules is re-evaluated with vm_compute in Coq and compared",
        "harness/hub_sched.py: sys.settrace line-level scheduler, generic recording proxies around whatever containers "
        "the hub creates (kind and read/write discovered at run time); every blocking primitive the hub modules can name (Lock/RLock/Event/"
        "Condition/Semaphore, sleep, the threading and time modules) replaced in their namespaces by schedulable versions; "
        "wall-clock watchdog per resume, SIGALRM deadline for the whole check",
        "harness/hub_common.py: configuration generator, canonicaliser, oracle",
    ]
    ctx.assume += [
        "atomicity unit is a source line of socket_hub.py (one shared access per model step); GIL / bytecode-level "
        "interleavings inside a line are not explored",
        "callbacks are modelled as `storage.append(msg)` / a counter: user callback code (which may call back into the "
        "hub, even while disconnect holds the lock) is not modelled; WeakMethod targets are never garbage collected",
        "no wall-clock timeouts (timeout=None); sleep only yields; __del__-triggered disconnects are replaced by an "
        "explicit disconnect op; reset_socket_hub is not used while threads run",
        "messages are distinct per configuration; the model treats payloads as opaque numbers (the harness maps them "
        "to strings incl. falsy ones and back)",
        "broadcast endpoints: the model (Net/Bcast.v) covers BroadcastChannelBySockets.__init__/send/recv(block=True, "
        "timeout=None) and an explicit close of all sockets; its outcome sets are not enumerated (step-level "
        "correspondence + oracle only)",
        "a thread blocked in a wait the scheduler cannot see (un-patched blocking primitive) is taken off the schedule "
        "by a 2.5 s wall-clock watchdog; such runs are not reproducible step by step",
    ]
    drv = hc.Driver(ctx)
    ctx.gen_obligation("extraction of Net/Hub.v and OCaml driver build", drv.ok, (drv.err or "")[-400:])
    if not drv.ok:
        return ctx.finish()
    ctx.props("C18")

    cov = dict(families={}, runs=0, blocked_runs=0, result_kinds={}, access_len_hist={}, explored_cfgs=0,
               explore_states=0, explore_transitions=0, model_outcomes=0, model_outcomes_reproduced=0,
               model_outcomes_not_reproduced=0, inclusion_checked=0, corpus_replayed=0, socket_py_traced_runs=0)
    mism = []
    xsample = []

    def account(family, cfg, r, ci, m, probs, rep):
        if ci is None:
            cov["harness_failed_runs"] = cov.get("harness_failed_runs", 0) + 1
            return
        cov["runs"] += 1
        cov["families"][family] = cov["families"].get(family, 0) + 1
        if "blocked" in r.status:
            cov["blocked_runs"] += 1
        for th in ci["threads"]:
            for x in th["res"]:
                kk = x[0] if isinstance(x, list) else x
                cov["result_kinds"][kk] = cov["result_kinds"].get(kk, 0) + 1
        b = str(min(len(r.log) // 25 * 25, 200))
        cov["access_len_hist"][b] = cov["access_len_hist"].get(b, 0) + 1
        sched = r.access_schedule()
        switches = sum(1 for a, b2 in zip(sched, sched[1:]) if a != b2)
        sent_any = any(o[0] == "send" for th in cfg for o in th["ops"])
        ctx.note_case(hash((json.dumps(cfg), tuple(sched))), nontrivial=bool(sent_any and switches >= 2))
        for p in probs:
            if p[0] != "oracle":
                mism.append((p, rep))

    # ---- corpus (old witnesses; the oracle must hold on them now)
    for f in sorted(glob.glob(os.path.join(CORPUS, "*.json"))):
        rec = json.load(open(f))
        if rec.get("kind") == "bcast":
            replay_bcast(ctx, rec, dict(corpus=os.path.basename(f)))
            cov["corpus_replayed"] += 1
            continue
        if rec.get("kind") == "tworun":
            two_runs(ctx, drv, rec["cfg1"], rec["cfg2"], hs.list_chooser(rec["schedule1"]), hs.list_chooser(rec["schedule2"]),
                     dict(corpus=os.path.basename(f)), mism)
            cov["corpus_replayed"] += 1
            continue
        r, ci, m, probs, rep = replay_entry(ctx, drv, rec, dict(corpus=os.path.basename(f)))
        cov["corpus_replayed"] += 1
        account("corpus", rec["cfg"], r, ci, m, probs, rep)

    # ---- generated configurations
    n_cfg = 110 if quick else 900
    n_sched = 24 if quick else 60
    max_states = 60000 if quick else 400000
    t_budget = 55 if quick else 400
    t_start = time.time()
    rng = ctx.rng
    for c in range(n_cfg):
        if time.time() - t_start > t_budget or too_many_leaks(ctx):
            ctx.notes.append(f"time budget reached after {c} configurations")
            break
        family, cfg = hc.gen_cfg(rng)
        drv.set_cfg(cfg)
        est = sum(8 * len(th["ops"]) for th in cfg)
        outs, st = (None, None)
        nthreads = len(cfg)
        if nthreads <= 3 or not quick:
            outs, st = drv.explore(max_states)
            cov["explore_states"] += st["states"]
            cov["explore_transitions"] += st["transitions"]
            if st["complete"]:
                cov["explored_cfgs"] += 1
                cov["model_outcomes"] += len(outs)
            else:
                outs = None
        oset = {hc.okey(o) for o, _ in outs} if outs is not None else None
        seen_outcomes = set()
        for s in range(n_sched):
            if time.time() - t_start > t_budget + 15 or too_many_leaks(ctx):
                break
            kind = rng.random()
            if kind < 0.6:
                p = rng.choice([0.03, 0.1, 0.3, 0.7])
                ch, info = hs.random_chooser(rng, p), dict(chooser="random", p=p)
            else:
                d = rng.randint(2, 5)
                ch, info = hs.pct_chooser(rng, nthreads, d, est), dict(chooser="pct", depth=d)
            tsp = (not quick) and s % 10 == 0
            if tsp:
                cov["socket_py_traced_runs"] += 1
            info["family"] = family
            r, ci, m, probs, rep = one_run(ctx, drv, cfg, ch, "line", info, trace_socket_py=tsp)
            account(family, cfg, r, ci, m, probs, rep)
            if ci is None:
                if len(HERR) > 25:
                    break
                continue
            seen_outcomes.add(hc.okey(ci))
            if oset is not None:
                cov["inclusion_checked"] += 1
                if hc.okey(ci) not in oset:
                    mism.append((("not-in-model-outcome-set", ci), rep))
            if len(xsample) < (40 if quick else 150) and s == 0:
                xsample.append((cfg, r.access_schedule(), flat_obs(m["outcome"])))
            if len(ctx.samples) < 4 and s == 1:
                ctx.samples.append(dict(cfg=cfg, access_schedule=r.access_schedule(), outcome=ci))
        # completeness direction: model outcomes replayed on the implementation
        if outs is not None and (not quick or len(outs) <= 6):
            for o, wsched in outs:
                if time.time() - t_start > t_budget + 25 or too_many_leaks(ctx):
                    break
                if hc.okey(o) in seen_outcomes:
                    cov["model_outcomes_reproduced"] += 1
                    continue
                r, ci, m, probs, rep = one_run(ctx, drv, cfg, hs.list_chooser(wsched, then_round_robin=False),
                                               "access", dict(family=family, chooser="model-witness"))
                account(family, cfg, r, ci, m, probs, rep)
                if ci is None:
                    continue
                if ci == o:
                    cov["model_outcomes_reproduced"] += 1
                else:
                    cov["model_outcomes_not_reproduced"] += 1
                    mism.append((("model-outcome-not-reproduced", o, ci), rep))
        elif outs is not None:
            cov["model_outcomes_reproduced"] += sum(1 for o, _ in outs if hc.okey(o) in seen_outcomes)
    # ---- several runs in one process: run, reset_socket_hub(), run again on the same names; the run after the
    # reset must behave as on a fresh hub (model: reset returns to init) — on the hub object the exported socket
    # classes are really bound to
    cov["tworun_cases"] = 0
    t_two = time.time()
    for c in range(10 if quick else 80):
        if time.time() - t_two > (12 if quick else 60) or too_many_leaks(ctx):
            break
        cfg1, cfg2 = hc.gen_two_runs(rng)
        for s2 in range(4 if quick else 10):
            p1, p2 = rng.choice([0.05, 0.3, 0.7]), rng.choice([0.05, 0.3, 0.7])
            two_runs(ctx, drv, cfg1, cfg2, hs.random_chooser(rng, p1), hs.random_chooser(rng, p2),
                     dict(chooser="random", p=[p1, p2]), mism)
            cov["tworun_cases"] += 1
    # ---- broadcast channels over thread sockets: oracle + step-level correspondence with Net/Bcast.v
    n_bc = 16 if quick else 140
    n_bs = 10 if quick else 36
    cov["bcast_runs"] = 0
    bxsample = []
    cov["bcast_shapes"] = {}
    cov["bcast_blocked_runs"] = 0
    t_bc = time.time()
    for c in range(n_bc):
        if time.time() - t_bc > (20 if quick else 100) or too_many_leaks(ctx):
            ctx.notes.append(f"broadcast time budget reached after {c} configurations")
            break
        shape, cfg = hc.gen_bcast(rng)
        for s in range(n_bs):
            if time.time() - t_bc > (30 if quick else 120) or too_many_leaks(ctx):
                break
            if rng.random() < 0.6:
                pp = rng.choice([0.03, 0.1, 0.3, 0.7])
                ch, info = hs.random_chooser(rng, pp), dict(chooser="random", p=pp)
            else:
                d = rng.randint(2, 5)
                ch, info = hs.pct_chooser(rng, len(cfg), d, 40 * len(cfg)), dict(chooser="pct", depth=d)
            r = hc.run_impl_bc(cfg, ch)
            if r.harness_errors:
                HERR.append((r.harness_errors[0], dict(kind="bcast", cfg=cfg, info=info)))
                continue
            cov["bcast_runs"] += 1
            # step-level correspondence with Net/Bcast.v (one endpoint owning several sockets)
            bm = hc.brun_model(drv, cfg, r.access_schedule())
            bci = hc.canon_impl_bc(r, cfg)
            if bm["labels"] != r.labels() or hc.canon_model_bc(bm["outcome"]) != bci:
                i = next((j for j, (a, b) in enumerate(zip(bm["labels"], r.labels())) if a != b),
                         min(len(bm["labels"]), len(r.labels())))
                what = (("bcast-labels", i, (bm["labels"][i:i + 3], r.labels()[i:i + 3])) if bm["labels"] != r.labels()
                        else ("bcast-outcome", hc.canon_model_bc(bm["outcome"]), bci))
                mism.append((what, dict(kind="bcast", cfg=cfg, mode="line", schedule=r.line_sched,
                                        access_schedule=r.access_schedule(), impl_accesses=r.labels(), impl_outcome=bci,
                                        info=dict(info, shape=shape))))
            if len(bxsample) < (10 if quick else 40) and s == 0:
                bxsample.append((cfg, r.access_schedule(), bflat_obs(bm["outcome"])))
            cov["bcast_shapes"][shape] = cov["bcast_shapes"].get(shape, 0) + 1
            cov["bcast_blocked_runs"] += int("blocked" in r.status)
            ctx.note_case(hash((json.dumps(cfg), tuple(r.line_sched))), nontrivial=bool(r.appended))
            bad = hc.oracle_bcast(r, cfg)
            if bad:
                ctx.violation(f"{bad[0][0]}: {bad[0][1]}",
                              dict(kind="bcast", cfg=cfg, payloads={str(m): hc.pay(m) for m in range(1, 13)},
                                   mode="line", schedule=r.line_sched, impl_accesses=r.log,
                                   results=[[list(z[:2]) for z in rr] for rr in r.results], status=r.status,
                                   oracle=[list(b) for b in bad], info=dict(info, shape=shape)), key=None)
            if len(ctx.samples) < 6 and s == 0 and c < 2:
                ctx.samples.append(dict(bcast_cfg=cfg, results=[[z[1] for z in rr] for rr in r.results]))
    cov["traces_validated_against_impl"] = cov["runs"]
    cov["states"] = cov["explore_states"]
    cov["transitions"] = cov["explore_transitions"]

    # ---- extraction cross-check inside Coq
    if xsample:
        files = []
        per = 20
        for i in range(0, len(xsample), per):
            fn = f"cases_hub_{i // per}.v"
            with open(os.path.join(ctx.build, fn), "w") as f:
                f.write("From Coq Require Import List Bool.\nFrom NQ Require Import Net.Hub Net.HubCheck.\nImport ListNotations.\n")
                f.write("Definition cs : list case := [\n")
                f.write(";\n".join(f"({coq_cfg(cfg)}, [{'; '.join(map(str, sch))}], [{'; '.join(map(str, ex))}])"
                                   for cfg, sch, ex in xsample[i:i + per]))
                f.write("].\nEval vm_compute in (failing cs).\n")
            files.append(fn)
        if bxsample:
            fn = "cases_hub_bcast.v"
            with open(os.path.join(ctx.build, fn), "w") as f:
                f.write("From Coq Require Import List Bool.\nFrom NQ Require Import Net.Hub Net.Bcast Net.HubCheck.\nImport ListNotations.\n")
                f.write("Definition cs : list bcase := [\n")
                f.write(";\n".join(f"({coq_bcfg(cfg)}, [{'; '.join(map(str, sch))}], [{'; '.join(map(str, ex))}])"
                                   for cfg, sch, ex in bxsample))
                f.write("].\nEval vm_compute in (bfailing cs).\n")
            files.append(fn)
            cov["coq_crosscheck_bcast_schedules"] = len(bxsample)
        res = ctx.run_case_files(files, timeout=600)
        okc = 0
        for fn, rr in res.items():
            good = rr.ok and "= []" in rr.out
            okc += good
            if not good:
                ctx.broken.append(f"extraction cross-check {fn}: Coq vm_compute and OCaml disagree or file failed: "
                                  f"{(rr.out + rr.err).strip()[-300:]}")
        ctx.gen_obligation("OCaml-extracted model agrees with vm_compute on the sampled schedules", okc == len(files))
        cov["coq_crosscheck_schedules"] = len(xsample)

    # ---- the harness could not drive the hub on some runs: a broken obligation, and the free-running oracle-only
    # stream decides whether the property itself fails on this tree
    if HERR:
        ctx.broken.append(f"harness could not drive the hub on {len(HERR)} runs (no verdict from them); first: {HERR[0][0][:300]}")
        cov["harness_errors"] = len(HERR)
        if not ctx.violations:
            free_stream(ctx, 40 if quick else 120)
    # ---- verdict on the correspondence
    if mism:
        p, rep = mism[0]
        ctx.broken.append(f"correspondence Net/Hub.v vs socket_hub.py: {len(mism)} differing runs; first: {str(p)[:400]}")
        if not ctx.violations:
            found = search(ctx, drv, [rep for _, rep in mism[:6]])
            if not found:
                ctx.violation("model and implementation disagree (" + str(p)[:300] + "); the property oracle held on "
                              "every schedule tried, so no failing input for the property itself was found",
                              dict(rep, mismatch=str(p)[:2000]), key=None, found_input=False)
    ctx.coverage.update(cov)
    drv.close()
    ctx.finish()


def two_runs(ctx, drv, cfg1, cfg2, ch1, ch2, info, mism):
    o = hc.run_two(cfg1, cfg2, ch1, ch2)
    r1, r2 = o["r1"], o["r2"]
    for r, cfg in ((r1, cfg1), (r2, cfg2)):
        if r.harness_errors:
            HERR.append((r.harness_errors[0], dict(kind="tworun", cfg=cfg, info=info)))
    if "bad2" not in o or "bad1" not in o:
        return o
    rep = dict(kind="tworun", cfg1=cfg1, schedule1=r1.line_sched, cfg2=cfg2, schedule2=r2.line_sched, mode="line",
               accesses2=r2.labels(), outcome1=o["ci1"], outcome2=o["ci2"], info=info,
               payloads={str(m): hc.pay(m) for m in range(1, 30)})
    ctx.note_case(hash((json.dumps(cfg1), json.dumps(cfg2), tuple(r1.line_sched), tuple(r2.line_sched))), nontrivial=True)
    if o["bad2"]:
        b = o["bad2"][0]
        ctx.violation(f"after reset_socket_hub(): {b[0]}: {b[1]} (the earlier run of this process left "
                      f"{o['ci1']['queues']} queued, open {o['ci1']['open']})", dict(rep, oracle=[list(x) for x in o["bad2"]]))
    elif o["bad1"]:
        b = o["bad1"][0]
        ctx.violation(f"{b[0]}: {b[1]}", dict(rep, oracle=[list(x) for x in o["bad1"]]))
    # the run after the reset must be a run of the model from its initial state
    for r, cfg, ci, tag in ((r1, cfg1, o["ci1"], "first run"), (r2, cfg2, o["ci2"], "run after reset")):
        drv.set_cfg(cfg)
        m = drv.run(r.access_schedule())
        if m["labels"] != r.labels() or hc.canon_model(m["outcome"]) != ci:
            i = next((j for j, (a, b) in enumerate(zip(m["labels"], r.labels())) if a != b), min(len(m["labels"]), len(r.labels())))
            what = (("labels " + tag, i, (m["labels"][i:i + 3], r.labels()[i:i + 3])) if m["labels"] != r.labels()
                    else ("outcome " + tag, hc.canon_model(m["outcome"]), ci))
            mism.append((what, rep))
    return o


def replay_bcast(ctx, rec, info):
    cfg = rec["cfg"]
    r = hc.run_impl_bc(cfg, hs.list_chooser(rec["schedule"], then_round_robin=rec.get("then_round_robin", True)))
    if r.harness_errors:
        HERR.append((r.harness_errors[0], dict(kind="bcast", cfg=cfg, info=info)))
        return r, []
    bad = hc.oracle_bcast(r, cfg)
    if bad:
        ctx.violation(f"{bad[0][0]}: {bad[0][1]}",
                      dict(kind="bcast", cfg=cfg, mode="line", schedule=r.line_sched, impl_accesses=r.log,
                           results=[[list(z[:2]) for z in rr] for rr in r.results], status=r.status,
                           oracle=[list(b) for b in bad], info=info), key=None)
    return r, bad


def free_stream(ctx, budget):
    """oracle-only: real threads on a real hub, no scheduler; returns True when a failing input was found"""
    rng = ctx.rng
    t0 = time.time()
    n = 0
    while time.time() - t0 < budget:
        fam, cfg = hc.gen_cfg(rng)
        if any(th["cb"] and any(o[0] in ("recv", "recvnb") for o in th["ops"]) for th in cfg):
            continue
        for _ in range(3):
            fr = hc.free_run(cfg, rng)
            n += 1
            bad = hc.oracle_free(fr, cfg)
            if bad:
                ctx.violation(f"{bad[0][0]}: {bad[0][1]} (free-running threads)",
                              dict(kind="free", cfg=cfg, payloads={str(m): hc.pay(m) for m in range(1, 13)},
                                   results=[[list(z[:2]) for z in rr] for rr in fr["results"]], storage=fr["storage"],
                                   queues={str(k): v for k, v in (fr["queues"] or {}).items()},
                                   oracle=[list(b) for b in bad], info=dict(family=fam)))
                ctx.coverage["free_runs"] = n
                return True
    ctx.coverage["free_runs"] = n
    return False


# configurations aimed at blocking / wake-up defects: several receivers waiting at the same time (on different
# sockets and on one socket), bursts queued before the receives, receive-before-send on both sides
PROBES = [
    [dict(key=[0, 1, 0], cb=False, ops=[["connect"], ["send", 1]]), dict(key=[1, 0, 0], cb=False, ops=[["connect"], ["recv"]]),
     dict(key=[0, 1, 1], cb=False, ops=[["connect"], ["send", 3]]), dict(key=[1, 0, 1], cb=False, ops=[["connect"], ["recv"]])],
    [dict(key=[0, 1, 0], cb=False, ops=[["connect"], ["send", 1], ["send", 3], ["send", 5]]),
     dict(key=[1, 0, 0], cb=False, ops=[["connect"], ["recv"], ["recv"], ["recv"]])],
    [dict(key=[0, 1, 0], cb=False, ops=[["connect"], ["recv"], ["send", 1]]),
     dict(key=[1, 0, 0], cb=False, ops=[["connect"], ["send", 3], ["recv"]])],
    [dict(key=[0, 1, 0], cb=False, ops=[["connect"], ["send", 1], ["send", 3]]),
     dict(key=[1, 0, 0], cb=False, ops=[["connect"], ["recv"]]), dict(key=[1, 0, 0], cb=False, ops=[["connect"], ["recv"]])],
    [dict(key=[0, 1, 0], cb=False, ops=[["connect"], ["send", 1]]), dict(key=[1, 0, 0], cb=False, ops=[["connect"], ["recv"]]),
     dict(key=[2, 1, 0], cb=False, ops=[["connect"], ["send", 3]]), dict(key=[1, 2, 0], cb=False, ops=[["connect"], ["recv"]])],
]


def search(ctx, drv, reps):
    """The model no longer describes the code: look harder for a schedule on which the
    property itself fails (more schedules on the differing configurations, high pre-emption,
    plus the corpus schedules)."""
    rng = ctx.rng
    t_search = time.time()
    for rep in reps:
        if rep.get("kind") == "tworun":
            continue
        cfg = rep["cfg"]
        if rep.get("kind") == "bcast":
            for i in range(60):
                if time.time() - t_search > 40 or too_many_leaks(ctx):
                    return False
                r = hc.run_impl_bc(cfg, hs.random_chooser(rng, rng.choice([0.1, 0.3, 0.6])))
                bad = hc.oracle_bcast(r, cfg)
                if bad:
                    ctx.violation(f"{bad[0][0]}: {bad[0][1]}",
                                  dict(kind="bcast", cfg=cfg, mode="line", schedule=r.line_sched, impl_accesses=r.log,
                                       oracle=[list(b) for b in bad], info=dict(search=True)))
                    return True
            continue
        drv.set_cfg(cfg)
        for i in range(150):
            if time.time() - t_search > 40 or too_many_leaks(ctx):
                return False
            ch = hs.random_chooser(rng, rng.choice([0.3, 0.6, 0.9])) if i % 2 else hs.pct_chooser(rng, len(cfg), rng.randint(2, 6), 120)
            r = hc.run_impl(cfg, ch, mode="line")
            bad = hc.oracle(r, cfg)
            if bad:
                ctx.violation(f"{bad[0][0]}: {bad[0][1]}",
                              dict(cfg=cfg, mode="access", schedule=r.access_schedule(), impl_accesses=r.labels(),
                                   impl_outcome=hc.canon_impl(r, cfg), oracle=[list(b) for b in bad], info=dict(search=True)))
                return True
    # nothing on the differing configurations: probe configurations, then freshly generated ones, oracle only
    t_probe = time.time()
    budget = 45
    gen = (cfg for cfg in PROBES)
    while time.time() - t_probe < budget and not too_many_leaks(ctx):
        cfg = next(gen, None)
        if cfg is None:
            cfg = hc.gen_cfg(rng)[1]
        for i in range(40):
            if time.time() - t_probe > budget:
                break
            ch = hs.random_chooser(rng, rng.choice([0.05, 0.3, 0.7])) if i % 2 else hs.pct_chooser(rng, len(cfg), rng.randint(2, 5), 120)
            r = hc.run_impl(cfg, ch, mode="line")
            if r.harness_errors:
                break
            bad = hc.oracle(r, cfg)
            if bad:
                ctx.violation(f"{bad[0][0]}: {bad[0][1]}",
                              dict(cfg=cfg, mode="access", schedule=r.access_schedule(), line_schedule=r.line_sched,
                                   impl_accesses=r.labels(), impl_outcome=hc.canon_impl(r, cfg),
                                   payloads={str(m): hc.pay(m) for m in range(1, 13)},
                                   oracle=[list(b) for b in bad], info=dict(search="probe")))
                return True
    return False


def replay(ctx, path):
    arm_deadline(ctx, 300)
    rec = json.load(open(path))
    rec = rec.get("replay", rec)
    if rec.get("kind") == "bcast":
        r, bad = replay_bcast(ctx, rec, dict(replay=path))
        print("replay: results", [[z[1] for z in rr] for rr in r.results], r.status)
        print("replay: oracle", bad)
        return ctx.finish()
    drv = hc.Driver(ctx)
    if not drv.ok:
        ctx.gen_obligation("extraction of Net/Hub.v and OCaml driver build", False, drv.err[-400:])
        return ctx.finish()
    if rec.get("kind") == "tworun":
        mm = []
        o = two_runs(ctx, drv, rec["cfg1"], rec["cfg2"], hs.list_chooser(rec["schedule1"]), hs.list_chooser(rec["schedule2"]),
                     dict(replay=path), mm)
        print("replay: first run", o.get("ci1"), o.get("bad1"))
        print("replay: run after reset", o.get("ci2"), o.get("bad2"))
        print("replay: model", "agrees" if not mm else mm[0][0])
        return ctx.finish()
    r, ci, m, probs, rep = replay_entry(ctx, drv, rec, dict(replay=path))
    print("replay: accesses", r.labels())
    print("replay: outcome", json.dumps(ci))
    print("replay: oracle", hc.oracle(r, rec["cfg"]))
    print("replay: model", "agrees" if not [p for p in probs if p[0] != "oracle"] else probs)
    if probs and not ctx.violations:
        ctx.violation("model and implementation disagree on the replayed schedule: " + str(probs[0])[:300], rep,
                      found_input=False)
    ctx.finish()
