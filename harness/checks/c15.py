"""C15 — host/controller messages survive serialisation."""
import os
import re

import msg_tables as mt
from coqemit import lst, s, z

HEADER = """From Coq Require Import ZArith List String.
From NQ Require Import Base.Bits Lang.Codec Lang.CodecCheck Lang.MsgCodec Lang.MsgCheck.
From Gen Require Import Gen_Msg.
Import ListNotations.
Open Scope Z_scope.
Open Scope string_scope.
"""


def field_values(inst, leaves):
    import codec_tables as ct
    return [ct.read_leaf(inst, lf[0]) for lf in leaves[1:]]


def coq_opt(v):
    return "None" if v is None else f"(Some {z(v)})"


def coq_opmsg(p):
    return "None" if p is None else f"(Some {coq_pmsg(p)})"


def coq_pmsg(p):
    k = p[0]
    if k == "fixed":
        return f"(PFixed {s(p[1])} {lst(z(v) for v in p[2])})"
    if k == "sub":
        return f"(PSub {lst(z(v) for v in p[1])})"
    return f"(PArr {z(p[1])} {lst(coq_opt(v) for v in p[2])})"


def view_impl(t, m):
    """canonical view of a deserialised implementation message"""
    name = type(m).__name__
    for row in t["host"] + t["ret"]:
        if row["name"] == name:
            if row["kind"] == "fixed":
                return ("fixed", name, field_values(m, row["leaves"]))
            if row["kind"] == "sub":
                return ("sub", list(m.subroutine))
            return ("arr", m.address, list(m.values))
    raise RuntimeError(name)


def boundary(lo, hi, rng):
    return rng.choice([lo, hi, 0 if lo <= 0 <= hi else lo, lo + 1, hi - 1, rng.randint(lo, hi)])


def gen_messages(ctx, t, n):
    """yield (direction, message object, pmsg view of what was constructed)"""
    import codec_tables as ct
    rng = ctx.rng
    M, enc = t["M"], t["encoding"]
    out = []
    for direction, rows in (("host", t["host"]), ("ret", t["ret"])):
        for row in rows:
            for _ in range(n):
                if row["kind"] == "fixed":
                    cls = row["cls"]
                    inst = cls.__new__(cls)
                    # construct through the class's own constructor where possible (defaults), then set every leaf
                    try:
                        inst = cls()
                    except TypeError:
                        if cls.__name__ == "ErrorMessage":
                            inst = cls(M.ErrorCode.GENERAL)
                        elif cls.__name__ == "ReturnRegMessage":
                            inst = cls(enc.Register(0, 0), 0)
                        else:
                            raise
                    for lf in row["leaves"][1:]:
                        w, signed = lf[2], lf[3]
                        lo, hi = (-(2 ** (w - 1)), 2 ** (w - 1) - 1) if signed else (0, 2 ** w - 1)
                        v = boundary(lo, hi, rng)
                        obj = inst
                        parts = lf[0].split(".")
                        for p in parts[:-1]:
                            obj = getattr(obj, p)
                        setattr(obj, parts[-1], v)
                    out.append((direction, inst, ("fixed", row["name"], field_values(inst, row["leaves"]))))
                elif row["kind"] == "sub":
                    body = bytes(rng.randint(0, 255) for _ in range(rng.choice([0, 4, 11, 18, 4 + 7 * rng.randint(0, 30)])))
                    if rng.random() < 0.5:
                        # bodies that begin with (repetitions of) a type byte: the tag must be cut by length, not by value
                        body = bytes([rng.choice([row["type"], 0, 1, 2, 3, 4])] * rng.randint(1, 3)) + body
                    out.append((direction, row["cls"](subroutine=body), ("sub", list(body))))
                else:
                    ln = rng.choice([0, 1, 2, 3, 5, 8, 16, 33, 64, rng.randint(0, 64), rng.randint(0, 64), 255, 256, 257, 300, 1000])
                    vals = []
                    for _ in range(ln):
                        m = rng.random()
                        if m < 0.35:
                            vals.append(None)
                        elif m < 0.6:
                            vals.append(rng.choice([0, 1, -1, 2 ** 31 - 1, -2 ** 31]))
                        else:
                            vals.append(rng.randint(-2 ** 31, 2 ** 31 - 1))
                    addr = rng.choice([0, 1, 7, 2 ** 31 - 1, -1, rng.randint(0, 1000)])
                    out.append((direction, row["cls"](address=addr, values=vals), ("arr", addr, vals)))
    return out


DECLARED = {  # frozen: constructor argument -> (bits, signed); see Lang/MsgCodec.v ref_msg_widths
    "InitNewAppMessage": dict(app_id=(32, False), max_qubits=(8, False)),
    "OpenEPRSocketMessage": dict(app_id=(32, False), epr_socket_id=(32, True), remote_node_id=(32, True),
                                 remote_epr_socket_id=(32, True), min_fidelity=(8, False)),
    "StopAppMessage": dict(app_id=(32, False)),
    "MsgDoneMessage": dict(msg_id=(32, False)),
}


def message_object_history(ctx, t, msgs):
    """One message OBJECT through a history: len(m), bytes(m), change public fields in place (values[i] = ...,
    values replaced, address / subroutine / a fixed field re-assigned), bytes(m) again: the second serialisation
    must decode to the object's current content (a packed form cached on the object would show here)."""
    M = t["M"]
    rng = ctx.rng
    done = 0
    for direction, m, pv in msgs:
        deser = M.deserialize_host_msg if direction == "host" else M.deserialize_return_msg
        try:
            len(m)
            bytes(m)
        except Exception:
            continue
        change = None
        try:
            if pv[0] == "arr":
                vals = list(pv[2])
                if vals and rng.random() < 0.6:
                    i = rng.randrange(len(vals))
                    nv = None if vals[i] is not None else rng.randint(-2 ** 31, 2 ** 31 - 1)
                    m.values[i] = nv
                    vals[i] = nv
                    change = ["values[i]=", i, nv]
                elif rng.random() < 0.5:
                    vals = vals + [rng.choice([None, 0, -1, 7])]
                    m.values = list(vals)
                    change = ["values=", "one entry appended"]
                else:
                    addr = rng.choice([0, 3, 2 ** 31 - 1, -1])
                    m.address = addr
                    pv = ("arr", addr, vals)
                    change = ["address=", addr]
                want = ("arr", pv[1], vals)
            elif pv[0] == "sub":
                body = bytes(rng.randint(0, 255) for _ in range(rng.choice([0, 4, 11, 18])))
                m.subroutine = body
                want = ("sub", list(body))
                change = ["subroutine=", len(body)]
            else:
                row = next(r for r in (t["host"] + t["ret"]) if r["kind"] == "fixed" and r["name"] == pv[1])
                leaves = [lf for lf in row["leaves"][1:]]
                if not leaves:
                    continue
                lf = rng.choice(leaves)
                w, signed = lf[2], lf[3]
                lo, hi = (-(2 ** (w - 1)), 2 ** (w - 1) - 1) if signed else (0, 2 ** w - 1)
                v = boundary(lo, hi, rng)
                obj = m
                parts = lf[0].split(".")
                for q in parts[:-1]:
                    obj = getattr(obj, q)
                setattr(obj, parts[-1], v)
                want = ("fixed", row["name"], field_values(m, row["leaves"]))
                change = [lf[0] + "=", v]
        except Exception:
            continue
        done += 1
        ctx.note_case(("message-object-history", direction, str(pv)[:200], str(change)))
        try:
            got = view_impl(t, deser(bytes(m)))
        except Exception as e:  # noqa
            got = f"raises {type(e).__name__}"
        if got != want:
            ctx.violation("a message object serialised, changed in place and serialised again does not carry its current content",
                          dict(direction=direction, message=pv, change=change, current_content=want, decoded=got))
    ctx.coverage["message_object_histories"] = done


def subroutine_object_history(ctx, t, n):
    """A SubroutineMessage built from a Subroutine OBJECT: message 1, change the object in place (app id setter,
    instructions[i] = ..., append), message 2 from the same object.  The second message must carry the object's
    current content (a serialisation cached on the object would show here)."""
    import codec_impl as ci
    from netqasm.lang.parsing import deserialize
    M = t["M"]
    rng = ctx.rng
    impl = ci.Impl(ctx.repo)
    rows = impl.t["flavours"]["vanilla"]["rows"]
    done = 0
    for _ in range(n):
        body = [ci.gen_in_range_instr(rng, rng.choice(rows)) for _ in range(rng.randint(1, 6))]
        app = rng.choice([0, 1, 255, 65535, rng.randint(0, 65535)])
        try:
            sub = impl.Subroutine(instructions=[impl.build_instr(impl.rows["vanilla"][nm], lv) for nm, lv in body],
                                  netqasm_version=(1, 0), app_id=app)
            m1 = M.SubroutineMessage(subroutine=sub)
            bytes(m1)
        except Exception:
            continue
        muts = []
        for _k in range(rng.randint(1, 3)):
            kind = rng.choice(["app", "replace", "append"])
            if kind == "app":
                app = rng.choice([0, 7, 65535, rng.randint(0, 65535)])
                sub.app_id = app
                muts.append(["app_id", app])
            elif kind == "replace":
                i = rng.randrange(len(body))
                new = ci.gen_in_range_instr(rng, rng.choice(rows))
                sub.instructions[i] = impl.build_instr(impl.rows["vanilla"][new[0]], new[1])
                body[i] = new
                muts.append(["instructions[i]=", i, list(new)])
            else:
                new = ci.gen_in_range_instr(rng, rng.choice(rows))
                sub.instructions.append(impl.build_instr(impl.rows["vanilla"][new[0]], new[1]))
                body.append(new)
                muts.append(["append", list(new)])
        done += 1
        ctx.note_case(("subroutine-object-history", str(body), str(muts)))
        try:
            m2 = M.SubroutineMessage(subroutine=sub)
            back = M.deserialize_host_msg(bytes(m2))
            inner = deserialize(bytes(back.subroutine))
            got = (inner.app_id, [impl.view_instr(i) for i in inner.instructions])
        except Exception as e:  # noqa
            got = f"raises {type(e).__name__}"
        want = (app, [(nm, list(lv)) for nm, lv in body])
        if got != want:
            ctx.violation("a SubroutineMessage built from a Subroutine object that was changed in place after an earlier "
                          "message does not carry the object's current content",
                          dict(direction="host", message_class="SubroutineMessage", changes=muts,
                               current_content=[want[0], [[a, b] for a, b in want[1]]],
                               decoded=got if isinstance(got, str) else [got[0], [[a, list(b)] for a, b in got[1]]]))
    ctx.coverage["subroutine_object_histories"] = done


def constructor_oracle(ctx, t, n):
    """Build messages through their constructors with values from the DECLARED ranges (not the
    regenerated ones), serialise, deserialise from bytes and from a reused writable buffer."""
    M = t["M"]
    rng = ctx.rng
    for name, fields in DECLARED.items():
        cls = getattr(M, name, None)
        if cls is None:
            ctx.violation("a declared message class disappeared", dict(message_class=name))
            continue
        deser = M.deserialize_host_msg if name != "MsgDoneMessage" else M.deserialize_return_msg
        for _ in range(n):
            kw = {}
            for f, (bits, signed) in fields.items():
                lo, hi = (-(2 ** (bits - 1)), 2 ** (bits - 1) - 1) if signed else (0, 2 ** bits - 1)
                kw[f] = rng.choice([lo, hi, hi - 1, (hi + 1) // 2, 65536 if hi >= 65536 else hi, 70000 if hi >= 70000 else lo,
                                    rng.randint(lo, hi)])
            ctx.note_case(("ctor", name, tuple(sorted(kw.items()))))
            try:
                m = cls(**kw)
                raw = bytes(m)
                back = deser(raw)
                got = {f: getattr(back, f) for f in kw}
                ok = type(back) is cls and got == kw
            except Exception as e:  # noqa
                got, ok = f"raises {type(e).__name__}: {e}", False
            if not ok:
                ctx.violation("a message built with field values inside their declared widths does not come back with them",
                              dict(message_class=name, constructed_with=kw, got=got))
                continue
            # aliasing: deserialise from a writable receive buffer, then reuse the buffer
            buf = bytearray(raw)
            try:
                back = deser(buf)
            except Exception:
                continue  # the unchanged tree rejects bytearray for some classes: not an input of the property
            for i in range(len(buf)):
                buf[i] = (buf[i] + 0x55) % 256 if i else buf[i]
            got = {f: getattr(back, f) for f in kw}
            if got != kw:
                ctx.violation("a deserialised message changes when the buffer it was read from is reused",
                              dict(message_class=name, constructed_with=kw, after_buffer_reuse=got))


def run(ctx):
    ctx.rule = ("every message class of both directions x boundary/random field values (read back from the constructed "
                "ctypes object) ; SubroutineMessage with random bodies; ReturnArrayMessage with length 0..64 and random "
                "patterns of undefined entries; plus random/malformed byte strings for decode; distinct = distinct bytes; "
                "non-trivial = carries at least one field/entry")
    ok, err = ctx.gen("msg_tables.py", "Gen_Msg.v")
    ctx.gen_obligation("translator msg_tables.py understands the source", ok, err.strip()[-300:])
    if not ok:
        return ctx.finish()
    r = ctx.coqc("Gen_Msg.v")
    ctx.gen_obligation("Gen_Msg.v type-checks", r.ok, r.err[-300:])
    ctx.props("C15")
    ctx.trusted.append("gen/msg_tables.py: reads MESSAGE_CLASSES/RETURN_MESSAGE_CLASSES, each class's TYPE and ctypes "
                       "layout (incl. alignment padding), ReturnArrayMessageHeader, OptionalInt layout and tags")
    ctx.assume.append("field values are those stored in the ctypes object (constructor-time truncation of over-wide Python "
                      "ints is outside C15; returned-array entries are assumed to fit 32 bits)")
    t = mt.tables(ctx.repo)
    M = t["M"]
    for direction, cls in t["unregistered"]:
        deser = M.deserialize_host_msg if direction == "host" else M.deserialize_return_msg
        try:
            if cls.__name__ == "ErrorMessage":
                inst = cls(M.ErrorCode.GENERAL)
            elif cls.__name__ == "ReturnRegMessage":
                inst = cls(t["encoding"].Register(3, 5), -42)
            elif cls.__name__ == "ReturnArrayMessage":
                inst = cls(address=1, values=[1, None])
            elif cls.__name__ == "SubroutineMessage":
                inst = cls(subroutine=b"\x00\x00\x00\x00")
            else:
                inst = cls()
            back = deser(bytes(inst))
            got = type(back).__name__
        except Exception as e:  # noqa
            got = f"raises {type(e).__name__}"
        if got != cls.__name__:
            ctx.violation("a message does not deserialise to a message of its own type",
                          dict(direction=direction, message_class=cls.__name__, deserialises_as=got), key=None)
    n = 12 if ctx.tier == "quick" else 400
    constructor_oracle(ctx, t, 6 if ctx.tier == "quick" else 200)
    try:
        subroutine_object_history(ctx, t, 40 if ctx.tier == "quick" else 1500)
    except ImportError:
        pass
    msgs = gen_messages(ctx, t, n)
    message_object_history(ctx, t, gen_messages(ctx, t, max(3, n // 3)))
    cases = {"host": [], "ret": []}
    meta = {"host": [], "ret": []}
    dist = {}
    for direction, m, pv in msgs:
        raw = bytes(m)
        deser = M.deserialize_host_msg if direction == "host" else M.deserialize_return_msg
        try:
            back = deser(raw)
            dv = view_impl(t, back)
            same_type = type(back) is type(m)
        except Exception as e:  # noqa
            dv, same_type = None, False
        dist[type(m).__name__] = dist.get(type(m).__name__, 0) + 1
        ctx.note_case((direction, raw), nontrivial=len(raw) > 1)
        if dv != pv or not same_type:
            if pv[0] == "arr" and any(v is None for v in pv[2]):
                dist["arr-with-undefined"] = dist.get("arr-with-undefined", 0)
            ctx.violation("deserialize(bytes(m)) differs from m", dict(direction=direction, message=pv, got=dv), key=None)
        if pv[0] == "arr" and any(v is None for v in pv[2]):
            dist["arr-with-undefined"] = dist.get("arr-with-undefined", 0) + 1
        cases[direction].append(f"mkMC {coq_pmsg(pv)} {lst(z(x) for x in raw)} {coq_opmsg(dv)}")
        meta[direction].append((pv, list(raw), dv))
    # malformed / arbitrary bytes
    dcases = {"host": [], "ret": []}
    dmeta = {"host": [], "ret": []}
    rng = ctx.rng
    for direction in ("host", "ret"):
        deser = M.deserialize_host_msg if direction == "host" else M.deserialize_return_msg
        base = [list(x[1]) for x in meta[direction]]
        for _ in range(60 if ctx.tier == "quick" else 2000):
            raw = list(rng.choice(base))
            mode = rng.random()
            if mode < 0.3 and raw:
                raw = raw[: rng.randint(0, len(raw))]
            elif mode < 0.6 and raw:
                i = rng.randrange(len(raw))
                raw[i] = rng.randint(0, 255)
            elif mode < 0.8:
                raw = raw + [rng.randint(0, 255) for _ in range(rng.randint(1, 9))]
            else:
                raw = [rng.randint(0, 6)] + [rng.randint(0, 255) for _ in range(rng.randint(0, 30))]
            # keep the array length field small (the model recurses on it as a nat)
            if direction == "ret" and raw and raw[0] == 2 and len(raw) >= 9:
                ln = int.from_bytes(bytes(raw[5:9]), "little", signed=True)
                if ln > 200:
                    raw[5:9] = list((rng.randint(0, 70)).to_bytes(4, "little"))
            try:
                dv = view_impl(t, deser(bytes(raw)))
            except Exception:
                dv = None
            ctx.note_case((direction, "raw", tuple(raw)), nontrivial=len(raw) > 1)
            dist["decode-only"] = dist.get("decode-only", 0) + 1
            dist["decode-only-rejected" if dv is None else "decode-only-accepted"] = \
                dist.get("decode-only-rejected" if dv is None else "decode-only-accepted", 0) + 1
            dcases[direction].append(f"mkMD {lst(z(x) for x in raw)} {coq_opmsg(dv)}")
            dmeta[direction].append((raw, dv))
    files = {}
    shard = 300
    for direction in ("host", "ret"):
        tbl = "gen_host" if direction == "host" else "gen_ret"
        ec, dc = cases[direction], dcases[direction]
        nsh = max(1, (max(len(ec), len(dc)) + shard - 1) // shard)
        for k in range(nsh):
            fn = f"cases_{direction}_{k}.v"
            with open(os.path.join(ctx.build, fn), "w") as f:
                f.write(HEADER)
                f.write("Definition ecases : list mcase :=\n [" + ";\n  ".join(ec[k * shard:(k + 1) * shard]) + "].\n")
                f.write("Definition dcases : list mdcase :=\n [" + ";\n  ".join(dc[k * shard:(k + 1) * shard]) + "].\n")
                f.write(f"Eval vm_compute in (failing (check_mcase gen_af {tbl}) ecases).\n")
                f.write(f"Eval vm_compute in (failing (check_mdcase gen_af {tbl}) dcases).\n")
            files[fn] = (direction, k)
    import codec_impl as ci
    res = ctx.run_case_files(list(files))
    nmis = 0
    first = None
    for fn, r in res.items():
        direction, k = files[fn]
        if not r.ok:
            ctx.gen_obligation(f"correspondence file {fn} evaluates", False, r.err[-300:])
            continue
        fl = ci.parse_failing(r.out)
        if len(fl) != 2:
            ctx.gen_obligation(f"correspondence file {fn} output parsed", False, r.out[-300:])
            continue
        for i in fl[0]:
            nmis += 1
            first = first or ("encode", meta[direction][k * shard + i])
        for i in fl[1]:
            nmis += 1
            first = first or ("decode", dmeta[direction][k * shard + i])
    ctx.coverage["stream_distribution"] = dist
    ctx.coverage["model_impl_mismatches"] = nmis
    ctx.samples = [dict(direction=d, message=pv) for d, _, pv in msgs[:3] + msgs[-2:]]
    if nmis and not ctx.violations:
        ctx.broken.append(f"correspondence MsgCodec.encode_msg/decode_msg vs bytes(m)/deserialize_*_msg: {nmis} differing "
                          f"cases, first: {str(first)[:300]}")
    ctx.finish()


def replay(ctx, path):
    import json
    print(json.load(open(path))["replay"])
    ctx.finish()
