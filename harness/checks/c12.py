"""C12 — the controller matches entanglement responses to requests under any interleaving."""
import json
import os

import epr_impl as ei
import qmem_impl as qi

CORPUS = os.path.join(os.path.dirname(os.path.dirname(os.path.dirname(os.path.abspath(__file__)))), "corpus", "C12")


def jsonable(x):
    if isinstance(x, dict):
        return {k: jsonable(v) for k, v in x.items()}
    return [jsonable(y) for y in x] if isinstance(x, (list, tuple)) else x


def from_pm(pm):
    return tuple(pm) if isinstance(pm, list) else pm


def ev_from_json(e):
    e = list(e)
    k = e[0]
    if k == "Create":
        return ("Create", e[1], tuple(e[2]), e[3], list(e[4]), e[5], e[6], e[7], e[8], [tuple(w) for w in e[9]])
    if k == "CreateRefused":
        return ("CreateRefused", e[1], tuple(e[2]), e[3], list(e[4]), e[5], e[6], e[7], e[8])
    if k == "Recv":
        return ("Recv", e[1], tuple(e[2]), None if e[3] is None else list(e[3]), e[4], e[5], e[6], [tuple(w) for w in e[7]])
    if k == "Resp":
        return ("Resp", dict(e[1]))
    return tuple(e)


def upgrade(events, um):
    """replay files written before the model had several applications: one application 0 with a
    unit module of size `um`, events without application field"""
    out = [("Init", 0, um)]
    for e in events:
        e = list(e)
        if e[0] in ("Create", "Recv", "CreateRefused", "Free", "Alloc"):
            e = [e[0], 0] + e[1:]
        out.append(e)
    return out


class Runner:
    def __init__(self, ctx):
        self.ctx = ctx
        self.m = qi.load(ctx.repo)
        self.classes = ei.make_classes(self.m)
        self.next_id = 0
        self.idmap = {}

    def world(self, node, pm="id", log=False):
        logdir = None
        if log:
            logdir = os.path.join(self.ctx.build, "instr_logs")
            os.makedirs(logdir, exist_ok=True)
        return ei.EprWorld(self.m, self.classes, node, pm, instr_log_dir=logdir)

    def node(self, path, ev, fault, ob):
        self.next_id += 1
        self.idmap[self.next_id] = list(path)
        return dict(id=self.next_id, ev=ev, fault=fault, obs=ob, kids=[])

    def run(self, node, events, oracle=True, want_tree=True, pm="id", log=False):
        """returns (root, failures [(step, text)], faults list).  log: run the controller with an
        instruction logger attached (the bookkeeping must be the same with and without)"""
        pm = from_pm(pm)
        w = self.world(node, pm, log)
        ref = ei.FifoRef(node, pm) if oracle else None
        root = cur = None
        fails, faults = [], []
        for i, ev in enumerate(events):
            fault = w.apply(ev)
            faults.append(fault)
            ob = w.observe() if fault < 0 else None
            if want_tree:
                n = self.node(events[:i + 1], ev, fault, ob)
                if cur is None:
                    root = n
                else:
                    cur["kids"].append(n)
                cur = n
            if fault >= 0:
                if oracle:
                    fails.append((i, f"event {ev[0]} raised (exception class {fault}) in a run that obeys the contract"))
                break
            if oracle:
                try:
                    ref.apply(ev)
                    bad = ref.compare(ob)
                except Exception as e:  # reference cannot follow (malformed input reached the oracle)
                    bad = [f"reference cannot follow the run: {e!r}"]
                fails += [(i, b) for b in bad]
                if bad:
                    break
        return root, fails, faults


# ---------------------------------------------------------------------- generation
class Gen:
    """random event sequences that obey the environment contract: the response type of a
    (remote, purpose) is the type of its requests (type_consistent), virtual ids in range,
    physical ids of keep responses fresh (C13's fresh_delivery), an application is stopped only
    when it has no outstanding request and no waiting subroutine"""

    def __init__(self, rng, stats):
        self.rng = rng
        self.stats = stats

    def scenario(self, length):
        rng = self.rng
        # own node id and remote node ids over {0,1,2,3}: in particular remote 0 with own != 0
        node = rng.choice([0, 1, 2, 3])
        others = [x for x in (0, 1, 2, 3) if x != node]
        rng.shuffle(others)
        remotes = others[:2]
        if node != 0 and 0 not in remotes and rng.random() < 0.5:
            remotes[0] = 0
        # how the network stack numbers purposes: identity, cross-connected sockets, offset
        pm = rng.choice(["id", "swap", "swap", ("off", 3), ("off", -1)])
        keys = rng.sample([(r, sk) for r in remotes for sk in (0, 1)], rng.choice([1, 2, 2, 3]))   # (remote, local socket)
        tp = {k: rng.random() < 0.7 for k in keys}
        qfmt = rng.choice(["native", "native", "qlink", "mixed"])      # how the link layer hands responses over
        log = rng.random() < 0.5                                       # instruction logger attached or not

        def qubit_ids(um, n):
            """virtual qubit ids of a request: in range, and NOT ascending by construction (distinct ids in
            descending / shuffled order where the unit module is large enough, repeats otherwise)"""
            if n <= um and rng.random() < 0.75:
                ids = rng.sample(range(um), n)
                if n >= 2 and ids == sorted(ids):
                    ids.reverse()
                return ids
            return [rng.randrange(um) for _ in range(n)]

        napps = rng.choice([1, 2, 2, 3])
        app_ids = rng.sample([0, 1, 2, 5], napps)
        ref = ei.FifoRef(node, pm)
        evs = []
        addr = [0]
        cid = [0]

        def emit(ev):
            ref.apply(ev)
            self.stats[ev[0]] = self.stats.get(ev[0], 0) + 1
            evs.append(ev)

        def fresh_addr():
            addr[0] += 1
            return addr[0] - 1

        def waits(res, n):
            full = ("WAll", res, 0, 10 * n)
            r = rng.random()
            if r < 0.12:
                # hand-written NetQASM: no wait (or only a partial one) after the request --
                # the request outlives its subroutine
                return [] if r < 0.07 else [("WAny", res, 0, 10 * n)]
            if r < 0.4:
                return [full]
            if r < 0.6:
                return [("WAny", res, 0, 10 * n), full]
            if r < 0.8:
                j = rng.randrange(n)
                return [("WSingle", res, 10 * j + rng.randrange(10)), full]
            j = rng.randrange(n)
            return [("WAll", res, 10 * j, 10 * j + 10), full]

        emit(("Init", app_ids[0], rng.choice([2, 3, 4])))
        forced = None
        while len(evs) < length:
            r = rng.random()
            alive = sorted(ref.wait)
            live_apps = sorted(ref.ums)
            if forced is not None and len(alive) < 4 and forced[1] in ref.ums:
                ev, forced = forced, None
            elif r < 0.10:
                # application lifecycle, interleaved with everything else
                unreg = [a for a in app_ids if a not in ref.ums]
                idle = [a for a in live_apps if a not in ref.busy_apps()]
                if unreg and (rng.random() < 0.6 or not idle):
                    ev = ("Init", rng.choice(unreg), rng.choice([2, 3, 4]))
                elif idle and len(live_apps) > 1:
                    ev = ("Stop", rng.choice(idle))
                else:
                    continue
            elif not live_apps:
                continue
            elif r < 0.14:
                # fault injection: the network stack refuses the request (put raises), the application
                # retries the create on the same socket (possibly after other events)
                app = rng.choice(live_apps)
                um = len(ref.ums[app])
                key = rng.choice(keys)
                n = rng.choice([1, 2, 2, 3])
                vs = qubit_ids(um, n) if tp[key] else []
                ev = ("CreateRefused", app, key, tp[key], vs, n, fresh_addr(), fresh_addr(), fresh_addr())
                qarr, args, res = fresh_addr(), fresh_addr(), fresh_addr()
                n2 = rng.choice([n, n, 1])
                vs2 = qubit_ids(um, n2) if tp[key] else []
                if rng.random() < 0.7:
                    forced = ("Create", app, key, tp[key], vs2, n2, qarr, args, res, waits(res, n2))
            elif r < 0.30 and len(alive) < 4:
                app = rng.choice(live_apps)
                um = len(ref.ums[app])
                key = rng.choice(keys)
                n = rng.choice([1, 1, 2, 2, 3])
                vs = qubit_ids(um, n)
                if rng.random() < 0.5:
                    qarr, args, res = fresh_addr(), fresh_addr(), fresh_addr()
                    ev = ("Create", app, key, tp[key], vs if tp[key] else [], n, qarr, args, res, waits(res, n))
                else:
                    qarr, res = fresh_addr(), fresh_addr()
                    ev = ("Recv", app, key, vs if tp[key] else None, n, qarr, res, waits(res, n))
            elif r < 0.66:
                key = rng.choice(keys)
                creator = rng.random() < 0.5
                cid[0] += 1
                fmt = qfmt if qfmt != "mixed" else rng.choice(["native", "qlink"])
                ev = ("Resp", dict(k=tp[key], remote=key[0], purpose=ei.purpose_of(pm, key[1]), flag=0 if creator else 1,
                                   q=(100 + cid[0]) if tp[key] else rng.randrange(2), cid=cid[0],
                                   seq=rng.randrange(8), good=rng.randrange(100),
                                   x=rng.randrange(1000) if tp[key] else rng.randrange(3), bell=rng.randrange(4), fmt=fmt))
                self.stats[f"response:{'K' if tp[key] else 'M'}:{fmt}:{'create' if creator else 'receive'}-role"] = \
                    self.stats.get(f"response:{'K' if tp[key] else 'M'}:{fmt}:{'create' if creator else 'receive'}-role", 0) + 1
            elif r < 0.73:
                ev = ("Retry",)
            elif r < 0.84 and alive:
                ev = ("Poll", rng.choice(alive))
            elif r < 0.95:
                busy = [(a, v) for a in live_apps for v, p in enumerate(ref.ums[a]) if p is not None]
                if not busy:
                    continue
                a, v = rng.choice(busy)
                ev = ("Free", a, v)
            else:
                free = [(a, v) for a in live_apps for v, p in enumerate(ref.ums[a]) if p is None]
                if not free:
                    continue
                a, v = rng.choice(free)
                ev = ("Alloc", a, v)
            emit(ev)
        outstanding = sum(len(l) for l in ref.q.values())
        self.stats["max_outstanding_requests"] = max(self.stats.get("max_outstanding_requests", 0), outstanding)
        self.stats["consumed_pairs"] = self.stats.get("consumed_pairs", 0) + len(ref.consumed)
        self.stats["left_pending"] = self.stats.get("left_pending", 0) + len(ref.pending)
        self.stats[f"node:{node}"] = self.stats.get(f"node:{node}", 0) + 1
        self.stats[f"applications:{napps}"] = self.stats.get(f"applications:{napps}", 0) + 1
        self.stats[f"purpose-map:{pm}"] = self.stats.get(f"purpose-map:{pm}", 0) + 1
        if node != 0 and any(k[0] == 0 for k in keys):
            self.stats["remote-0-with-own-nonzero"] = self.stats.get("remote-0-with-own-nonzero", 0) + 1
        self.stats[f"instruction-logger:{'on' if log else 'off'}"] = self.stats.get(f"instruction-logger:{'on' if log else 'off'}", 0) + 1
        return node, pm, log, evs, len(ref.consumed)


def resp(key, creator, k, cid, q, pm="id", fmt="native"):
    """key = (remote, local socket); the response carries the purpose of that socket"""
    return ("Resp", dict(k=k, remote=key[0], purpose=ei.purpose_of(pm, key[1]), flag=0 if creator else 1, q=q, cid=cid, seq=cid, good=50,
                         x=2 if not k else 7, bell=cid % 4, fmt=fmt))


def small_scenarios(tier):
    """(name, own node id, purpose map, fixed prefix, event multiset): every ordering of the events
    after the prefix is enumerated.  A, B are (remote node, LOCAL socket); responses carry the
    purpose the scenario's network stack assigned to that socket."""
    sc = []

    def two_creates(A, pm, fmt="native"):
        return ([("Create", 0, A, True, [1, 0], 2, 0, 1, 2, [("WAll", 2, 0, 20)]),
                 ("Create", 0, A, True, [2], 1, 3, 4, 5, [("WAll", 5, 0, 10)]),
                 resp(A, True, True, 1, 101, pm, fmt), resp(A, True, True, 2, 102, pm), resp(A, True, True, 3, 103, pm, fmt)]
                + ([("Retry",)] if tier != "quick" else []))

    def mixed(A, pm, fmt="native"):
        return [("Create", 0, A, True, [0], 1, 0, 1, 2, [("WAll", 2, 0, 10)]),
                ("Recv", 0, A, [0], 1, 3, 4, [("WAll", 4, 0, 10)]),
                resp(A, True, True, 1, 101, pm), resp(A, False, True, 2, 102, pm, fmt), ("Free", 0, 0), ("Retry",)]

    # two creates on one socket (2 + 1 pairs), their three responses, a retry
    sc.append(("same-socket-two-creates", 0, "id", True, [("Init", 0, 3)], two_creates((1, 0), "id")))
    # the stack refuses a create (put raises), the application re-issues it; two responses
    A = (1, 0)
    sc.append(("refused-create-then-retry", 0, "id", False, [("Init", 0, 2)],
               [("CreateRefused", 0, A, True, [0, 1], 2, 0, 1, 2),
                ("Create", 0, A, True, [1, 0], 2, 3, 4, 5, [("WAll", 5, 0, 20)]),
                resp(A, True, True, 1, 101), resp(A, True, True, 2, 102)]
               + ([("Recv", 0, A, [0], 1, 6, 7, [("WAll", 7, 0, 10)]), resp(A, False, True, 3, 103)] if tier != "quick" else [])))
    # create and receive roles mixed on one socket, colliding virtual qubit, a free --
    # as node 1 talking to node 0 over cross-connected sockets (purpose = remote side's socket id)
    sc.append(("mixed-roles-colliding-qubit-remote0-swapped", 1, "swap", True, [("Init", 0, 2)], mixed((0, 0), "swap", "qlink")))
    # two applications: a response arrives early for a request application 1 has not issued yet,
    # application 0 is stopped, application 1 issues its measure-directly receive request;
    # responses in the qlink-interface 1.0 format
    B = (2, 1)
    sc.append(("two-apps-early-response-stop-of-the-other", 0, "id", False, [("Init", 0, 1), ("Init", 1, 2)],
               [resp(B, False, False, 1, 1, "id", "qlink"), ("Stop", 0),
                ("Recv", 1, B, None, 2, 0, 1, [("WAll", 1, 0, 20)]), resp(B, False, False, 2, 0, "id", "qlink"), ("Retry",)]
               + ([("Alloc", 1, 0)] if tier != "quick" else [])))
    if tier != "quick":
        sc.append(("mixed-roles-colliding-qubit", 0, "id", False, [("Init", 0, 2)], mixed((1, 0), "id")))
        sc.append(("same-socket-two-creates-remote0-offset", 2, ("off", 3), False, [("Init", 0, 3)],
                   two_creates((0, 1), ("off", 3), "qlink")))
        A, B = (1, 0), (2, 1)
        # two sockets, keep and measure, three pairs on one request
        sc.append(("two-sockets-K-and-M", 0, "id", True, [("Init", 0, 3)],
                   [("Create", 0, A, False, [], 3, 0, 1, 2, [("WAny", 2, 0, 30), ("WAll", 2, 0, 30)]),
                    ("Recv", 0, B, [1], 1, 3, 4, [("WAll", 4, 0, 10)]),
                    resp(A, True, False, 1, 0), resp(A, True, False, 2, 1, "id", "qlink"), resp(A, True, False, 3, 0),
                    resp(B, False, True, 4, 104), ("Alloc", 0, 1)]))
        # three receive requests, one pair each, same socket, busy qubit in the middle; remote 0, swapped
        B = (0, 1)
        sc.append(("three-requests-busy-middle-remote0-swapped", 3, "swap", False, [("Init", 0, 2)],
                   [("Recv", 0, B, [0], 1, 0, 1, [("WAll", 1, 0, 10)]),
                    ("Recv", 0, B, [0], 1, 2, 3, [("WAll", 3, 0, 10)]),
                    ("Recv", 0, B, [1], 1, 4, 5, [("WSingle", 5, 2), ("WAll", 5, 0, 10)]),
                    resp(B, False, True, 1, 101, "swap"), resp(B, False, True, 2, 102, "swap"),
                    resp(B, False, True, 3, 103, "swap"), ("Free", 0, 0)]))
        # two applications sharing one socket and role: requests of both in one FIFO, a third one stopped
        B = (2, 0)
        sc.append(("two-apps-one-fifo-third-stopped", 1, "swap", True, [("Init", 0, 2), ("Init", 1, 2), ("Init", 2, 1)],
                   [("Recv", 0, B, [0], 1, 0, 1, [("WAll", 1, 0, 10)]),
                    ("Recv", 1, B, [1], 1, 0, 1, [("WAll", 1, 0, 10)]),
                    resp(B, False, True, 1, 101, "swap"), resp(B, False, True, 2, 102, "swap", "qlink"),
                    resp(B, False, True, 3, 103, "swap"), ("Stop", 2)]))
    return sc


def exhaustive(runner, name, node, pm, log, prefix, events, report):
    """all orderings of the events (after the fixed prefix) as a prefix tree; orderings in which a
    Free / Alloc names a qubit that is not allocated / free yet are pruned at that event"""
    roots = []
    count = [0]
    prefix = list(prefix)
    parent0 = None
    w0 = runner.world(node, pm, log)
    for i, ev in enumerate(prefix):
        fault = w0.apply(ev)
        n = runner.node(prefix[:i + 1], ev, fault, w0.observe())
        (roots if parent0 is None else parent0["kids"]).append(n)
        parent0 = n

    def expand(done, remaining, parent):
        for i, ev in enumerate(remaining):
            if any(remaining[j] == ev for j in range(i)):
                continue
            path = prefix + done + [ev]
            w = runner.world(node, pm, log)
            ref = ei.FifoRef(node, pm)
            ok = True
            for e in path[:-1]:
                w.apply(e)
                ref.apply(e)
            if ev[0] == "Free" and ref.ums[ev[1]][ev[2]] is None:
                continue
            if ev[0] == "Alloc" and ref.ums[ev[1]][ev[2]] is not None:
                continue
            if ev[0] == "Stop" and ev[1] in ref.busy_apps():
                continue
            fault = w.apply(ev)
            ob = w.observe() if fault < 0 else None
            count[0] += 1
            n = runner.node(path, ev, fault, ob)
            runner.ctx.note_case(("exh", name, str(path)), nontrivial=len(path) >= 3)
            if fault >= 0:
                report(node, path, f"event {ev[0]} raised (exception class {fault}) in a run that obeys the contract", pm, log)
                ok = False
            else:
                ref.apply(ev)
                for b in ref.compare(ob):
                    report(node, path, b, pm, log)
                    ok = False
            (roots if parent is None else parent["kids"]).append(n)
            if ok:
                expand(done + [ev], remaining[:i] + remaining[i + 1:], n)

    expand([], list(events), parent0)
    return roots, count[0]


def kind_of(text):
    """failure class of an oracle message: its leading words, without the concrete values"""
    import re
    return " ".join(re.sub(r"[^a-zA-Z ]+", " ", re.split(r"[\[\{:]", text)[0]).split())[:48]


def shrink(runner, node, evs, text, pm="id", log=False):
    kind = kind_of(text)

    def fails(cand):
        try:
            _, fl, _ = runner.run(node, cand, want_tree=False, pm=pm, log=log)
        except Exception:
            return False
        return any(kind_of(b) == kind for _, b in fl)

    evs = list(evs)
    changed = True
    while changed and len(evs) > 1:
        changed = False
        for i in range(len(evs) - 1, -1, -1):
            if evs[i][0] in ("Create", "Recv", "CreateRefused", "Free", "Alloc", "Init"):
                continue      # removing a subroutine renumbers the subroutine ids later events name
            cand = evs[:i] + evs[i + 1:]
            if fails(cand):
                evs = cand
                changed = True
    return evs




def run(ctx):
    ctx.rule = ("event sequences on one controller with 1-3 applications (registered and stopped in between): subroutines "
                "issuing create_epr / recv_epr (1-3 pairs, keep or measure, "
                "1-3 sockets, both roles; own node id and remote node ids over {0,1,2,3} incl. remote 0 with own != 0; the network "
                "stack's socket->purpose assignment is part of the scenario: identity, cross-connected sockets, offset) and then blocking "
                "in wait_all / wait_any / wait_single (kept alive as generators) -- or ending without a wait, so that the request "
                "outlives its subroutine --, "
                "fault injection: the network stack refuses chosen create requests (put raises, the subroutine ends at that "
                "line) and the application re-issues them on the same socket; link-layer OK responses, as native tuples or as "
                "qlink-interface 1.0 Res* objects, arriving before or after the matching instruction (also before ANOTHER "
                "application's instruction, across a stop of a third one), retries of the pending list, "
                "the controller runs with or without an instruction logger attached (a real InstrLogger, called after every "
                "instruction with the live instruction object); qubit-id arrays of requests are not ascending by construction; "
                "polls of waiting subroutines, qfree/qalloc that un-block / block deferred keep responses. Random sequences obey "
                "the contract (response type = request type per socket; ids in range; an "
                "application is stopped only when nothing of it is outstanding); "
                "small scenarios are enumerated in EVERY ordering. After every event: queues, pending list, arrays and unit modules of "
                "all applications, live subroutines compared with the Coq model, and with an independent FIFO reference (oracle). "
                "Non-trivial = at least one response consumed and >= 3 events; distinct = distinct event list")
    ctx.props("C12")
    runner = Runner(ctx)
    ctx.trusted.append("harness/epr_impl.py: Executor/QNodeController/BaseNetworkStack subclassed at their extension points only "
                       "(_do_wait yields, _wait_to_handle_epr_responses returns, put may refuse); subroutines are driven as generators; "
                       "reads _epr_create_requests, _epr_recv_requests, _pending_epr_responses, _app_arrays, _qubit_unit_modules, _subroutines")
    ctx.trusted.append("correspondence: Exec/EprCheck.v evaluated by vm_compute inside coqc on generated prefix trees")
    ctx.assume.append("yield points: _wait_to_handle_epr_responses and _do_wait return control to the back end, which eventually calls "
                      "_handle_pending_epr_responses again (event Retry); the base class's own recursion is not a scheduler")
    ctx.assume.append("type_consistent: a response's type (K/M) is the type of the request it answers (per socket); the model accepts "
                      "an M response for a K request silently, as the code does (C12_type_mismatch_refuted)")
    ctx.assume.append("theorems are about fault-free runs (faults: virtual ids out of range, result arrays too short, an "
                      "application stopped with requests outstanding); a request may outlive its subroutine (repaired, corpus)")
    ctx.assume.append("an application is stopped only when it has no outstanding request and no waiting subroutine (the SDK's close "
                      "flushes and waits first); the model and the code fault when a response is handled for a stopped application")
    ctx.assume.append("registers are per application and shared by concurrent subroutines: the harness gives every live subroutine "
                      "its own pair of registers for wait bounds (wait_any / wait_single re-read them at every poll)")
    ctx.assume.append("optional collaborators of the executor, found by introspection: Executor.__init__(name, instr_log_dir, **kwargs) -> the "
                      "instruction logger (instr_logger_class, called in _execute_command with subroutine id, app id, the live command "
                      "object, output, program counter; it reads arrays / registers / unit modules through the executor) is a "
                      "configuration dimension of the streams (on/off); the network stack (put / setup_epr_socket / get_purpose_id) is "
                      "the scripted stack (refusals, purpose maps); _reserve_physical_qubit / _clear_phys_qubit_in_memory receive ints; "
                      "the python logging logger only receives pre-formatted strings. The logger is not part of the model: the "
                      "bookkeeping must be the same with and without it. Contract-breaking streams run without logger (the "
                      "logger itself raises on out-of-range virtual ids in `set Q0 v`)")
    ctx.assume.append("timing and ERR responses are not modelled; the response format (native / qlink-interface 1.0) is not part of "
                      "the model: both must lead to the same bookkeeping")

    violations = []

    def report(node, evs, text, pm="id", log=False):
        violations.append((node, pm, log, list(evs), text))

    # ---- corpus
    n_corpus = 0
    if os.path.isdir(CORPUS):
        for f in sorted(os.listdir(CORPUS)):
            if f.endswith(".json"):
                rec = json.load(open(os.path.join(CORPUS, f)))
                evs = [ev_from_json(e) for e in rec["events"]]
                pm = from_pm(rec.get("pm", "id"))
                for lg in (False, True):
                    _, fl, _ = runner.run(rec["node"], evs, want_tree=False, pm=pm, log=lg)
                    for step, b in fl:
                        report(rec["node"], evs[:step + 1], b, pm, lg)
                n_corpus += 1
                ctx.note_case(("corpus", f), True)
    ctx.coverage["corpus_cases"] = n_corpus

    # ---- random interleavings
    quick = ctx.tier == "quick"
    n_seq = 160 if quick else 1500
    stats = {}
    gen = Gen(ctx.rng, stats)
    groups = []
    lens = {}
    for _ in range(n_seq):
        length = ctx.rng.choice([6, 12, 20, 35, 50])
        node, pm, log, evs, consumed = gen.scenario(length)
        root, fl, faults = runner.run(node, evs, pm=pm, log=log)
        groups.append((pm, node, [root]))
        lens[length] = lens.get(length, 0) + 1
        ctx.note_case(str(evs), nontrivial=consumed >= 1 and len(evs) >= 3)
        if len(ctx.samples) < 2 and consumed >= 2:
            ctx.samples.append(dict(node=node, purpose_map=jsonable(pm), instruction_logger=log, events=jsonable(evs[:10])))
        for step, b in fl:
            report(node, evs[:step + 1], b, pm, log)
    ctx.coverage["sequence_lengths"] = lens
    ctx.coverage["event_distribution"] = stats

    # ---- every ordering of small scenarios
    exh = {}
    big_groups = []
    for name, node, pm, log, prefix, events in small_scenarios(ctx.tier):
        roots, cnt = exhaustive(runner, name, node, pm, log, prefix, events, report)
        exh[name] = dict(events=len(events), nodes=cnt, node=node, purpose_map=jsonable(pm), instruction_logger=log)
        big_groups.append((pm, node, roots))
    ctx.coverage["every_ordering_scenarios"] = exh
    ctx.log(f"implementation runs done: {n_seq} random sequences, orderings {exh}, oracle failures {len(violations)}")

    # ---- streams that break the contract: model must still agree (fault class), oracle not applied
    malformed = []
    A = (1, 0)
    I2 = ("Init", 0, 2)
    bad_streams = [
        (0, [I2, ("Create", 0, A, True, [0], 1, 0, 1, 2, [("WAll", 2, 0, 10)]), resp(A, True, False, 1, 1)]),      # M answer to K request
        (0, [I2, ("Create", 0, A, False, [], 1, 0, 1, 2, [("WAll", 2, 0, 10)]), resp(A, True, True, 1, 101)]),     # K answer to M request
        (0, [I2, ("Recv", 0, A, [5], 1, 0, 1, [("WAll", 1, 0, 10)]), resp(A, False, True, 1, 101)]),               # virtual id out of range
        (0, [I2, ("Recv", 0, A, [-1], 1, 0, 1, [("WAll", 1, 0, 10)]), resp(A, False, True, 1, 101),
             ("Recv", 0, A, [-1], 1, 2, 3, [("WAll", 3, 0, 10)]), resp(A, False, True, 2, 102)]),                  # negative id: alias, busy -> error
        (0, [I2, ("Free", 0, 0)]),
        (0, [I2, ("Alloc", 0, 0), ("Alloc", 0, 0)]),
        (0, [I2, ("Alloc", 0, 2)]),
        (0, [I2, I2]),                                                                                             # registered twice
        (0, [I2, ("Stop", 1)]),
        (0, [I2, ("Alloc", 3, 0)]),                                                                                # subroutine of an unregistered app
        (1, [I2, ("Recv", 0, (1, 0), [0], 1, 0, 1, [("WAll", 1, 0, 10)]), resp((1, 0), False, True, 1, 101)]),     # remote == own node id: taken as creator
    ]
    for node, evs in bad_streams:
        root, _, faults = runner.run(node, evs, oracle=False)
        malformed.append(("id", node, [root]))
        ctx.note_case(str(evs), True)
    groups += malformed

    # ---- model side
    files = {}
    shard = 10
    for i in range(0, len(groups), shard):
        files[f"cases_{i // shard}.v"] = groups[i:i + shard]
    k = 0
    for pm, node, roots in big_groups:
        # the fixed prefix is a chain: split below its last node, one file per first enumerated event
        chain, n = [], roots[0]
        while True:
            chain.append(n)
            if len(n["kids"]) != 1 or n["id"] is None:
                break
            n = n["kids"][0]
        last = chain[-1]
        kids = last["kids"] if len(last["kids"]) > 1 else [None]
        for kid in kids:
            # rebuild the chain with a single branch
            def clone(j):
                c = dict(chain[j])
                c["kids"] = [clone(j + 1)] if j + 1 < len(chain) else ([kid] if kid is not None else [])
                return c
            files[f"cases_ord_{k}.v"] = [(pm, node, [clone(0)])]
            k += 1
    for fn, g in files.items():
        ei.write_case_file(os.path.join(ctx.build, fn), g)
    results = ctx.run_case_files(list(files), timeout=1500, jobs=14)
    mismatches = []
    for fn, r in results.items():
        if not r.ok:
            ctx.gen_obligation(f"correspondence file {fn} evaluates", False, r.err[-300:])
            continue
        fl = ei.parse_failing(r.out)
        if len(fl) != 1:
            ctx.gen_obligation(f"correspondence file {fn} output parsed", False, r.out[-300:])
            continue
        for nid in set(fl[0]):
            mismatches.append((fn, runner.idmap[nid]))
    ctx.coverage["model_impl_mismatches"] = len(mismatches)
    ctx.coverage["traces_validated_against_impl"] = len(groups) + sum(v["nodes"] for v in exh.values())
    if mismatches:
        fn, evs = min(mismatches, key=lambda x: len(x[1]))
        ctx.broken.append(f"correspondence Epr.step vs Executor: {len(mismatches)} event sequences differ, shortest ({fn}): "
                          f"{jsonable(evs)}")
        ctx.log(f"model/implementation mismatch: {len(mismatches)}; shortest {jsonable(evs)}")

    # ---- search when something broke without an oracle failure
    if ctx.broken and not violations:
        ctx.log("searching for a failing event sequence")
        for _ in range(1200):
            node, pm, log, evs, _ = gen.scenario(ctx.rng.choice([8, 15, 30]))
            _, fl, _ = runner.run(node, evs, want_tree=False, pm=pm, log=log)
            if fl:
                report(node, evs[:fl[0][0] + 1], fl[0][1], pm, log)
                break

    seen = set()
    for node, pm, log, evs, text in violations:
        k = kind_of(text)
        if k in seen:
            continue
        seen.add(k)
        small = shrink(runner, node, evs, text, pm, log)
        _, fl, faults = runner.run(node, small, want_tree=False, pm=pm, log=log)
        ctx.violation(text if not fl else fl[-1][1],
                      dict(node=node, pm=jsonable(pm), instruction_logger=log, events=jsonable(small),
                           failures=[b for _, b in fl]), key=None)
    ctx.coverage["oracle_failures_total"] = len(violations)
    ctx.finish()


def replay(ctx, path):
    rec = json.load(open(path))
    key = rec.get("key")
    rec = rec.get("replay", rec)
    runner = Runner(ctx)
    events = rec["events"]
    if "um" in rec and not any(e[0] == "Init" for e in events):
        events = upgrade(events, rec["um"])
    evs = [ev_from_json(e) for e in events]
    pm = from_pm(rec.get("pm") or "id")
    log = bool(rec.get("instruction_logger", False))
    _, fl, faults = runner.run(rec["node"], evs, want_tree=False, pm=pm, log=log)
    print("replay: faults", faults, "instruction logger", log)
    for step, b in fl:
        print(f"  step {step} {evs[step][0]}: {b}")
    if fl:
        ctx.violation(fl[-1][1], dict(node=rec["node"], pm=jsonable(pm), instruction_logger=log, events=jsonable(evs),
                                      failures=[b for _, b in fl]), key=key)
    ctx.finish()
