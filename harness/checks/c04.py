"""C04 — the executor implements the NetQASM classical semantics and faults precisely."""
import json
import os

import exec_harness as H

SHARD = 250


def steps_and_tags(results):
    tags = []
    for r in results:
        t = r["out"][0]
        tags.append(t if t != "fault" else "fault:" + r["out"][1])
    return tags


def safe_run_case(ctx, c):
    """Run one case on the real Executor.  None = not comparable (discarded for size, counted).  The
    harness itself must never end the check: if driving or observing the implementation raises on a
    generated program, that program is reported (the implementation did something on it that the
    harness -- which only uses documented attributes -- could not even observe)."""
    import traceback
    try:
        r = H.run_case(c)
    except Exception as exc:  # noqa
        ctx.coverage["harness_exceptions"] = ctx.coverage.get("harness_exceptions", 0) + 1
        if ctx.coverage["harness_exceptions"] <= 5:
            d = dict(cap=c["cap"], fuel=c["fuel"], subs=c["subs"], tag=c.get("tag", ""), hostlines=bool(c.get("hostlines")),
                     hardware=bool(c.get("hardware")), harness_exception=type(exc).__name__ + ": " + str(exc)[:200],
                     traceback=traceback.format_exc()[-1200:])
            if "script" in c:
                d["script"] = c["script"]
            ctx.violation("running / observing the real Executor on this program raised inside the harness: "
                          + type(exc).__name__, d, key=None)
        return None
    if r is None:
        ctx.coverage["discarded_array_too_long"] = ctx.coverage.get("discarded_array_too_long", 0) + 1
    return r


def evaluate(ctx, cases, prefix, hardware=False):
    """Run every case on the real Executor, then the model (Exec) and the
    reference semantics (Sem) inside coqc on the same inputs.
    Returns (exec_mismatch, sem_mismatch, open_) lists of case indices, or None if
    a case file failed to evaluate."""
    coq_cases = []
    kept = []
    for c in cases:
        c["results"] = safe_run_case(ctx, c)
        if c["results"] is None:
            continue
        kept.append(c)
        coq_cases.append(H.cq_case(c, c["results"]))
    cases[:] = kept
    files = {}
    for k in range(0, len(cases), SHARD):
        fn = f"cases_{prefix}_{k // SHARD}.v"
        H.write_case_file(os.path.join(ctx.build, fn), coq_cases[k:k + SHARD], hardware=hardware)
        files[fn] = k
    out = ([], [], [])
    ok = True
    for fn, res in ctx.run_case_files(list(files)).items():
        base = files[fn]
        if not res.ok:
            ctx.gen_obligation(f"correspondence file {fn} evaluates", False, res.err[-300:])
            ok = False
            continue
        ls = H.parse_lists(res.out)
        if len(ls) != 3:
            ctx.gen_obligation(f"correspondence file {fn} output parsed", False, res.out[-300:])
            ok = False
            continue
        for j in range(3):
            out[j].extend(base + i for i in ls[j])
    return tuple(sorted(x) for x in out) if ok else None


def evaluate_quantum(ctx, cases, prefix):
    """SemQ (the common semantics with abstract quantum events) vs the real Executor on
    programs that mix classical instructions with gates / rotations / measurements.
    Returns (mismatch, open_) index lists or None."""
    coq_cases, kept = [], []
    for c in cases:
        c["results"] = safe_run_case(ctx, c)
        if c["results"] is None:
            continue
        kept.append(c)
        coq_cases.append(H.cq_qcase(c, c["results"]))
    cases[:] = kept
    files = {}
    for k in range(0, len(cases), SHARD):
        fn = f"cases_{prefix}_{k // SHARD}.v"
        H.write_qcase_file(os.path.join(ctx.build, fn), coq_cases[k:k + SHARD])
        files[fn] = k
    out = ([], [])
    ok = True
    for fn, res in ctx.run_case_files(list(files)).items():
        base = files[fn]
        ls = H.parse_lists(res.out) if res.ok else []
        if not res.ok or len(ls) != 2:
            ctx.gen_obligation(f"correspondence file {fn} evaluates", False, (res.err or res.out)[-300:])
            ok = False
            continue
        for j in range(2):
            out[j].extend(base + i for i in ls[j])
    return tuple(sorted(x) for x in out) if ok else None


def case_json(c):
    d = dict(cap=c["cap"], fuel=c["fuel"], subs=c["subs"], tag=c.get("tag", ""),
             hostlines=bool(c.get("hostlines")), hardware=bool(c.get("hardware")),
             implementation=[dict(out=r["out"], pc=r["pc"], state=r["state"], events=r.get("events", []))
                             for r in c.get("results", [])])
    if "script" in c:
        d["script"] = c["script"]
    return d


def generate(ctx, n_random, n_aimed, fuel):
    rng = ctx.rng
    cases = []
    for t in H.FAULT_TARGETS:
        for _ in range(n_aimed):
            c = H.gen_fault_case(rng, t, fuel=fuel)
            # instructions carry the host-program line of the SDK's line tracker (HostLine) in 3 of 4 aimed cases
            c["hostlines"] = rng.random() < 0.75
            cases.append(c)
    for _ in range(n_random):
        c = H.gen_case(rng, fuel=fuel)
        c["hostlines"] = rng.random() < 0.5
        cases.append(c)
    return cases


def generate_hardware(ctx, n_random, n_aimed, fuel):
    """the same streams with every immediate inside the hardware width, to be run with
    set_is_using_hardware(True): the listed semantics must hold in that configuration too"""
    cases = generate(ctx, n_random, n_aimed, fuel)
    for c in cases:
        if ctx.rng.random() < 0.6:
            H.narrow_case(c)          # all immediates inside the width; the others keep 2^31 / 2^64-sized values
        c["hardware"] = True
        c["tag"] = "hw:" + c.get("tag", "")
    return cases


def run(ctx):
    ctx.rule = ("cases = 1..4 generated subroutines run in order against ONE application on the real Executor "
                "(StepBound subclass: at most `fuel` handler calls per subroutine), over set/lea/array/load/store/undef/"
                "add/sub/addm/subm/jmp/bez/bnz/beq/bne/blt/bge/ret_reg/ret_arr/qalloc/qfree/wait_all/wait_any/wait_single, "
                "all four register banks, arrays of length 0..12, unstructured jump targets (mostly in [0,len], some "
                "past the end or negative), small and 2^31/2^64-sized values; plus a stream aimed at each fault "
                "(one faulting instruction between filler).  Compared after every subroutine: outcome (halt / fault "
                "exception class + line named by the message / blocked / step bound), pc, registers, arrays, shared "
                "memory registers and arrays, unit module (physical qubit mapped to each virtual id) and the executor's set of physical qubits in use; after a fault the application continues with further subroutines (aimed stream: a random one, and for the allocation faults one qalloc per virtual id, some qfrees, one more qalloc).  non-trivial = at least 3 instructions and the reference "
                "semantics defined on the whole case; distinct = distinct (cap, subroutines)")
    # the three property files are compiled concurrently with the correspondence streams
    from concurrent.futures import ThreadPoolExecutor

    def e2e_job():
        # the end-to-end chain C05 -> C03 -> C04 is stated at the REGENERATED assembler parameters and codec tables
        for script, out in (("asm_tables.py", "Gen_Asm.v"), ("codec_tables.py", "Gen_Codec.v")):
            ok_gen, err_gen = ctx.gen(script, out)
            ctx.gen_obligation(f"translator {script} understands the source", ok_gen, err_gen.strip()[-300:])
            if ok_gen:
                r_gen = ctx.coqc(out)
                ctx.gen_obligation(f"{out} type-checks", r_gen.ok, r_gen.err[-300:])
        ctx.trusted.append("gen/asm_tables.py (reads _REPLACE_CONSTANTS_EXCEPTION, REG_INDEX_BITS, RegisterName) and "
                           "gen/codec_tables.py (flavour tables, ctypes layouts): the assembler parameters and the codec "
                           "at which C05_end_to_end / C05_end_to_end_wire are stated")
        ctx.props("C05_end_to_end")

    pool = ThreadPoolExecutor(max_workers=3)
    prop_jobs = [pool.submit(ctx.props, "C04"),              # C04 proper (incl. the hardware configuration)
                 pool.submit(ctx.props, "C04_bridges"),      # bridges from the private interpreters of C03/C05/C08/C10
                 pool.submit(e2e_job)]
    quick = ctx.tier == "quick"
    if not quick:
        coqchk(ctx)
    fuel = 60
    cases = generate(ctx, 1800 if quick else 35000, 10 if quick else 250, fuel)
    res = evaluate(ctx, cases, "main")
    ctx.trusted.append("harness/exec_harness.py: builds real instruction objects (from_operands), runs the real "
                       "netqasm Executor (sub-classed only for the handler-call bound, _do_wait -> blocked, recording the "
                       "final pc), reads _registers/_app_arrays/_shared_memories/_qubit_unit_modules/_program_counters; "
                       "the fault line is parsed from the 'At line N:' prefix of the raised error")
    ctx.assume.append("quantum stream: the harness executor fills the extension points _do_single_qubit_instr/_rotation/"
                      "_do_two_qubit_instr/_do_meas with event recorders (scripted measurement outcomes); what a gate does "
                      "to a quantum state is outside C04")
    ctx.trusted.append("correspondence and oracle evaluated by vm_compute inside coqc on generated cases_*.v "
                       "(Exec.ExecCheck: check_exec = model vs implementation, check_sem = reference semantics vs implementation)")
    ctx.assume.append("environment contract: nothing else writes the application's arrays while a subroutine runs, so an "
                      "unsatisfied wait_* never completes (observed as 'blocked' through _do_wait)")
    ctx.assume.append("quantum instruction effects, EPR instructions, hardware-mode width checks (get_is_using_hardware) "
                      "and logging are outside this property's model; the physical qubit chosen by qalloc is not compared")
    ctx.assume.append("hardware configuration pass: run with set_is_using_hardware(True) (reset in try/finally) and "
                      "compared with the models under cfg_hardware (HwExec / HwSem: width checks, OverflowError = FOverflow)")
    ctx.assume.append("Python without -O: the executor's `assert x is not None` checks are active")
    stats, kinds = {}, {}
    if res is not None:
        exec_mis, sem_mis, open_ = res
        open_set, sem_set = set(open_), set(sem_mis)
        for i, c in enumerate(cases):
            tags = steps_and_tags(c["results"])
            for t in tags:
                stats[t] = stats.get(t, 0) + 1
            for prog in c["subs"]:
                for ins_ in prog:
                    kinds[ins_[0]] = kinds.get(ins_[0], 0) + 1
            n_ins = sum(len(p) for p in c["subs"])
            ctx.note_case((c["cap"], json.dumps(c["subs"])), nontrivial=(n_ins >= 3 and i not in open_set))
        for i in sem_mis:
            ctx.violation("reference semantics (Sem.run) and the real Executor disagree inside the defined domain",
                          case_json(cases[i]), key=None)
        if exec_mis and not sem_mis:
            ctx.broken.append(f"correspondence Exec.run_many vs real Executor: {len(exec_mis)} differing cases, first: "
                              + json.dumps(case_json(cases[exec_mis[0]]))[:600])
        ctx.coverage["model_impl_mismatches"] = len(exec_mis)
        ctx.coverage["spec_impl_mismatches_in_domain"] = len(sem_mis)
        ctx.coverage["cases_in_defined_domain"] = len(cases) - len(open_)
        ctx.coverage["cases_reaching_open_behaviour"] = len(open_)
        ctx.coverage["outcome_distribution_per_subroutine"] = dict(sorted(stats.items()))
        ctx.coverage["instruction_kinds"] = dict(sorted(kinds.items()))
        ctx.coverage["aimed_targets"] = H.FAULT_TARGETS
        ctx.coverage["subroutines_per_case"] = {str(k): sum(1 for c in cases if len(c["subs"]) == k) for k in range(1, 16)
                                                if any(len(c["subs"]) == k for c in cases)}
        ctx.samples = [case_json(c) for c in (cases[0], cases[len(H.FAULT_TARGETS) * 3], cases[-1], cases[-2])]
        for s in ctx.samples:
            s.pop("implementation", None)
    # hardware configuration (get_is_using_hardware() on): values that fit the widths behave as specified
    hcases = generate_hardware(ctx, 400 if quick else 5000, 4 if quick else 30, fuel)
    n_h = len(hcases)
    hres = evaluate(ctx, hcases, "hardware", hardware=True)
    if hres is not None:
        hopen = set(hres[2])
        for i, c in enumerate(hcases):
            ctx.note_case(("hw", c["cap"], json.dumps(c["subs"])),
                          nontrivial=(sum(len(p) for p in c["subs"]) >= 3 and i not in hopen))
        for i in hres[1]:
            ctx.violation("hardware configuration: reference semantics (HwSem.hrun cfg_hardware) and the real Executor "
                          "disagree inside the defined domain",
                          case_json(hcases[i]), key=None)
        if hres[0] and not hres[1]:
            ctx.broken.append(f"correspondence Exec.run_many vs real Executor (hardware configuration): "
                              f"{len(hres[0])} differing cases, first: " + json.dumps(case_json(hcases[hres[0][0]]))[:600])
        ctx.coverage["hardware_config_cases"] = len(hcases)
        ctx.coverage["hardware_config_discarded_overflow_or_big"] = n_h - len(hcases)
        ctx.coverage["hardware_config_model_mismatches"] = len(hres[0])
        ctx.coverage["hardware_config_spec_mismatches"] = len(hres[1])
    # quantum stream: SemQ (target of the C05/C08/C10 bridges) vs the real Executor
    qcases = [H.gen_qcase(ctx.rng, fuel=fuel) for _ in range(400 if quick else 10000)]
    qres = evaluate_quantum(ctx, qcases, "quantum")
    if qres is not None:
        qopen = set(qres[1])
        for i, c in enumerate(qcases):
            ctx.note_case((c["cap"], json.dumps(c["subs"]), json.dumps(c["script"])),
                          nontrivial=(sum(len(p) for p in c["subs"]) >= 3 and i not in qopen))
        for i in qres[0]:
            ctx.violation("common semantics with quantum events (SemQ.qrun) and the real Executor disagree inside the domain",
                          case_json(qcases[i]), key=None)
        ctx.coverage["quantum_stream_cases"] = len(qcases)
        ctx.coverage["quantum_stream_mismatches"] = len(qres[0])
        ctx.coverage["quantum_stream_open"] = len(qres[1])
        ctx.coverage["quantum_stream_events"] = sum(len(c["results"][-1]["events"]) for c in qcases)
        ctx.samples.append(case_json(qcases[0]) | {"implementation": None})
    for job in prop_jobs:
        job.result()
    pool.shutdown()
    if ctx.broken and not ctx.violations:
        search(ctx, fuel)
    ctx.finish()


def coqchk(ctx):
    """thorough tier: re-check the compiled proofs with the independent checker"""
    import subprocess
    import vlib
    mods = ["NQ.Proofs.ExecProofs", "NQ.Proofs.Bridge_Asm", "NQ.Proofs.Bridge_AsmChain", "NQ.Proofs.Bridge_Nv",
            "NQ.Proofs.Bridge_Sdk", "NQ.Proofs.Bridge_Epr", "NQ.Proofs.Bridge_AsmQ", "NQ.Proofs.Bridge_SdkAsm",
            "NQ.Proofs.Bridge_E2E", "NQ.Proofs.Bridge_E2E_H1", "NQ.Proofs.Bridge_E2E_Wire", "NQ.Proofs.Bridge_E2E_WireTotal", "NQ.Proofs.HwProofs"]
    r = subprocess.run(["timeout", "2400", "coqchk", "-silent", "-o", "-Q", vlib.COQ, "NQ"] + mods,
                       capture_output=True, text=True)
    out = r.stdout + r.stderr
    ok = r.returncode == 0 and "* Axioms: <none>" in out
    ctx.gen_obligation("coqchk -o ExecProofs + Bridge_*: accepted, Axioms: <none>", ok, out[-300:])
    ctx.checker_cmds.append("coqchk -silent -o -Q coq NQ " + " ".join(mods))


def search(ctx, fuel):
    """Something no longer checks (a theorem or the model/implementation
    correspondence): look for an input on which the implementation disagrees with
    the reference semantics inside the defined domain."""
    cases = generate(ctx, 1500, 25, fuel)
    res = evaluate(ctx, cases, "search")
    if res is None:
        return
    for i in res[1][:5]:
        ctx.violation("reference semantics (Sem.run) and the real Executor disagree inside the defined domain",
                      case_json(cases[i]), key=None)


def replay(ctx, path):
    rec = json.load(open(path))["replay"]
    case = dict(cap=rec["cap"], fuel=rec["fuel"], subs=rec["subs"], tag=rec.get("tag", "replay"),
                hostlines=bool(rec.get("hostlines")), hardware=bool(rec.get("hardware")))
    if "script" in rec:  # a case of the quantum stream
        case["script"] = rec["script"]
        qres = evaluate_quantum(ctx, [case], "replay")
        print("replay: implementation:", json.dumps([dict(out=r["out"], pc=r["pc"], events=r["events"]) for r in case["results"]]))
        print("replay: (SemQ mismatch in domain, open) =", qres)
        if qres is None or qres[0]:
            ctx.violation("SemQ and the real Executor disagree inside the domain", case_json(case))
        return ctx.finish()
    res = evaluate(ctx, [case], "replay", hardware=bool(case.get("hardware")))
    print("replay: implementation:", json.dumps([dict(out=r["out"], pc=r["pc"]) for r in case["results"]]))
    print("replay: (model mismatch, spec mismatch in domain, open) =", res)
    if res is None or res[1]:
        ctx.violation("reference semantics and the real Executor disagree inside the defined domain", case_json(case))
    elif res[0]:
        ctx.broken.append("correspondence Exec.run_many vs real Executor differs on the replayed case")
    ctx.finish()
