"""C06 — pre-compiled templated subroutines equal direct compilation."""
import glob
import json
import os
import re

# ops of a scenario (JSON-able):
#  ["new"]                         q = Qubit(conn)   (only when no live qubit)
#  ["gate", name]                  h / x / z on the live qubit
#  ["rot", axis, n, d, templ]      rot_X/Y/Z(n, d); templ = name of the template standing for n (or None)
#  ["meas_arr"] / ["meas_reg"]     measure the live qubit into a fresh array / into a register
#  ["flush"] ["compile"] ["instantiate"] ["commit"]
# `values` maps template names to the concrete numerators.


def gen_scenario(rng):
    """-> (ops, values) ; values = union of all rounds (informative), each ["instantiate", {..}] carries its own"""
    if rng.random() < 0.35:
        return gen_rounds(rng)
    ops, allv = [], {}
    live = False
    pend_t = []   # template names pending in the builder
    ntempl = 0
    n = rng.randint(3, 14)
    for _ in range(n):
        r = rng.random()
        if not live:
            ops.append(["new"])
            live = True
        if r < 0.35:
            if rng.random() < 0.5:
                ops.append(["gate", rng.choice(["h", "x", "z"])])
            else:
                t = None
                if rng.random() < 0.6:
                    t = f"t{ntempl}"
                    ntempl += 1
                    pend_t.append(t)
                ops.append(["rot", rng.choice("XYZ"), rng.randint(0, 31), rng.choice([1, 2, 3, 4]), t])
        elif r < 0.6:
            ops.append([rng.choice(["meas_arr", "meas_arr", "meas_reg"])])
            live = False
        elif r < 0.75 and not pend_t:
            ops.append(["flush"])
        else:
            live = compile_triple(rng, ops, pend_t, allv, live)
    if pend_t:
        live = compile_triple(rng, ops, pend_t, allv, live)
    if rng.random() < 0.8:
        if not live:
            ops.append(["new"])
        ops.append(["meas_arr"])
        ops.append(["flush"])
    elif rng.random() < 0.7:
        ops.append(["flush"])
    return ops, allv


def between(rng, ops, live):
    """operations queued after compile() and before commit_subroutine(): they belong to the NEXT
    subroutine — gates, measurements into fresh arrays / register futures, new qubits"""
    queued = False
    for _ in range(rng.choice([0, 0, 1, 1, 2, 3])):
        if not live:
            ops.append(["new"])
            live = True
        r = rng.random()
        if r < 0.45:
            ops.append(["gate", rng.choice(["h", "x"])])
        else:
            ops.append([rng.choice(["meas_arr", "meas_arr", "meas_reg"])])
            live = False
        queued = True
    return live, queued


def other_value(rng, v):
    w = rng.randint(0, 31)
    return w if w != v else (v + 7) % 32


def host_noise(rng, ops, names, vals, before):
    """what a host may do around instantiate() without changing what is committed:
    before: an instantiate() that FAILS because a later template has no value yet (the host catches
    the KeyError) while earlier templates get other values than in the retry;
    after: the host goes on using (mutating) the dictionary it passed to instantiate()"""
    if before and len(names) >= 2 and rng.random() < 0.5:
        k = rng.randint(1, len(names) - 1)
        ops.append(["instantiate_fail", {t: other_value(rng, vals[t]) for t in names[:k]}])
    if not before and names and rng.random() < 0.5:
        ops.append(["mutate", {t: other_value(rng, vals[t]) for t in names if rng.random() < 0.7} or
                    {names[0]: other_value(rng, vals[names[0]])}])


def compile_triple(rng, ops, pend_t, allv, live):
    vals = {t: rng.randint(0, 31) for t in pend_t}
    allv.update(vals)
    del pend_t[:]
    ops.append(["compile"])
    live, q1 = between(rng, ops, live)
    host_noise(rng, ops, list(vals), vals, before=True)
    ops.append(["instantiate", vals])
    live, q2 = between(rng, ops, live) if rng.random() < 0.5 else (live, False)
    host_noise(rng, ops, list(vals), vals, before=False)
    ops.append(["commit"])
    if (q1 or q2) and rng.random() < 0.7:
        ops.append(["flush"])   # what was queued in between is sent on its own
    return live


def gen_rounds(rng):
    """the SAME templated block (same template names, same text) compiled, instantiated and committed
    in several rounds with DIFFERENT values, on a qubit that stays alive"""
    ops, allv = [["new"]], {}
    if rng.random() < 0.7:
        ops.append(["flush"])
    block = []
    names = ["theta", "phi", "chi"][: rng.randint(1, 3)]
    for t in names:
        block.append(["rot", rng.choice("XYZ"), 0, rng.choice([2, 3, 4]), t])
        if rng.random() < 0.4:
            block.append(["gate", rng.choice(["h", "x", "z"])])
    used = set()
    for rnd in range(rng.randint(2, 4)):
        ops += [list(o) for o in block]
        vals = {}
        for t in names:
            v = rng.randint(0, 31)
            while (t, v) in used:
                v = rng.randint(0, 31)
            used.add((t, v))
            vals[t] = v
        allv.update({f"{t}@{rnd}": v for t, v in vals.items()})
        ops.append(["compile"])
        host_noise(rng, ops, names, vals, before=True)
        ops.append(["instantiate", vals])
        host_noise(rng, ops, names, vals, before=False)
        ops.append(["commit"])
        if rng.random() < 0.3:
            ops += [["gate", "h"], ["flush"]]
    ops += [["meas_arr"], ["flush"]]
    return ops, allv


def direct_version(ops, values=None):
    """the same operations written with the values of the round they are instantiated in, flushed
    where the other flow compiles"""
    out, pending, held = [], [], []
    for o in ops:
        if o[0] == "rot":
            out.append(["rot", o[1], o[2], o[3], None])
            if o[4]:
                pending.append((len(out) - 1, o[4]))
        elif o[0] == "compile":
            out.append(["flush"])
            held, pending = pending, []
        elif o[0] == "instantiate":
            for (i, t) in held:
                out[i][2] = o[1][t]
            held = []
        elif o[0] in ("commit", "instantiate_fail", "mutate"):
            continue
        else:
            out.append(list(o))
    return out


def run_flow(repo, ops, values, hardware, script, subst_by_position=False):
    """Drive the real connection.  Returns observations (all JSON-able)."""
    from sdk_pipeline import Pipeline

    pipe = Pipeline(repo, hardware=hardware, max_qubits=3)
    pipe.meas_script = list(script)
    from netqasm.lang.operand import Template
    from netqasm.sdk.qubit import Qubit

    obs = dict(error=None)
    futures, snaps, left, flags = [], [], None, []
    try:
        with pipe.connection() as conn:
            q, sub = None, None
            nsent = 0
            shared = {}   # ONE values dictionary the host keeps reusing
            # flush() / commit_subroutine() are called exactly as a user calls them (default arguments).  What
            # reaches the connection's send hook is recorded (block flag, callback given?), and the controller
            # is asynchronous the way real back ends are: a NON-blocking message is only queued; it is handled
            # when the next blocking message arrives.  A host reading results right after a non-blocking commit
            # sees nothing yet.
            base_send = conn._commit_serialized_message
            deferred = []

            def send(raw_msg, block=True, callback=None):
                flags.append([bool(block), callback is None])
                if not block:
                    deferred.append(raw_msg)
                    return
                while deferred:
                    base_send(deferred.pop(0))
                base_send(raw_msg)

            conn._commit_serialized_message = send

            def snap():
                nonlocal nsent
                while nsent < len(pipe.subroutines):
                    nsent += 1
                    sm = conn.shared_memory
                    snaps.append({str(a): list(v) for a, v in sm._arrays._arrays.items()})

            for o in ops:
                k = o[0]
                if k == "new":
                    q = Qubit(conn)
                elif k == "gate":
                    getattr(q, o[1].upper())()
                elif k == "rot":
                    nval = Template(o[4]) if o[4] else o[2]
                    getattr(q, "rot_" + o[1])(n=nval, d=o[3])
                elif k == "meas_arr":
                    futures.append(q.measure())
                elif k == "meas_reg":
                    futures.append(q.measure(store_array=False))
                elif k == "flush":
                    conn.flush()
                elif k == "compile":
                    sub = conn.compile()
                elif k == "instantiate":
                    if sub is not None:
                        shared.update(o[1])
                        sub.instantiate(conn.app_id, shared)      # the host's own dictionary, not a copy
                elif k == "instantiate_fail":
                    if sub is not None:
                        try:
                            sub.instantiate(conn.app_id, dict(o[1]))
                        except KeyError:
                            pass                                   # the host catches it and retries later
                elif k == "mutate":
                    shared.update(o[1])
                elif k == "commit":
                    if sub is not None:
                        conn.commit_subroutine(sub)
                    sub = None
                snap()
            mm = conn.builder._mem_mgr if hasattr(conn, "builder") else conn._builder._mem_mgr
            left = ([a.address for a in mm.get_arrays_to_return()], [r.index for r in mm.get_registers_to_return()])
            obs["nsubs"] = len(pipe.subroutines)   # before the connection's closing flush
            obs["exec_arrays"] = {str(a): v for a, v in pipe.arrays().items()}
            obs["shared_arrays"] = {str(a): list(v) for a, v in conn.shared_memory._arrays._arrays.items()}
            vals = []
            for f in futures:
                try:
                    vals.append(int(f))
                except Exception as e:  # value not available to the host
                    vals.append("ERR:" + type(e).__name__)
            obs["host_values"] = vals
    except Exception as e:
        obs["error"] = type(e).__name__ + ": " + str(e)[:120]
    obs["trace"] = [[m, list(a), list(i)] for m, a, i in pipe.gate_trace()]
    obs["snaps"] = snaps
    obs["send_flags"] = flags
    obs["left"] = left
    views, rots = [], []
    for s in pipe.subroutines[: obs.get("nsubs", len(pipe.subroutines))]:
        decl = [i.address.address for i in s.instructions if i.mnemonic == "array"]
        reta = [i.address.address for i in s.instructions if i.mnemonic == "ret_arr"]
        retr = [i.reg.index for i in s.instructions if i.mnemonic == "ret_reg"]
        views.append([decl, reta, retr])
        rots.append([getattr(i.angle_num, "value", -1) for i in s.instructions if i.mnemonic in ("rot_x", "rot_y", "rot_z")])
    obs["views"] = views
    obs["rots"] = rots
    obs["subroutines"] = [str(s) for s in pipe.subroutines]
    return obs


def erased(snaps):
    """an array entry that had a value after some subroutine and lost it (or changed) later"""
    for i in range(len(snaps)):
        for a, vals in snaps[i].items():
            for j in range(i + 1, len(snaps)):
                later = snaps[j].get(a)
                if later is None:
                    return f"array @{a} returned after subroutine {i} is gone after subroutine {j}"
                for k, v in enumerate(vals):
                    if v is not None and (k >= len(later) or later[k] != v):
                        return f"array @{a}[{k}] = {v} after subroutine {i} but {later[k] if k < len(later) else 'missing'} after subroutine {j}"
    return None


def judge(ctx, ops, values, hardware, script, stats=None):
    pre = run_flow(ctx.repo, ops, values, hardware, script)
    dire = run_flow(ctx.repo, direct_version(ops, values), values, hardware, script)
    what = None
    if dire["error"]:
        return None, pre, dire  # not a scenario the direct flow supports
    if pre["error"]:
        what = f"precompiled flow raises {pre['error']} where the flushed flow succeeds"
    else:
        for k, label in (("trace", "controller gate trace"), ("exec_arrays", "controller arrays"),
                         ("shared_arrays", "shared memory"), ("host_values", "host-visible values"),
                         ("send_flags", "block flag / callback of the messages handed to the connection's send hook"),
                         ("views", "arrays declared / returned per subroutine"), ("left", "pending arrays/registers left in the builder")):
            if pre[k] != dire[k]:
                what = f"{label} differ: precompiled {json.dumps(pre[k])[:160]} vs flushed {json.dumps(dire[k])[:160]}"
                break
        if what is None:
            what = erased(pre["snaps"])
    if stats is not None:
        stats["differs" if what else "equal"] = stats.get("differs" if what else "equal", 0) + 1
    if what:
        ctx.violation("precompiled flow != flushed flow: " + what,
                      dict(ops=ops, values=values, hardware=hardware, script=script, what=what,
                           precompiled_subroutines=pre["subroutines"][-3:]), key=None)
    return what is None, pre, dire


def model_ops(ops, values):
    """the scenario as Conn.v operations (Coq text) — commands are representative, the
    bookkeeping is what is compared"""
    out, nreg = [], 0
    pend = False
    for o in ops:
        k = o[0]
        if k == "new":
            out.append('SGate ("init", [OReg 0])')
            pend = True
        elif k == "gate":
            out.append(f'SGate ("{o[1]}", [OReg 0])')
            pend = True
        elif k == "rot":
            n = f'OTmpl "{o[4]}"' if o[4] else f"OInt ({o[2]})%Z"
            out.append(f'SGate ("rot_{o[1].lower()}", [OReg 0; {n}; OInt ({o[3]})%Z])')
            pend = True
        elif k == "meas_arr":
            out.append('SMeasArr ("meas", [OReg 0; OReg 0])')
            pend = True
        elif k == "meas_reg":
            out.append(f'SMeasReg {nreg}%nat ("meas", [OReg 0; OReg 0])')
            nreg += 1
            pend = True
        elif k == "flush":
            out.append("SFlush")
            if pend:
                nreg = 0
            pend = False
        elif k == "compile":
            out.append("SCompile")
            if pend:
                nreg = 0
            pend = False
        elif k == "instantiate":
            vs = "".join(f'if String.eqb n "{t}" then {v} else ' for t, v in o[1].items())
            out.append(f"SInstantiate (fun n => ({vs}0)%Z)")
        elif k == "instantiate_fail":
            out.append("SInstantiateFail")
        elif k == "commit":
            out.append("SCommit")
        # "mutate": the host changing its dictionary after instantiate() is not an operation on the connection
    return "[" + "; ".join(out) + "]"


def canon(regs):
    """rename register indices by order of first appearance"""
    seen = {}
    return [seen.setdefault(r, len(seen)) for r in regs]


def nl(l):
    return "[" + "; ".join(f"{x}%nat" for x in l) + "]"


HEADER = """From Coq Require Import ZArith List String.
From NQ Require Import Sdk.Conn.
From Gen Require Import Gen_Conn.
Import ListNotations.
Open Scope string_scope.
"""


def transpile_clause(ctx, n, stats):
    """`transpile . instantiate = instantiate . transpile` on the real code, and the tie of the model's
    representation of templates: generated vanilla subroutines (C08's generator) whose rotation numerators /
    denominators are partly Templates.  Oracle: real transpile-then-instantiate == real
    instantiate-then-transpile (instruction lists).  Tie: the model's transpile of the program with templates
    coded as negative integers == the real transpiler's output on the templated subroutine, same coding."""
    import nv_gen
    import nv_impl

    impl = nv_impl.NvImpl(ctx.repo)
    rng = ctx.rng
    tcases, meta = [], []
    for k in range(8 * n):
        if stats.get("transpile_clause", 0) >= n:
            break
        prog, m = nv_gen.gen_program(rng, dict(perm=rng.random() < 0.3, nonq=rng.random() < 0.3), size=rng.randint(2, 5))
        names, vals, codes, out = [], {}, {}, []
        for t in prog:
            if t[0] == "rot" and rng.random() < 0.6:
                nm = f"t{len(names)}"
                names.append(nm)
                codes[nm] = -len(names)
                if rng.random() < 0.8:
                    vals[nm] = rng.randint(0, 31)
                    t = ("rot", t[1], t[2], nm, t[4])
                else:
                    vals[nm] = rng.randint(0, 4)
                    t = ("rot", t[1], t[2], t[3], nm)
            out.append(t)
        prog = out
        if not names:
            continue
        a = impl.transpile_then_instantiate(prog, vals)
        b = impl.instantiate_then_transpile(prog, vals)
        stats["transpile_clause"] = stats.get("transpile_clause", 0) + 1
        ctx.note_case(("transpile-clause", str(prog), json.dumps(vals)))
        if a[:2] != b[:2]:
            ctx.violation("transpile(instantiate(P, v)) != instantiate(transpile(P), v) on the real NV transpiler",
                          dict(ops=[["program", [list(t) for t in prog]]], values=vals, what="transpile/instantiate do not commute",
                               subroutine_text=impl.text([t for t in nv_impl.code_templates(prog, {k_: 0 for k_ in names})]),
                               transpile_then_instantiate=str(a[:2])[:600], instantiate_then_transpile=str(b[:2])[:600]), key=None)
        if a[0] == "ok":
            coded_in = nv_impl.code_templates(prog, codes)
            coded_out = nv_impl.code_templates(a[2], codes)
            tcases.append((False, False, coded_in, nv_impl.enc_tresult(("ok", coded_out))))
            meta.append(prog)
    return impl, tcases, meta


def run(ctx):
    quick = ctx.tier == "quick"
    ctx.rule = ("generated scenarios on the real connection (in-process controller): qubit creation, H/X/Z, rot_X/Y/Z with "
                "integer or Template numerators, measurements into fresh arrays / into returned registers, flushes and "
                "compile -> (more operations) -> instantiate -> commit_subroutine triples in any mix, a closing measure+flush; "
                "each scenario is run as written and as the direct flow (templates replaced by their values, flush where the "
                "other compiles), on generic hardware and on NV hardware with the NV transpiler; non-trivial = contains a "
                "compile with a templated rotation and a later flush; distinct = distinct (ops, values, hardware)")
    ok, err = ctx.gen("conn_tables.py", "Gen_Conn.v")
    ctx.gen_obligation("translator conn_tables.py understands _REPLACE_CONSTANTS_EXCEPTION", ok, err.strip()[-300:])
    if ok:
        r = ctx.coqc("Gen_Conn.v")
        ctx.gen_obligation("Gen_Conn.v type-checks", r.ok, r.err[-300:])
        ok = r.ok
    if ok:
        okb, errb = ctx.gen("nv_blocks.py", "Gen_NvBlocks.v")
        ctx.trusted.append("harness/nv_impl.py / nv_gen.py (C08's generator and tuple<->instruction conversion) for the "
                           "transpile/instantiate clause; Templates are coded as negative integers on the model side")
        ctx.gen_obligation("translator nv_blocks.py (NV decomposition table, for the transpile/instantiate clause)", okb, errb.strip()[-300:])
        if okb:
            rb = ctx.coqc("Gen_NvBlocks.v")
            ctx.gen_obligation("Gen_NvBlocks.v type-checks", rb.ok, rb.err[-300:])
        ctx.props("C06")
    ctx.trusted += ["gen/conn_tables.py: reads the live list netqasm.lang.parsing.text._REPLACE_CONSTANTS_EXCEPTION",
                    "harness/sdk_pipeline.py (in-process connection/controller, RecExecutor with scripted outcomes); "
                    "harness/checks/c06.py scenario driver and canonicalisation",
                    "correspondence: Conn.run_ops evaluated by vm_compute on the generated histories against the arrays "
                    "declared/returned and registers returned per subroutine the real controller received, and the builder's "
                    "pending arrays/registers at the end"]
    ctx.assume += ["Conn.v's assembler part models only constant replacement (scratch `set`s, exemption table, templates); "
                   "its agreement with the real assembler on whole programs is property C03's tie, here it is exercised through "
                   "the oracle (real precompiled flow vs real flushed flow)",
                   "commands inside the modelled histories are representatives; the model is tied on bookkeeping "
                   "(arrays declared/returned, registers returned, what is left pending), not on instruction text",
                   "measurement outcomes are scripted and identical in both flows"]
    rng = ctx.rng
    stats, cov = {}, dict(ops={}, lengths={})
    # corpus first
    for path in sorted(glob.glob(os.path.join(os.path.dirname(__file__), "..", "..", "corpus", "C06", "*.json"))):
        rec = json.load(open(path))
        for hw in ("generic", "nv"):
            judge(ctx, rec["ops"], rec["values"], hw, rec.get("script", [1, 0, 1, 1]), stats)
            ctx.note_case(("corpus", os.path.basename(path), hw))
    n = 60 if quick else 700
    cases, meta = [], []
    for k in range(n):
        ops, values = gen_scenario(rng)
        script = [rng.randint(0, 1) for _ in range(16)]
        for o in ops:
            cov["ops"][o[0]] = cov["ops"].get(o[0], 0) + 1
        cov["lengths"][str(len(ops) // 5 * 5)] = cov["lengths"].get(str(len(ops) // 5 * 5), 0) + 1
        for hw in ("generic", "nv"):
            okj, pre, dire = judge(ctx, ops, values, hw, script, stats)
            nontriv = any(o[0] == "rot" and o[4] for o in ops) and ops[-1][0] == "flush"
            if hw == "generic":
                for kind in ("instantiate_fail", "mutate"):
                    if any(o[0] == kind for o in ops):
                        stats["with_" + kind] = stats.get("with_" + kind, 0) + 1
                if any(ops[i][0] == "compile" and any(o[0].startswith("meas") for o in ops[i + 1: i + 1 + next((j for j, x in enumerate(ops[i + 1:]) if x[0] == "commit"), 0)]) for i in range(len(ops))):
                    stats["results_queued_between_compile_and_commit"] = stats.get("results_queued_between_compile_and_commit", 0) + 1
                stats["rounds>=2_same_block" if any(a.endswith("@1") for a in values) else "mixed"] = \
                    stats.get("rounds>=2_same_block" if any(a.endswith("@1") for a in values) else "mixed", 0) + 1
            ctx.note_case((json.dumps(ops), json.dumps(values), hw), nontrivial=nontriv)
            if hw == "generic" and pre["error"] is None and pre["left"] is not None:
                # M-register numbers are an allocation detail that C06 does not observe: registers to
                # return are compared up to a renaming by order of first appearance (a register
                # returned twice in one subroutine still shows: [0, 0] instead of [0, 1]); array
                # addresses (declare / return / erase) stay exact
                views = "[" + "; ".join(f"({nl(v[0])}, {nl(v[1])}, {nl(canon(v[2]))})" for v in pre["views"]) + "]"
                rots = "[" + "; ".join("[" + "; ".join(f"({x})%Z" for x in r) + "]" for r in pre["rots"]) + "]"
                cases.append(f"mkC {model_ops(ops, values)} {views} {nl(pre['left'][0])} {nl(canon(pre['left'][1]))} {rots}")
                meta.append(dict(ops=ops, values=values, views=pre["views"], left=pre["left"]))
        if k < 3:
            ctx.samples.append(dict(ops=ops, values=values))
    impl_t, tcases, tmeta = transpile_clause(ctx, 40 if quick else 400, stats)
    if ok and tcases:
        import nv_impl

        tfiles = {}
        for k in range((len(tcases) + 39) // 40):
            fn = f"tcases_{k}.v"
            nv_impl.write_case_file(os.path.join(ctx.build, fn), tcases[k * 40:(k + 1) * 40], [])
            tfiles[fn] = k
        tm = []
        for fn, res in ctx.run_case_files(list(tfiles)).items():
            if not res.ok:
                ctx.gen_obligation(f"correspondence file {fn} evaluates", False, res.err[-300:])
                continue
            parts = re.findall(r"=\s*(\[[^\]]*\]|nil)\s*:\s*list Z", res.out.replace("\n", " "))
            tm += [tfiles[fn] * 40 + int(x) for x in re.findall(r"-?\d+", parts[0])] if parts else []
        ctx.coverage["templated_transpile_model_mismatches"] = len(tm)
        if tm:
            ctx.broken.append(f"correspondence Transpile.transpile (templates as negative codes) vs real transpiler on templated "
                              f"subroutines: {len(tm)} differing; first: {str(tmeta[tm[0]])[:300]}")
    mism = []
    if ok:
        shard, files = 100, {}
        for k in range((len(cases) + shard - 1) // shard):
            fn = f"cases_{k}.v"
            with open(os.path.join(ctx.build, fn), "w") as f:
                f.write(HEADER + "Definition cases : list ccase :=\n [" + ";\n  ".join(cases[k * shard:(k + 1) * shard]) + "].\n")
                f.write("Eval vm_compute in (failing (check_ccase gen_exempt) cases 0%Z).\n")
            files[fn] = k
        for fn, res in ctx.run_case_files(list(files)).items():
            if not res.ok:
                ctx.gen_obligation(f"correspondence file {fn} evaluates", False, res.err[-300:])
                continue
            parts = re.findall(r"=\s*(\[[^\]]*\]|nil)\s*:\s*list Z", res.out.replace("\n", " "))
            if len(parts) != 1:
                ctx.gen_obligation(f"correspondence file {fn} output parsed", False, res.out[-300:])
                continue
            mism += [files[fn] * shard + int(x) for x in re.findall(r"-?\d+", parts[0])]
    stats["model_cases"] = len(cases)
    ctx.coverage["stream_distribution"] = stats
    ctx.coverage["op_kinds"] = cov["ops"]
    ctx.coverage["scenario_lengths"] = cov["lengths"]
    ctx.coverage["model_impl_mismatches"] = len(mism)
    if mism:
        m = meta[mism[0]]
        ctx.broken.append(f"correspondence Conn.run_ops vs real connection: {len(mism)} differing histories; first: "
                          f"{json.dumps(m)[:400]}")
    if ctx.broken and not ctx.violations:
        search(ctx)
    ctx.finish()


def search(ctx):
    """model / theorem no longer checks: look for a scenario on which the two real flows differ"""
    rng = ctx.rng
    for _ in range(300):
        ops, values = gen_scenario(rng)
        for hw in ("generic", "nv"):
            judge(ctx, ops, values, hw, [rng.randint(0, 1) for _ in range(16)])
        if ctx.violations:
            return


def replay(ctx, path):
    rec = json.load(open(path))
    rec = rec.get("replay", rec)
    if rec["ops"] and rec["ops"][0][0] == "program":      # a transpile/instantiate clause case
        import nv_impl

        impl = nv_impl.NvImpl(ctx.repo)
        prog = [tuple(tuple(x) if isinstance(x, list) else x for x in t) for t in rec["ops"][0][1]]
        a = impl.transpile_then_instantiate(prog, rec["values"])
        b = impl.instantiate_then_transpile(prog, rec["values"])
        print("replay: transpile-then-instantiate", a[:2] == b[:2] and "==" or "!=", "instantiate-then-transpile")
        if a[:2] != b[:2]:
            ctx.violation("transpile(instantiate(P, v)) != instantiate(transpile(P), v) on the real NV transpiler", rec, key=None)
        return ctx.finish()
    okj, pre, dire = judge(ctx, rec["ops"], rec["values"], rec.get("hardware", "generic"), rec.get("script", [1, 0, 1, 1]))
    print("replay: equal =", okj)
    print("precompiled:", json.dumps({k: pre[k] for k in ("error", "views", "shared_arrays", "host_values", "left")}))
    print("flushed:    ", json.dumps({k: dire[k] for k in ("error", "views", "shared_arrays", "host_values", "left")}))
    ctx.finish()
