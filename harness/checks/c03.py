"""C03 — assembling text or IR into a subroutine preserves program meaning."""
import glob
import json
import os

import asm_common as ac
import asm_gen as ag

BOUND = 400  # executor step bound (instructions of the assembled program)


def corpus_cases(ctx):
    out = []
    for p in sorted(glob.glob(os.path.join(os.path.dirname(ac.__file__), "..", "corpus", "C03", "*.json"))):
        rec = json.load(open(p))
        out.append(dict(flavour=rec["flavour"], lines=rec.get("lines"), prog=rec.get("prog") or [], tag="corpus",
                        execute=rec.get("execute", True), src=os.path.basename(p)))
    return out


def gen_cases(ctx, impl, n_exec, n_any, n_text, n_bad):
    rng = ctx.rng
    cases = []
    for _ in range(n_exec):
        cases.append(dict(flavour=rng.choice(ac.FLAVS), lines=None, prog=ag.gen_exec_prog(rng), tag="ir-exec", execute=True))
    for fname in ac.FLAVS:
        rows = impl.ct["flavours"][fname]["rows"]
        for _ in range(n_any):
            cases.append(dict(flavour=fname, lines=None, prog=ag.gen_any_prog(rng, rows), tag="ir-any", execute=False))
    for _ in range(n_text):
        fname = rng.choice(ac.FLAVS)
        if rng.random() < 0.6:
            prog, ex = ag.gen_exec_prog(rng), True
        else:
            prog, ex = ag.gen_any_prog(rng, impl.ct["flavours"][fname]["rows"]), False
        lines = ["# NETQASM 1.0", "# APPID 0"] + ac.render_text(rng, prog)
        cases.append(dict(flavour=fname, lines=lines, prog=prog, tag="text", execute=ex))
    for _ in range(n_bad):
        fname = rng.choice(ac.FLAVS)
        prog = ag.gen_exec_prog(rng, max_len=6)
        lines = ["# NETQASM 1.0", "# APPID 0"] + ac.mangle(rng, ac.render_text(rng, prog))
        cases.append(dict(flavour=fname, lines=lines, prog=prog, tag="text-mangled", execute=False))
    return cases


def run_impl(impl, c):
    """fill c['out'], c['obs'] from the real assembler / executor"""
    if c["lines"] is not None:
        out, sub = impl.assemble_text(c["flavour"], "\n".join(c["lines"]) + "\n")
    else:
        out, sub = impl.assemble_ir(c["flavour"], c["prog"])
    c["out"], c["fuel"], c["obs"] = out, BOUND, None
    if sub is not None and c["execute"]:
        c["obs"] = impl.execute(sub, BOUND)
    return c


def replay_dict(c):
    d = dict(flavour=c["flavour"], implementation_result=c["out"], executor=c["obs"])
    if c["lines"] is not None:
        d["lines"] = c["lines"]
    else:
        d["prog"] = c["prog"]
    return d


def evaluate(ctx, impl, cases, prefix):
    """run implementation + model on the cases -> [(case, code)] for the differing ones"""
    per = {f: [] for f in ac.FLAVS}
    for c in cases:
        run_impl(impl, c)
        per[c["flavour"]].append(c)
    bad = ac.run_sharded(ctx, ac.write_acase_file, per, 120, prefix)
    return [(per[f][i], code) for (f, i), code in sorted(bad.items())]


def report(ctx, differing):
    """oracle failures are violations with the program; other differences break the tie"""
    n_oracle = 0
    for c, code in differing:
        if code & 2:
            n_oracle += 1
            ctx.violation("the assembled program on the real Executor does not behave like the source program "
                          "(direct interpretation of the source: registers named by the program, arrays, shared "
                          "memory, fault line)", replay_dict(c), key=None)
    rest = [(c, code) for c, code in differing if not code & 2]
    if rest:
        a = [c for c, code in rest if code & 1]
        d = [c for c, code in rest if code & 4 and not code & 1]
        if a:
            ctx.broken.append(f"correspondence Asm.assemble / Text.parse_text vs assemble_subroutine / parse_text_subroutine: "
                              f"{len(a)} differing programs, first: {json.dumps(replay_dict(a[0]))[:600]}")
        if d:
            ctx.broken.append(f"correspondence AsmSem.arun vs Executor on assembled programs: {len(d)} differing, "
                              f"first: {json.dumps(replay_dict(d[0]))[:600]}")
    return n_oracle


def run(ctx):
    ctx.rule = ("proto-programs over (a) the classical instructions with literals in every value position incl. array "
                "indices, bracket args, labels anywhere (consecutive, after the last instruction), counted loops, "
                "1..16 named R registers; (b) every class of the flavour with operands by kind, literals for registers, "
                "wrong kinds, repeated/undefined labels; the same rendered as text with macros (keys that are prefixes of "
                "other keys), comments, indentation, bracket args; one-edit malformed texts.  Each is assembled by the real "
                "code and by the model (instruction lists / error class compared); executable ones run on the real Executor "
                "(step bound %d) and are compared with the direct interpretation of the source.  non-trivial = at least one "
                "instruction; distinct = distinct (flavour, program/text)" % BOUND)
    impl = ac.prepare(ctx)
    if impl is None:
        return ctx.finish()
    ctx.props("C03")
    quick = ctx.tier == "quick"
    cases = corpus_cases(ctx)
    cases += gen_cases(ctx, impl, *((500, 120, 450, 120) if quick else (6000, 1200, 5000, 1200)))
    differing = evaluate(ctx, impl, cases, "cases")
    stats, feats, kinds = {}, {}, {}
    for c in cases:
        stats[c["tag"]] = stats.get(c["tag"], 0) + 1
        o = c["out"]
        k = "assembled" if o[0] == "instrs" else ["parse-error", "no-scratch", "repeated-label", "build-error"][o[1]]
        stats[k] = stats.get(k, 0) + 1
        for f in ag.shape_of(c["prog"]):
            feats[f] = feats.get(f, 0) + 1
        if c["obs"] is not None:
            kk = ["halted", "fault", "step-bound"][c["obs"]["kind"]]
            kinds[kk] = kinds.get(kk, 0) + 1
        n_ins = sum(1 for x in c["prog"] if x[0] == "ins")
        ctx.note_case((c["flavour"], json.dumps(c["lines"] if c["lines"] is not None else c["prog"])), nontrivial=n_ins > 0)
    ctx.samples = [replay_dict(c) for c in (cases[:2] + [c for c in cases if c["tag"] == "text"][:2]
                                           + [c for c in cases if c["tag"] == "ir-exec" and c["obs"]][:2])]
    ctx.coverage["stream_distribution"] = stats
    ctx.coverage["program_features"] = feats
    ctx.coverage["executions"] = kinds
    ctx.coverage["model_impl_differences"] = len(differing)
    ctx.trusted.append("correspondence and oracle: models evaluated by vm_compute inside coqc on generated case files; "
                       "harness/asm_common.py builds real ICmd/ProtoSubroutine objects and text, runs assemble_subroutine / "
                       "parse_text_subroutine and a step-bounded subclass of the real Executor (only _execute_command and "
                       "_handle_command_exception are wrapped, to count steps and record the faulting line)")
    ctx.assume.append("modelled, validated by correspondence only: character-level tokenising, comment stripping, preamble "
                      "and macro substitution (Text.parse_text); the theorems start at the proto-command level")
    ctx.assume.append("the source semantics covers set add sub addm subm load store lea undef array jmp bez bnz beq bne blt "
                      "bge ret_reg ret_arr; other instructions are 'outside the model' (Stuck) in source and target alike; "
                      "well-formed sources use labels (not line numbers) as branch targets and registers as destinations")
    ctx.assume.append("executions start from the initial state of a fresh application; the theorem quantifies over all "
                      "start states")
    report(ctx, differing)
    if ctx.broken and not ctx.violations:
        search(ctx, impl)
    ctx.finish()


def search(ctx, impl):
    """something no longer checks: look for a program whose execution differs from its source meaning"""
    rng = ctx.rng
    cases = []
    for _ in range(600):
        prog = ag.gen_exec_prog(rng, max_len=8)
        if rng.random() < 0.5:
            cases.append(dict(flavour="vanilla", lines=None, prog=prog, tag="search", execute=True))
        else:
            cases.append(dict(flavour="vanilla", lines=["# NETQASM 1.0", "# APPID 0"] + ac.render_text(rng, prog),
                              prog=prog, tag="search", execute=True))
    differing = evaluate(ctx, impl, cases, "search")
    for c, code in differing:
        if code & 2:
            ctx.violation("the assembled program on the real Executor does not behave like the source program",
                          replay_dict(c), key=None)
            return


def replay(ctx, path):
    rec = json.load(open(path))
    rec = rec.get("replay", rec)
    impl = ac.prepare(ctx)
    c = dict(flavour=rec["flavour"], lines=rec.get("lines"), prog=rec.get("prog", []), tag="replay", execute=True)
    differing = evaluate(ctx, impl, [c], "replay")
    print("replay:", json.dumps(replay_dict(c))[:2000], "codes:", [code for _, code in differing])
    report(ctx, differing)
    ctx.finish()
