"""C03 — assembling text or IR into a subroutine preserves program meaning."""
import glob
import json
import os

import asm_common as ac
import asm_gen as ag

BOUND = 400  # executor step bound (instructions of the assembled program)


def corpus_cases(ctx):
    out = []
    for p in sorted(glob.glob(os.path.join(os.path.dirname(ac.__file__), "..", "corpus", "C03", "*.json"))):
        rec = json.load(open(p))
        out.append(dict(flavour=rec["flavour"], lines=rec.get("lines"), prog=rec.get("prog") or [], tag="corpus",
                        execute=rec.get("execute", True), src=os.path.basename(p),
                        alias=bool(rec.get("shared_operand_objects"))))
    return out


def gen_cases(ctx, impl, n_exec, n_any, n_text, n_bad):
    rng = ctx.rng
    cases = []
    for _ in range(n_exec):
        cases.append(dict(flavour=rng.choice(ac.FLAVS), lines=None, prog=ag.gen_exec_prog(rng), tag="ir-exec", execute=True))
    for _ in range(max(40, n_exec // 5)):
        # built the way callers do: shared operand lists / operand objects between commands, repeated instructions
        cases.append(dict(flavour=rng.choice(ac.FLAVS), lines=None, prog=ag.with_repeats(rng, ag.gen_exec_prog(rng, max_len=8)),
                          tag="ir-aliased-operands", execute=True, alias=True))
    for _ in range(max(20, n_exec // 8)):
        prog = ag.gen_loop0_prog(rng)
        if rng.random() < 0.5:
            cases.append(dict(flavour=rng.choice(ac.FLAVS), lines=None, prog=prog, tag="ir-loop-at-line-0", execute=True))
        else:
            cases.append(dict(flavour=rng.choice(ac.FLAVS), lines=["# NETQASM 1.0", "# APPID 0"] + ac.render_text(rng, prog),
                              prog=prog, tag="text-loop-at-line-0", execute=True))
    for fname in ac.FLAVS:
        rows = impl.ct["flavours"][fname]["rows"]
        for _ in range(n_any):
            cases.append(dict(flavour=fname, lines=None, prog=ag.gen_any_prog(rng, rows), tag="ir-any", execute=False))
    for _ in range(n_text):
        fname = rng.choice(ac.FLAVS)
        if rng.random() < 0.6:
            prog, ex = ag.gen_exec_prog(rng), True
        else:
            prog, ex = ag.gen_any_prog(rng, impl.ct["flavours"][fname]["rows"]), False
        lines = ["# NETQASM 1.0", "# APPID 0"] + ac.render_text(rng, prog)
        cases.append(dict(flavour=fname, lines=lines, prog=prog, tag="text", execute=ex))
    for _ in range(n_bad):
        fname = rng.choice(ac.FLAVS)
        prog = ag.gen_exec_prog(rng, max_len=6)
        lines = ["# NETQASM 1.0", "# APPID 0"] + ac.mangle(rng, ac.render_text(rng, prog))
        cases.append(dict(flavour=fname, lines=lines, prog=prog, tag="text-mangled", execute=False))
    # reserved registers (the builder's still-claimed registers) for a share of the IR and text callers
    for c in cases:
        if c["tag"] != "text-mangled" and rng.random() < 0.3:
            c["rsv"] = [[0, i] for i in rng.sample(range(16), rng.choice([1, 2, 4, 8]))]
            if rng.random() < 0.2:
                c["rsv"].append([rng.randint(1, 3), rng.randrange(16)])
    return cases


PREAMBLE_FIXED = [
    # the error cases listed in tests/test_parsing/test_text.py, and close variants that are accepted
    ["# WRONG"], ["# APPID 0", "H 0", "#APPID 0"], ["# DEFINE args {0, 0"], ["# NETQASM"], ["# NETQASM 1 2"],
    ["# APPID"], ["# APPID 1 2"], ["# DEFINE args"], ["# DEFINE args 0 0"], ["# DEFINE 1args 0"],
    ["# DEFINE args 0", "# DEFINE args 1"],
    ["# DEFINE args {0, 0}", "rot_x Q0 $args"], ["#"], ["##  NETQASM 1.0"], ["# NETQASM 1.0", "# NETQASM 2.0"],
    ["# APPID x"], ["# NETQASM 1"], ["# NETQASM a.b"], ["# NETQASM 1.0.0"], [" #  APPID 3 // c", "set R0 1"],
    ["# APPID 0", "# APPID 1"], ["# DEFINE a_b Q1", "# DEFINE a Q2", "set $a_b 1", "set $a 2"],
    ["#NETQASM 0.0", "#APPID 7", "#DEFINE x {R1}", "set $x 1"], ["# DEFINE x {}", "set R0 1"],
    ["// c", "", "# APPID 0", "", "set R0 1", "// end"], ["set R0 1", "# APPID 0"], ["# DEFINE x y z"],
    ["# DEFINE _x 1"], ["# DEFINE x1 1", "# DEFINE x1 1"], ["# netqasm 1.0"], ["# APPID -1"], ["# NETQASM -1.0"],
]


def gen_preamble_text(rng):
    frags = ["# NETQASM 1.0", "# APPID 0", "# APPID 12", "# NETQASM 0.3", "#  APPID   5", "# DEFINE q Q1", "# DEFINE q2 {Q2}",
             "# DEFINE i R0", "# DEFINE q Q3", "# DEFINE 9x 1", "# DEFINE z", "# NETQASM", "# APPID 1 2", "# FOO 1", "#",
             "# DEFINE s {1, 2}", "# DEFINE t {1, 2", "// comment", "", "   ", "# DEFINE m @1[R0:5]", "# APPID q", "# NETQASM 1",
             "\t# APPID 0 // c"]
    body = ["set R0 1", "set $q 1", "store $i @0[$i]", "jmp L", "L:", "wait_all $m", "set $q2 2", "qalloc $q", "ret_reg $i",
            "# APPID 0"]
    lines = [rng.choice(frags) for _ in range(rng.randint(0, 4))]
    lines += [rng.choice(body) for _ in range(rng.randint(0, 3))]
    if rng.random() < 0.1:
        lines += [rng.choice(frags)]
    return lines


def front_stage(ctx, impl, cases, quick):
    """character-level front end: Text.parse_text vs parse_text_protosubroutine on every generated text
    (decorated, with macros, malformed) and on preambles; TextFront.print_proto vs the canonical rendering and
    the real parser reading the canonical text back"""
    rng = ctx.rng
    texts = [c["lines"] for c in cases if c["lines"] is not None]
    if quick:
        texts = rng.sample(texts, min(len(texts), 220))
    texts += [list(x) for x in PREAMBLE_FIXED]
    texts += [gen_preamble_text(rng) for _ in range(200 if quick else 2000)]
    fcases, n_unsup, n_rej = [], 0, 0
    for lines in texts:
        proto = impl.parse_front(lines)
        if proto == "unsupported":
            n_unsup += 1
            continue
        n_rej += proto is None
        fcases.append(dict(lines=lines, proto=proto))
        ctx.note_case(("front", json.dumps(lines)), nontrivial=len(lines) > 0)
    kcases = []
    progs = [c["prog"] for c in cases if c["lines"] is None and c["prog"]]
    if quick:
        progs = rng.sample(progs, min(len(progs), 250))
    for _ in range(100 if quick else 2000):
        progs.append(ag.gen_exec_prog(rng, max_len=8))
    for prog in progs:
        lines = ac.canonical_lines(prog)
        back = impl.parse_front(lines)
        kcases.append(dict(prog=prog, lines=lines, back=None if back == "unsupported" else back))
        ctx.note_case(("canon", json.dumps(prog)), nontrivial=len(prog) > 0)
    bad_f = ac.run_sharded(ctx, ac.write_fcase_file, {"vanilla": fcases}, 300, "front")
    bad_k = ac.run_sharded(ctx, ac.write_kcase_file, {"vanilla": kcases}, 300, "canon")
    n_nowf = sum(1 for code in bad_k.values() if code == 8)
    bad_k = {k: code for k, code in bad_k.items() if code != 8}
    ctx.coverage["front_end"] = dict(texts=len(fcases), rejected_by_implementation=n_rej, outside_model=n_unsup,
                                     canonical_programs=len(kcases), without_canonical_text=n_nowf, parse_differences=len(bad_f),
                                     canonical_differences=len(bad_k))
    if bad_f:
        first = fcases[sorted(bad_f)[0][1]]
        ctx.broken.append(f"correspondence Text.parse_text vs parse_text_protosubroutine: {len(bad_f)} differing texts, "
                          f"first: {json.dumps(first)[:600]}")
    for (_, i), code in sorted(bad_k.items()):
        k = kcases[i]
        if code & 2:
            ctx.violation("the real text front end does not read the canonical text of a proto-program back as that "
                          "program", dict(flavour="vanilla", prog=k["prog"], lines=k["lines"], read_back=k["back"]), key=None)
    rest = [(kcases[i], code) for (_, i), code in sorted(bad_k.items()) if not code & 2]
    if rest:
        ctx.broken.append(f"correspondence TextFront.print_proto / Text.parse_text on canonical texts: {len(rest)} "
                          f"differing, first (code {rest[0][1]}): {json.dumps(rest[0][0])[:600]}")


def seq_stage(ctx, impl, n, prefix="seq"):
    """sequences of subroutines on ONE application: registers and arrays persist, so registers a subroutine only
    reads (slice bounds, indices, loop counters) carry values; every subroutine is compared with the source
    semantics started from the state the executor was really left in"""
    rng = ctx.rng
    per = {f: [] for f in ac.FLAVS}
    stats = {}
    for _ in range(n):
        fname = rng.choice(ac.FLAVS)
        progs = ag.gen_sequence(rng)
        steps, subs = [], []
        live = sorted({(o[1], o[2]) for c in progs[0] if c[0] == "ins" for o in c[3] if o[0] == "reg"})
        for j, prog in enumerate(progs):
            # later subroutines get (a part of) the registers defined by the first one as reserved
            rsv = [list(r) for r in live if rng.random() < 0.7] if j > 0 and rng.random() < 0.6 else []
            out, sub = impl.assemble_ir(fname, prog, rsv)
            steps.append(dict(prog=prog, out=out, obs=None, rsv=rsv))
            if sub is None:
                break
            subs.append(sub)
        obs = impl.execute_seq(subs, BOUND) if subs else []
        if None in obs:  # a huge array was requested: drop the rest of the sequence
            obs = obs[:obs.index(None)]
            steps = steps[:len(obs)] or steps[:1]
        for st, o in zip(steps, obs):
            st["obs"] = o
            kk = ["halted", "fault", "step-bound", "blocked-in-wait"][o["kind"]]
            stats[kk] = stats.get(kk, 0) + 1
        steps = steps[:max(1, len(obs) + (1 if len(obs) < len(steps) and len(obs) == len(subs) else 0))]
        per[fname].append(dict(steps=steps, fuel=BOUND, flavour=fname))
        ctx.note_case(("seq", fname, json.dumps(progs)), nontrivial=True)
    bad = ac.run_sharded(ctx, ac.write_scase_file, per, 60, prefix)
    ctx.coverage.setdefault("subroutine_sequences", {}).update(dict(sequences=n, executions=stats, differences=len(bad)))
    n_v = 0
    for (f, i), code in sorted(bad.items()):
        c = per[f][i]
        rd = dict(flavour=f, sequence=[st["prog"] for st in c["steps"]], reserved=[st.get("rsv") or [] for st in c["steps"]],
                  implementation_results=[st["out"] for st in c["steps"]], executor=[st["obs"] for st in c["steps"]])
        if code & 8 and not code & 2:
            n_v += 1
            ctx.violation("the real assembler REFUSES a subroutine of a sequence that has an assembled form (the model "
                          "assembles it: unnamed, unreserved R registers are available)", dict(rd, refused_by_implementation=True),
                          key=None)
        elif code & 2:
            n_v += 1
            ctx.violation("a subroutine of a sequence run on one application of the real Executor does not behave like its "
                          "source program started from the state the previous subroutines left (registers the program "
                          "names, also those it only reads; arrays; shared memory; outcome)", rd, key=None)
        else:
            ctx.broken.append(f"correspondence on subroutine sequences (code {code}): {json.dumps(rd)[:600]}")
    return n_v


def q_stage(ctx, impl, n):
    """programs with non-classical instructions on a recording subclass of the real Executor: the event trace
    (gates with operand values, scripted measurements, qalloc/qfree, returns) of the assembled program must be
    the trace of the direct interpretation of the source (AsmSemQ)"""
    rng = ctx.rng
    per = {f: [] for f in ac.FLAVS}
    stats, nev = {}, 0
    for _ in range(n):
        fname = rng.choice(ac.FLAVS)
        prog = ag.gen_q_prog(rng, impl.ct["flavours"][fname]["rows"])
        lines = None
        if rng.random() < 0.4:
            lines = ["# NETQASM 1.0", "# APPID 0"] + ac.render_text(rng, prog)
            out, sub = impl.assemble_text(fname, "\n".join(lines) + "\n")
        else:
            out, sub = impl.assemble_ir(fname, prog)
        script = [rng.randint(0, 1) for _ in range(rng.randint(0, 4))]
        obs = impl.execute_rec(sub, BOUND, script) if sub is not None else None
        if obs is not None:
            kk = ["halted", "fault", "step-bound", "blocked-in-wait"][obs["kind"]]
            stats[kk] = stats.get(kk, 0) + 1
            nev += len(obs["trace"])
        per[fname].append(dict(flavour=fname, lines=lines, prog=prog, out=out, cap=5, script=script, fuel=BOUND, obs=obs))
        ctx.note_case(("q", fname, json.dumps(lines if lines is not None else prog), tuple(script)), nontrivial=True)
    bad = ac.run_sharded(ctx, ac.write_qcase_file, per, 100, "qcases")
    ctx.coverage["event_semantics"] = dict(programs=n, executions=stats, events=nev, differences=len(bad))
    for (f, i), code in sorted(bad.items()):
        c = per[f][i]
        rd = dict(flavour=f, measurement_script=c["script"], implementation_result=c["out"], recording_executor=c["obs"])
        rd["lines" if c["lines"] is not None else "prog"] = c["lines"] if c["lines"] is not None else c["prog"]
        if code & 2:
            ctx.violation("the assembled program on the recording Executor does not show the events / state of the source "
                          "program (gate trace with operand values, measurements, qalloc/qfree, returns, registers, memory)",
                          rd, key=None)
        else:
            ctx.broken.append(f"correspondence AsmSemQ vs recording Executor (code {code}): {json.dumps(rd)[:600]}")


def run_impl(impl, c):
    """fill c['out'], c['obs'] from the real assembler / executor"""
    if c["lines"] is not None:
        out, sub = impl.assemble_text(c["flavour"], "\n".join(c["lines"]) + "\n", c.get("rsv"))
    else:
        out, sub = impl.assemble_ir(c["flavour"], c["prog"], c.get("rsv"), alias=c.get("alias", False))
        if c.get("alias"):
            # the same program description assembled again from fresh objects gives the same instructions
            out2, _ = impl.assemble_ir(c["flavour"], c["prog"], c.get("rsv"))
            if out2 != out:
                c["alias_differs"] = out2
    c["out"], c["fuel"], c["obs"] = out, BOUND, None
    if sub is not None and c["execute"]:
        c["obs"] = impl.execute(sub, BOUND)
    return c


def replay_dict(c):
    d = dict(flavour=c["flavour"], implementation_result=c["out"], executor=c["obs"], reserved_registers=c.get("rsv") or [])
    if c.get("alias"):
        d["shared_operand_objects"] = True
        if "alias_differs" in c:
            d["result_from_unshared_objects"] = c["alias_differs"]
    if c["lines"] is not None:
        d["lines"] = c["lines"]
    else:
        d["prog"] = c["prog"]
    return d


def evaluate(ctx, impl, cases, prefix):
    """run implementation + model on the cases -> [(case, code)] for the differing ones"""
    per = {f: [] for f in ac.FLAVS}
    for c in cases:
        run_impl(impl, c)
        per[c["flavour"]].append(c)
    bad = ac.run_sharded(ctx, ac.write_acase_file, per, 120, prefix)
    return [(per[f][i], code) for (f, i), code in sorted(bad.items())]


def report(ctx, differing):
    """oracle failures are violations with the program; other differences break the tie"""
    n_oracle = 0
    for c, code in differing:
        if code & 2:
            n_oracle += 1
            ctx.violation("the assembled program on the real Executor does not behave like the source program "
                          "(direct interpretation of the source: registers named by the program, arrays, shared "
                          "memory, fault line)", replay_dict(c), key=None)
    for c, code in differing:
        if code & 8 and not code & 2:
            n_oracle += 1
            ctx.violation("the real assembler REFUSES a program that has an assembled form: unnamed R registers are available "
                          "for its literals, labels are distinct and every instruction is one of the flavour with operands of the "
                          "right kinds (the model assembles it; Asm theorems assemble_ir_accepts / assemble_total) -- there is no "
                          "assembled subroutine that could behave like the source",
                          dict(replay_dict(c), refused_by_implementation=True), key=None)
    rest = [(c, code) for c, code in differing if not code & 2 and not code & 8]
    if rest:
        a = [c for c, code in rest if code & 1]
        d = [c for c, code in rest if code & 4 and not code & 1]
        if a:
            ctx.broken.append(f"correspondence Asm.assemble / Text.parse_text vs assemble_subroutine / parse_text_subroutine: "
                              f"{len(a)} differing programs, first: {json.dumps(replay_dict(a[0]))[:600]}")
        if d:
            ctx.broken.append(f"correspondence AsmSem.arun vs Executor on assembled programs: {len(d)} differing, "
                              f"first: {json.dumps(replay_dict(d[0]))[:600]}")
    return n_oracle


def run(ctx):
    ctx.rule = ("proto-programs over (a) the classical instructions with literals in every value position incl. array "
                "indices, bracket args, labels anywhere (consecutive, after the last instruction), counted loops, "
                "1..16 named R registers, also built with SHARED operand lists / operand objects between commands; (b) every class of the flavour with operands by kind, literals for registers, "
                "wrong kinds, repeated/undefined labels; the same rendered as text with macros (keys that are prefixes of "
                "other keys), comments, indentation, bracket args; one-edit malformed texts.  Each is assembled by the real "
                "code and by the model (instruction lists / error class compared); executable ones run on the real Executor "
                "(step bound %d) and are compared with the direct interpretation of the source; this includes loops whose label "
                "stands in front of the very first instruction (taken backward branch to line 0) and sequences of 2..4 "
                "subroutines on one application (registers/arrays persist; each subroutine is compared from the state the "
                "executor was left in, incl. registers it only reads as slice bound / index / counter).  non-trivial = at least one "
                "instruction; distinct = distinct (flavour, program/text)" % BOUND)
    impl = ac.prepare(ctx)
    if impl is None:
        return ctx.finish()
    ctx.props("C03")
    ctx.props("C03_wire")
    quick = ctx.tier == "quick"
    cases = corpus_cases(ctx)
    cases += gen_cases(ctx, impl, *((400, 90, 330, 90) if quick else (4000, 800, 3300, 800)))
    ctx.log("props compiled")
    differing = evaluate(ctx, impl, cases, "cases")
    ctx.log("main stream evaluated")
    stats, feats, kinds = {}, {}, {}
    for c in cases:
        stats[c["tag"]] = stats.get(c["tag"], 0) + 1
        o = c["out"]
        k = "assembled" if o[0] == "instrs" else ["parse-error", "no-scratch", "repeated-label", "build-error"][o[1]]
        stats[k] = stats.get(k, 0) + 1
        for f in ag.shape_of(c["prog"]):
            feats[f] = feats.get(f, 0) + 1
        if c["obs"] is not None:
            kk = ["halted", "fault", "step-bound", "blocked-in-wait"][c["obs"]["kind"]]
            kinds[kk] = kinds.get(kk, 0) + 1
        n_ins = sum(1 for x in c["prog"] if x[0] == "ins")
        ctx.note_case((c["flavour"], json.dumps(c["lines"] if c["lines"] is not None else c["prog"])), nontrivial=n_ins > 0)
    ctx.samples = [replay_dict(c) for c in (cases[:2] + [c for c in cases if c["tag"] == "text"][:2]
                                           + [c for c in cases if c["tag"] == "ir-exec" and c["obs"]][:2])]
    ctx.coverage["stream_distribution"] = stats
    ctx.coverage["program_features"] = feats
    ctx.coverage["executions"] = kinds
    ctx.coverage["model_impl_differences"] = len(differing)
    ctx.trusted.append("correspondence and oracle: models evaluated by vm_compute inside coqc on generated case files; "
                       "harness/asm_common.py builds real ICmd/ProtoSubroutine objects and text, runs assemble_subroutine / "
                       "parse_text_subroutine and a step-bounded subclass of the real Executor (only _execute_command and "
                       "_handle_command_exception are wrapped, to count steps and record the faulting line)")
    ctx.assume.append("the text front end is proved at character level for canonical texts of proto-programs, their "
                      "decorations (comments, blank lines, indentation, trailing blanks) and whole-token macros; other "
                      "spellings of a text (blanks inside bracket args, braces around define values, ...) are validated by the "
                      "correspondence with parse_text_protosubroutine only")
    ctx.assume.append("the source semantics covers set add sub addm subm load store lea undef array jmp bez bnz beq bne blt "
                      "bge ret_reg ret_arr; other instructions are 'outside the model' (Stuck) in source and target alike; "
                      "well-formed sources use labels (not line numbers) as branch targets and registers as destinations")
    ctx.assume.append("executions start from the initial state of a fresh application; the theorem quantifies over all "
                      "start states")
    report(ctx, differing)
    seq_stage(ctx, impl, 100 if quick else 1300)
    ctx.log("sequences evaluated")
    q_stage(ctx, impl, 110 if quick else 2000)
    ctx.log("event programs evaluated")
    front_stage(ctx, impl, cases, quick)
    if ctx.broken and not ctx.violations:
        search(ctx, impl)
    ctx.finish()


def search(ctx, impl):
    """something no longer checks: look for a program whose execution differs from its source meaning"""
    rng = ctx.rng
    cases = []
    for _ in range(600):
        prog = ag.gen_exec_prog(rng, max_len=8)
        if rng.random() < 0.5:
            cases.append(dict(flavour="vanilla", lines=None, prog=prog, tag="search", execute=True,
                              rsv=[[0, i] for i in rng.sample(range(16), rng.choice([0, 2, 6]))]))
        else:
            cases.append(dict(flavour="vanilla", lines=["# NETQASM 1.0", "# APPID 0"] + ac.render_text(rng, prog),
                              prog=prog, tag="search", execute=True))
    differing = evaluate(ctx, impl, cases, "search")
    for c, code in differing:
        if code & 2:
            ctx.violation("the assembled program on the real Executor does not behave like the source program",
                          replay_dict(c), key=None)
            return


def replay(ctx, path):
    rec = json.load(open(path))
    rec = rec.get("replay", rec)
    impl = ac.prepare(ctx)
    if "sequence" in rec:
        steps, subs = [], []
        for j, prog in enumerate(rec["sequence"]):
            rsv = (rec.get("reserved") or [[]] * len(rec["sequence"]))[j]
            out, sub = impl.assemble_ir(rec["flavour"], prog, rsv)
            steps.append(dict(prog=prog, out=out, obs=None, rsv=rsv))
            if sub is None:
                break
            subs.append(sub)
        for st, o in zip(steps, impl.execute_seq(subs, BOUND) if subs else []):
            st["obs"] = o
        bad = ac.run_sharded(ctx, ac.write_scase_file, {rec["flavour"]: [dict(steps=steps, fuel=BOUND)]}, 60, "replay")
        print("replay:", json.dumps(steps)[:2000], "codes:", list(bad.values()))
        for code in bad.values():
            if code & 2:
                ctx.violation("a subroutine of the sequence does not behave like its source program", rec)
            else:
                ctx.broken.append(f"correspondence on the replayed sequence (code {code})")
        return ctx.finish()
    c = dict(flavour=rec["flavour"], lines=rec.get("lines"), prog=rec.get("prog", []), tag="replay", execute=True,
             rsv=rec.get("reserved_registers") or [], alias=bool(rec.get("shared_operand_objects")))
    differing = evaluate(ctx, impl, [c], "replay")
    print("replay:", json.dumps(replay_dict(c))[:2000], "codes:", [code for _, code in differing])
    report(ctx, differing)
    ctx.finish()
