"""C11 — EPR requests and results cross the SDK/controller boundary intact."""
import json
import os
import time

import epr_common as ec
from coqemit import b, lst, s, z

HEADER = """From Coq Require Import ZArith List String.
From NQ Require Import Sdk.EprBoundary Sdk.EprCheck.
From Gen Require Import Gen_Epr.
Import ListNotations.
Open Scope string_scope.
Open Scope Z_scope.
Definition gen_tables : tables :=
  mkT gen_ser_idx gen_create_fields gen_create_defaults gen_enum_EPRType gen_enum_RequestType
      gen_enum_RandomBasis gen_enum_TimeUnit gen_qlink_RandomBasis.
"""

RB = [None, "NONE", "XZ", "XYZ", "CHSH"]
RECV_MEASURE_TAKES_BASES = [False]   # set in run() from inspect.signature(EPRSocket.recv_measure)
BASES = ["X", "Y", "Z", "MX", "MY", "MZ"]
UNITS = ["MICRO_SECONDS", "MILLI_SECONDS", "SECONDS"]


# ---------------------------------------------------------------- case generation
def rot(rng):
    m = rng.random()
    if m < 0.15:
        return [0, 0, 0]
    if m < 0.35:
        t = [0, 0, 0]
        t[rng.randrange(3)] = rng.randint(1, 31)
        return t
    if m < 0.5:
        return [rng.choice([0, 31]), rng.choice([0, 31]), rng.choice([0, 31])]
    t = rng.sample(range(1, 32), 3)  # pairwise distinct: an order swap is visible
    return t


def timing(rng, kw):
    m = rng.random()
    if m < 0.3:
        return
    kw["time_unit"] = rng.choice(UNITS)
    if m < 0.45:
        kw["max_time"] = 0
    else:
        kw["max_time"] = rng.choice([1, 2, 5000, 2 ** 31 - 1, rng.randint(1, 10 ** 6)])


def gen_case(rng, call, forced=None):
    kw = {}
    if rng.random() < 0.9:
        kw["number"] = rng.randint(1, 4)
    if call in ec.CREATE_CALLS:
        timing(rng, kw)
    if call == "create_measure":
        for side in ("local", "remote"):
            m = rng.random()
            if m < 0.4:
                kw["rotations_" + side] = rot(rng)
            elif m < 0.75:
                kw["basis_" + side] = rng.choice(BASES)
            r = rng.choice(RB + [None])
            if r is not None:
                kw["random_basis_" + side] = r
    if call == "create_rsp":
        m = rng.random()
        if m < 0.4:
            kw["rotations_local"] = rot(rng)
        elif m < 0.75:
            kw["basis_local"] = rng.choice(BASES)
        r = rng.choice(RB + [None])
        if r is not None:
            kw["random_basis_local"] = r
    if call in ("recv_keep", "recv_measure", "recv_rsp") and rng.random() < 0.4:
        kw["expect_phi_plus"] = rng.random() < 0.5
    if call == "recv_measure" and rng.random() < 0.5 and RECV_MEASURE_TAKES_BASES[0]:
        # the receiver states the bases of the matching create_measure (the link layer does not report them)
        if rng.random() < 0.6:
            b = rng.choice(BASES)
            kw.update(basis_local=b, basis_remote=b)
        else:
            kw.update(rotations_local=rot(rng), rotations_remote=rot(rng))
    if call in ("create_keep", "recv_keep", "create_rsp", "recv_rsp") and rng.random() < 0.12:
        kw["min_fidelity_all_at_end"] = rng.choice([50, 80, 100])
        kw["max_tries"] = rng.randint(1, 5)
        if call == "recv_rsp":
            kw["number"] = 1
    if forced:
        kw.update(forced)
    own = rng.randint(0, 9)
    node = rng.choice([x for x in range(0, 12) if x != own])
    case = dict(call=call, kw=kw, node=node, sock=rng.randint(0, 7), own_node=own, remote_sock=rng.randint(0, 7))
    # hardware configuration: the handles must read pair i's response on every device (on NV the qubits are
    # handed out in move-to-memory order)
    if call in ("create_keep", "recv_keep") and "min_fidelity_all_at_end" not in kw and rng.random() < 0.5:
        n = kw.get("number", 1)
        case["hardware"] = rng.choice(["nv", "nvswap", "generic"])
        case["max_qubits"] = n + rng.choice([0, 1]) if case["hardware"] != "generic" else max(n, rng.choice([1, 2, n + 1]))
        case["max_qubits"] = max(case["max_qubits"], 1 if case["hardware"] == "generic" else 2)
    return case


def add_responses(ns, rng, case):
    case["resp"] = ec.gen_responses(ns, rng, case)
    # the link layer may answer in netqasm's tuples or with qlink-interface 1.0 objects (Bell state as enum
    # member or as plain int in qlink's numbering)
    case["resp_format"] = rng.choice(["native", "native", "qlink_enum", "qlink_int"])
    if "min_fidelity_all_at_end" in case["kw"]:
        gi = 8 if ec.resp_is_m(case["call"]) else 7
        for r in case["resp"]:
            r[gi] %= 1000  # the first try satisfies the time limit derived from the fidelity
    return case


def gen_scenario(ns, rng):
    """one program with several EPR sockets (different remotes, equal and different local socket ids) used in
    sequence; the stack's purpose function is drawn per scenario"""
    own = rng.randint(0, 6)
    names = rng.sample(["Bob", "Carol", "Dave"], rng.choice([2, 2, 3]))
    ids = rng.sample([x for x in range(0, 8) if x != own], len(names))
    peers = dict(zip(names, ids))
    purpose = rng.choice(sorted(ec.PURPOSE_FUNCS))
    f = ec.PURPOSE_FUNCS[purpose]
    pairs = [(nm, sk) for nm in names for sk in (0, 1, 3)]
    nsock = rng.choice([2, 3, 4])
    if rng.random() < 0.7:   # the ordinary 3-node application: same local socket id towards two remotes
        sk = rng.choice([0, 0, 1, 3])
        chosen = [(names[0], sk), (names[1], sk)] + rng.sample([p for p in pairs if p[1] != sk], nsock - 2)
    else:
        chosen = rng.sample(pairs, nsock)
    rng.shuffle(chosen)
    sockets = [dict(remote=nm, sock=sk, remote_sock=rng.randint(0, 3)) for nm, sk in chosen]
    ops = []
    order = list(range(len(sockets)))
    rng.shuffle(order)
    order += [rng.randrange(len(sockets)) for _ in range(rng.choice([0, 1, 2]))]
    for k, si in enumerate(order):
        call = rng.choice(["create_keep", "recv_keep", "create_measure", "recv_measure", "create_rsp", "recv_rsp",
                           "create_keep", "recv_keep"])
        kw = dict(number=rng.randint(1, 2))
        if call in ("create_measure", "create_rsp") and rng.random() < 0.5:
            kw["rotations_local"] = rot(rng)
        if call in ec.CREATE_CALLS and rng.random() < 0.4:
            kw.update(time_unit=rng.choice(UNITS), max_time=rng.randint(1, 999))
        node, sk = peers[sockets[si]["remote"]], sockets[si]["sock"]
        op = dict(socket=si, call=call, kw=kw, node=node, sock=sk, purpose=f(node, sk), own_node=own, peers=peers)
        op["resp"] = ec.gen_responses(ns, rng, op)
        if not ec.resp_is_m(call):
            for i, r in enumerate(op["resp"]):
                r[2] = 100 * (k + 1) + i      # physical qubit ids distinct across the whole program
        ops.append(op)
    nk = sum(op["kw"]["number"] for op in ops if not ec.resp_is_m(op["call"]))
    return dict(purpose=purpose, own_node=own, peers=peers, sockets=sockets, ops=ops, flush_each=rng.random() < 0.75,
                max_qubits=max(8, nk + 1))   # without intermediate flushes all kept pairs are live at once


def scenario_oracle(ns, scen, out):
    fails = []
    if out["error"]:
        return [("a program using several EPR sockets raised", out["error"])]
    for k, (op, got) in enumerate(zip(scen["ops"], out["ops"])):
        tag = f"op {k} ({op['call']} on socket {op['socket']} -> {scen['sockets'][op['socket']]['remote']}/{op['sock']})"
        if op["call"] in ec.CREATE_CALLS:
            if got["request"] is None:
                fails.append((tag + ": no request reached the network stack", ""))
                continue
            exp, _, _ = ec.spec_request(ns, op)
            exp["purpose_id"] = ("int", op["purpose"])    # what the stack returns for THIS (remote, socket)
            g = dict(got["request"])
            diff = {fl: dict(got=g.get(fl), expected=v) for fl, v in exp.items() if g.get(fl) != v}
            if diff:
                fails.append((tag + ": the request the stack received differs from the call's parameters / the purpose "
                              "id the stack assigned to this (remote, socket)", diff))
        n = op["kw"].get("number", 1)
        if got["bookkeeping"] is None or [[op["node"], op["purpose"]], n] not in [list(x) for x in got["bookkeeping"]]:
            fails.append((tag + ": the controller registered the operation under another (remote, purpose)", got["bookkeeping"]))
        if got["handles"] is None:
            fails.append((tag + ": no result handles", ""))
        else:
            bad = ec.check_handles(ns, op, got["handles"])
            if bad:
                fails.append((tag + ": a result handle does not show the field of its pair's response", bad[:4]))
            elif got["handles_late"] is None:
                fails.append((tag + ": the handles could not be read again at the end of the program", ""))
            else:
                bad = ec.check_handles(ns, op, got["handles_late"])
                if bad:
                    fails.append((tag + f": read again after the later rounds ({len(scen['ops']) - 1 - k} more operations, "
                                  f"{'one subroutine per operation' if scen['flush_each'] else 'one subroutine'}), a result "
                                  "handle no longer shows the field of its own round's response", bad[:4]))
    return fails


def strip_scen(scen):
    return dict(purpose=scen["purpose"], own_node=scen["own_node"], peers=scen["peers"], sockets=scen["sockets"],
                flush_each=scen["flush_each"], max_qubits=scen.get("max_qubits", 8),
                ops=[{k: op[k] for k in ("socket", "call", "kw", "node", "sock", "purpose", "resp")} for op in scen["ops"]])


def run_scenarios(ctx, ns, scens, meta):
    for scen in scens:
        out = ec.run_scenario(ctx.repo, ns, scen)
        ctx.note_case(("scenario", json.dumps(strip_scen(scen), sort_keys=True)), nontrivial=True)
        meta["dist"]["scenario:" + scen["purpose"]] = meta["dist"].get("scenario:" + scen["purpose"], 0) + 1
        socks = [(sd["remote"], sd["sock"]) for sd in scen["sockets"]]
        if any(a[1] == b[1] and a[0] != b[0] for a in socks for b in socks):
            meta["dist"]["scenario:same socket id, two remotes"] = meta["dist"].get("scenario:same socket id, two remotes", 0) + 1
        for what, detail in scenario_oracle(ns, scen, out):
            ctx.violation(what, dict(scenario=strip_scen(scen), observed=detail,
                                     requests=[o["request"] for o in out["ops"]]), key=None)
            break


def shape_cases(rng):
    """every combination of the tests serialize_request performs, once"""
    out = []
    for call in ec.CREATE_CALLS:
        for timed in (False, True):
            for rl in (False, True):
                for rr in (False, True):
                    for a in RB:
                        for c in RB:
                            f = {}
                            if timed:
                                f.update(time_unit=rng.choice(UNITS), max_time=rng.randint(1, 9999))
                            else:
                                f.update(max_time=0)
                            if call != "create_keep":
                                f["rotations_local"] = rng.sample(range(1, 32), 3) if rl else [0, 0, 0]
                                if a:
                                    f["random_basis_local"] = a
                            if call == "create_measure":
                                f["rotations_remote"] = rng.sample(range(1, 32), 3) if rr else [0, 0, 0]
                                if c:
                                    f["random_basis_remote"] = c
                            case = gen_case(rng, call)
                            for k in ("basis_local", "basis_remote", "rotations_local", "rotations_remote",
                                      "random_basis_local", "random_basis_remote", "time_unit", "max_time",
                                      "min_fidelity_all_at_end", "max_tries"):
                                case["kw"].pop(k, None)
                            case["kw"].update(f)
                            out.append(case)
    return out


# ---------------------------------------------------------------- Coq literals
def cq_opt_s(x):
    return "None" if x is None else f"(Some {s(x)})"


def cq_oz(v):
    return "None" if v is None else f"(Some {z(v)})"


def cq_fval(v):
    if v[0] == "int":
        return f"VInt (Lit {z(v[1])})"
    if v[0] == "enum":
        return f"VEnum {s(v[1])} {z(v[2])}"
    raise ValueError(v)


def cq_req(req):
    if req is None:
        return "None"
    return "(Some " + lst(f"({s(f)}, {cq_fval(v)})" for f, v in req) + ")"


def cq_params(ns, tp, params, node, sock):
    rl, rr = params.rotations_local, params.rotations_remote
    return (f"(mkP {s(tp.name)} {z(params.number)} {z(params.time_unit.value)} {z(params.max_time)} "
            f"({z(rl[0])}, {z(rl[1])}, {z(rl[2])}) ({z(rr[0])}, {z(rr[1])}, {z(rr[2])}) "
            f"{cq_opt_s(params.random_basis_local.name if params.random_basis_local else None)} "
            f"{cq_opt_s(params.random_basis_remote.name if params.random_basis_remote else None)} {z(node)} {z(sock)})")


# ---------------------------------------------------------------- oracle on one case
def oracle(ctx, ns, case, res):
    """Returns list of (what, detail) failures of the property on this call."""
    fails = []
    if res.error:
        fails.append(("the call / flush raised", res.error))
        return fails
    if case["call"] in ec.CREATE_CALLS:
        if res.request is None:
            fails.append(("no request reached the network stack", ""))
            return fails
        exp, _, _ = ec.spec_request(ns, case)
        got = dict(res.request)
        diff = {f: dict(got=got.get(f), expected=v) for f, v in exp.items() if got.get(f) != v}
        if set(got) != set(exp):
            diff["__fields"] = sorted(set(got) ^ set(exp))
        if diff:
            fails.append(("the request the stack received differs from the call's parameters", diff))
        if res.qlink != "ok":
            fails.append(("request_to_qlink_1_0 rejects the request the stack received", res.qlink))
        else:
            bad = ec.check_qlink_obj(ns, case, res.qlink_obj)
            if bad:
                fails.append(("the converted qlink-interface request differs from the call's parameters", bad))
    n = case["kw"].get("number", 1)
    if res.bookkeeping is None or len(res.bookkeeping) != 1 or res.bookkeeping[0][0] != [case["node"], case["sock"]] \
            or res.bookkeeping[0][1] != n:
        fails.append(("the controller registered the operation under a different node/socket/number",
                      res.bookkeeping))
    bad = ec.check_handles(ns, case, res.handles)
    if bad:
        fails.append(("a result handle does not show the field of its pair's response", bad[:6]))
    return fails


def strip(case):
    return {k: case[k] for k in ("call", "kw", "node", "sock", "own_node", "remote_sock", "resp", "resp_format", "hardware", "max_qubits") if k in case}


def run_stream(ctx, ns, cases, tag, rcases, hcases, meta):
    for case in cases:
        res = ec.run_case(ctx.repo, ns, case)
        key = (case["call"], json.dumps(case["kw"], sort_keys=True), case["node"], case["sock"])
        ctx.note_case(key, nontrivial=True)
        meta["dist"][case["call"]] = meta["dist"].get(case["call"], 0) + 1
        meta["dist"]["n=%d" % case["kw"].get("number", 1)] = meta["dist"].get("n=%d" % case["kw"].get("number", 1), 0) + 1
        for what, detail in oracle(ctx, ns, case, res):
            ctx.violation(what, dict(case=strip(case), observed=detail,
                                     request=res.request, stream=tag), key=None)
        # correspondence material
        if case["call"] in ec.CREATE_CALLS and res.ser is not None:
            tp, params, arr = res.ser
            if all(v is None or isinstance(v, int) for v in arr) and (res.request is None or
                                                                         all(v[0] != "other" for _, v in res.request)):
                rcases.append(f"mkRC {cq_params(ns, tp, params, case['node'], case['sock'])} "
                              f"(Some {lst(cq_oz(v) for v in arr)}) {cq_req(res.request)} {b(res.qlink == 'ok')}")
                meta["rmeta"].append(strip(case))
        if res.results_array is not None and "min_fidelity_all_at_end" not in case["kw"] and not res.error:
            hcases.append(f"mkHC {b(ec.resp_is_m(case['call']))} {case['kw'].get('number', 1)}%nat "
                          f"{lst(lst(z(v) for v in r) for r in case['resp'])} "
                          f"(Some {lst(cq_oz(v) for v in res.results_array)})")
            meta["hmeta"].append(strip(case))


def controller_cases(ctx, ns, n):
    """the real _get_create_request on arbitrary argument arrays (undefined entries,
    values that are no enum members, wrong lengths)"""
    from sdk_pipeline import Pipeline

    qc = ns.qc
    rng = ctx.rng
    pipe = Pipeline(ctx.repo)
    out, metas = [], []
    with pipe.connection() as conn:
        conn.new_array(1)
        conn.flush()
        ex = pipe.executor
        sub = pipe.subroutines[-1]
        ex._subroutines[4242] = sub  # a live subroutine of this application
        app = sub.app_id
        nfields = len(qc.LinkLayerCreate._fields) - 2
        pf = ec.PURPOSE_FUNCS["remote16"]
        ex.network_stack.get_purpose_id = lambda remote_node_id, epr_socket_id: pf(remote_node_id, epr_socket_id)
        for k in range(n):
            ln = nfields if rng.random() < 0.85 else rng.choice([0, 1, nfields - 1, nfields + 1, nfields + 3])
            arr = []
            for j in range(ln):
                m = rng.random()
                if m < 0.45:
                    arr.append(None)
                elif m < 0.8:
                    arr.append(rng.randint(0, 4))
                else:
                    arr.append(rng.choice([5, 7, 31, 10 ** 6, -1, 2 ** 31 - 1]))
            if rng.random() < 0.6 and ln > 0:
                arr[0] = rng.choice([0, 1, 2])  # mostly valid request types
            node, sockid = rng.randint(0, 9), rng.randint(0, 3)   # few socket ids: they repeat across remote nodes
            purpose = pf(node, sockid)                              # what the stack answers for THIS (remote, socket)
            ex._app_arrays[app]._arrays[77] = list(arr)
            try:
                req = ex._get_create_request(subroutine_id=4242, remote_node_id=node, epr_socket_id=sockid,
                                             arg_array_address=77)
                if req.purpose_id != purpose:
                    ctx.violation("_get_create_request puts another purpose id into the request than the stack returns "
                                  "for this (remote node, socket)",
                                  dict(remote_node_id=node, epr_socket_id=sockid, stack_purpose_id=purpose,
                                       request_purpose_id=req.purpose_id, call_index=k), key=None)
                creq = ec.canon_request(req)
                try:
                    qc.request_to_qlink_1_0(req)
                    ql = True
                except Exception:  # noqa
                    ql = False
            except Exception:  # noqa
                creq, ql = None, False
            ctx.note_case(("ctrl", tuple(arr), node, purpose), nontrivial=ln > 0)
            out.append(f"mkCC {z(node)} {z(purpose)} {lst(cq_oz(v) for v in arr)} {cq_req(creq)} {b(ql)}")
            metas.append(dict(array=arr, node=node, purpose=purpose, request=creq, qlink=ql))
        ex._subroutines.pop(4242, None)
    return out, metas


def gen_retry_case(ns, rng):
    """a min_fidelity_all_at_end operation whose first attempts are too slow: the link layer answers each attempt"""
    call = rng.choice(["create_keep", "recv_keep", "create_rsp", "recv_rsp"])
    n = rng.randint(1, 3)
    fid = rng.choice([50, 80, 100])
    bound = 100000 - fid * 900          # NVEprCompiler.get_max_time_for_fidelity
    tries = rng.randint(1, 3)
    accepted_at = rng.choice(list(range(1, tries + 1)) + [None])   # None: every attempt is rejected
    nattempts = accepted_at or tries
    own = rng.randint(0, 9)
    case = dict(call=call, kw=dict(number=n, min_fidelity_all_at_end=fid, max_tries=tries),
                node=rng.choice([x for x in range(0, 12) if x != own]), sock=rng.randint(0, 7), own_node=own,
                remote_sock=rng.randint(0, 7))
    gi = 8 if ec.resp_is_m(call) else 7
    attempts = []
    for a in range(1, nattempts + 1):
        rs = ec.gen_responses(ns, rng, case)
        ok_ = (a == accepted_at)
        for i, r in enumerate(rs):
            r[gi] = rng.randint(0, 99999)                # other pairs' durations do not matter
            if not ec.resp_is_m(call):
                r[2] = 100 * a + 50 + i                  # physical ids distinct across attempts
        rs[-1][gi] = rng.randint(0, bound - 1000) if ok_ else rng.randint(bound + 1000, bound + 50000)
        attempts.append(rs)
    case.update(attempts=attempts, resp=[r for rs in attempts for r in rs], accepted_at=accepted_at, bound=bound,
                resp_format="native")
    return case


def run_retry_cases(ctx, ns, cases, rtcases, meta):
    for case in cases:
        res = ec.run_case(ctx.repo, ns, case)
        ctx.note_case(("retry", case["call"], json.dumps(case["kw"], sort_keys=True), case["accepted_at"], case["node"]),
                      nontrivial=len(case["attempts"]) > 1)
        tag = "retry:" + ("accepted at attempt %d" % case["accepted_at"] if case["accepted_at"] else "all tries rejected")
        meta["dist"][tag] = meta["dist"].get(tag, 0) + 1
        replay = dict(case={k: case[k] for k in ("call", "kw", "node", "sock", "own_node", "remote_sock", "attempts",
                                                 "accepted_at", "bound")})
        fails = []
        n_att = len(case["attempts"])
        if case["accepted_at"]:
            if res.error:
                fails.append(("a min-fidelity operation whose last attempt is within the bound raised", res.error))
            else:
                last = dict(case, resp=case["attempts"][-1])
                bad = ec.check_handles(ns, last, res.handles)
                if bad:
                    fails.append(("after a retry a result handle does not show the accepted attempt's response", bad[:5]))
        if case["call"] in ec.CREATE_CALLS and len(res.pipe.requests) != n_att:
            fails.append((f"{len(res.pipe.requests)} requests reached the network stack for {n_att} attempts", ""))
        if res.pipe.responses:
            fails.append((f"{len(res.pipe.responses)} link-layer responses were never waited for", ""))
        for what, detail in fails:
            replay["observed"] = detail
            ctx.violation(what, replay, key=None)
            break
        if res.results_array is not None and not fails:
            undef = case["call"] in ("create_keep", "recv_keep")
            rtcases.append(f"mkRT {b(ec.resp_is_m(case['call']))} {b(undef)} {case['kw']['number']}%nat "
                           f"{case['kw']['max_tries']}%nat {z(case['bound'])} "
                           f"{lst(lst(lst(z(v) for v in r) for r in rs) for rs in case['attempts'])} "
                           f"(Some {lst(cq_oz(v) for v in res.results_array)})")
            meta["tmeta"].append(replay)


def write_case_files(ctx, rcases, ccases, hcases, rtcases=()):
    files = {}
    shard = 250
    for kind, items, chk in (("r", rcases, "check_rcase gen_tables"), ("c", ccases, "check_ccase gen_tables"),
                             ("h", hcases, "check_hcase gen_EXEC_OK_FIELDS gen_okk_fields gen_okm_fields "
                                           "gen_keep_stride gen_measure_stride"),
                             ("t", list(rtcases), "check_rtcase gen_EXEC_OK_FIELDS gen_okk_fields gen_okm_fields "
                                                  "gen_keep_stride gen_measure_stride")):
        typ = {"r": "rcase", "c": "ccase", "h": "hcase", "t": "rtcase"}[kind]
        for k in range(0, max(1, len(items)), shard):
            fn = f"cases_{kind}_{k // shard}.v"
            with open(os.path.join(ctx.build, fn), "w") as f:
                f.write(HEADER)
                f.write(f"Definition cs : list {typ} :=\n [" + ";\n  ".join(items[k:k + shard]) + "].\n")
                f.write(f"Eval vm_compute in (failing ({chk}) cs).\n")
            files[fn] = (kind, k)
    return files


def run(ctx):
    import codec_impl as ci

    t0 = time.time()
    ctx.rule = ("[also: K calls on generic / NV / NV-by-swap devices of several sizes with Qubit.entanglement_info read for "
                "every returned qubit; programs with 2-4 EPR sockets to 2-3 remote nodes (equal and different local socket ids), "
                "2-6 operations in sequence in one connection, the stack's purpose function drawn per program (identity / "
                "16*remote+socket / swap); _get_create_request called in sequence with a remote-dependent purpose function] "
                "real EPRSocket calls (create_keep/_measure/_rsp, recv_keep/_measure/_rsp) through the in-process "
                "pipeline: number 1..4, time unit x limit (0 / boundary / random), rotation triples 0..31 "
                "(zero, one-hot, pairwise-distinct) or named bases, random-basis sets (absent + 4 members) per side, "
                "min-fidelity loops, random node/socket ids; n scripted link-layer responses whose free fields are "
                "pairwise distinct; plus every combination of the serializer's tests once per request type "
                "(thorough: 600 x 3, quick: sampled), plus the real _get_create_request on arbitrary argument "
                "arrays.  distinct = distinct (call, kwargs, ids); every case is non-trivial (a request or n >= 1 "
                "responses cross the boundary)")
    ok, err = ctx.gen("epr_tables.py", "Gen_Epr.v")
    ctx.gen_obligation("translator epr_tables.py understands the source", ok, err.strip()[-400:])
    ns = ec.load(ctx.repo)
    import inspect
    from netqasm.sdk.epr_socket import EPRSocket
    RECV_MEASURE_TAKES_BASES[0] = {"basis_local", "basis_remote", "rotations_local", "rotations_remote"} <= set(
        inspect.signature(EPRSocket.recv_measure).parameters)
    ctx.coverage["recv_measure_takes_bases"] = RECV_MEASURE_TAKES_BASES[0]
    methods, diffs, unknown_api = ec.signature_defaults_report()
    ctx.gen_obligation("every documented (method, parameter) of the public create*/recv* methods of EPRSocket has the "
                       "documented default (frozen table, compared with inspect.signature)", not diffs and bool(methods),
                       "; ".join(diffs))
    if unknown_api:   # new API is not evidence against the property: recorded, not an obligation
        ctx.coverage["unknown_api"] = {u: "not in the frozen table (recorded only; C10 exercises new methods generically)"
                                       for u in unknown_api}
    if ok:
        r = ctx.coqc("Gen_Epr.v")
        ctx.gen_obligation("Gen_Epr.v type-checks", r.ok, r.err[-300:])
        if r.ok:
            ctx.props("C11")
    ctx.trusted += [
        "gen/epr_tables.py: reads the SER_* constants, LinkLayerCreate/OKTypeK/OKTypeM _fields and defaults, enum "
        "members (netqasm and qlink_interface), OK_FIELDS/CREATE_FIELDS; probes deserialize_epr_*_results and "
        "_create_ent_info_k_slices with an index-echo array (n = 1..4, must be affine in i)",
        "harness/sdk_pipeline.py + harness/epr_common.py (in-process controller, scripted network stack; "
        "serialize_request is wrapped to record its argument and result)",
        "qlink_interface 1.0.0 as installed (the link-layer interface the request must be acceptable to)",
    ]
    ctx.assume += [
        "the network stack's get_purpose_id is the identity on the socket id in the harness; the model takes the "
        "purpose id as given by the stack",
        "responses are delivered in pair order for one outstanding operation (matching under interleavings is C12)",
        "max_time = 0 means 'no limit': the time unit is then not transmitted (the stack sees the default unit)",
        "EprKeepResult.generation_duration / EprMeasureResult.generation_duration are specified to show the "
        "response's `goodness` field (the field the code base uses for the duration)",
        "minimum fidelity of the socket is not part of the request in this code base (field stays at the default)",
    ]
    rng = ctx.rng
    quick = ctx.tier == "quick"
    meta = dict(dist={}, rmeta=[], hmeta=[])
    rcases, hcases = [], []
    # corpus first
    corpus_dir = os.path.join(os.path.dirname(os.path.dirname(os.path.dirname(os.path.abspath(__file__)))), "corpus", "C11")
    corpus = []
    if os.path.isdir(corpus_dir):
        for fn in sorted(os.listdir(corpus_dir)):
            if fn.endswith(".json"):
                corpus.append(json.load(open(os.path.join(corpus_dir, fn)))["case"])
    run_stream(ctx, ns, corpus, "corpus", rcases, hcases, meta)
    cases = []
    per_call = 25 if quick else 500
    for call in ec.CREATE_CALLS + ec.RECV_CALLS:
        for _ in range(per_call):
            cases.append(add_responses(ns, rng, gen_case(rng, call)))
    sh = shape_cases(rng)
    if quick:
        sh = rng.sample(sh, 90)
    cases += [add_responses(ns, rng, c) for c in sh]
    run_stream(ctx, ns, cases, "generated", rcases, hcases, meta)
    scens = [gen_scenario(ns, rng) for _ in range(60 if quick else 1200)]
    run_scenarios(ctx, ns, scens, meta)
    rtcases = []
    meta["tmeta"] = []
    retry = [gen_retry_case(ns, rng) for _ in range(60 if quick else 1200)]
    run_retry_cases(ctx, ns, retry, rtcases, meta)
    ctx.log(f"{len(cases)} pipeline cases + {len(scens)} multi-socket programs in {time.time() - t0:.1f}s")
    ccases, cmeta = controller_cases(ctx, ns, 200 if quick else 3000)
    ctx.samples = [strip(c) for c in cases[:2] + cases[len(cases) // 2:len(cases) // 2 + 2] + cases[-2:]]
    ctx.coverage["stream_distribution"] = meta["dist"]
    ctx.coverage["controller_only_cases"] = len(ccases)
    ctx.coverage["controller_only_rejected"] = sum(1 for m in cmeta if m["request"] is None)
    # correspondence model <-> implementation
    nmis, first = 0, None
    if ok and os.path.exists(os.path.join(ctx.build, "Gen_Epr.vo")):
        files = write_case_files(ctx, rcases, ccases, hcases, rtcases)
        res = ctx.run_case_files(list(files))
        for fn, r in res.items():
            kind, k = files[fn]
            if not r.ok:
                ctx.gen_obligation(f"correspondence file {fn} evaluates", False, r.err[-300:])
                continue
            fl = ci.parse_failing(r.out)
            if len(fl) != 1:
                ctx.gen_obligation(f"correspondence file {fn} output parsed", False, r.out[-300:])
                continue
            for i in fl[0]:
                nmis += 1
                m = {"r": meta["rmeta"], "c": cmeta, "h": meta["hmeta"], "t": meta["tmeta"]}[kind][k + i]
                first = first or (kind, m)
        ctx.coverage["model_impl_mismatches"] = nmis
        ctx.coverage["correspondence_cases"] = dict(calls=len(rcases), controller=len(ccases), results=len(hcases),
                                                    retry_loops=len(rtcases))
    if nmis and not ctx.violations:
        ctx.broken.append(f"correspondence EprBoundary (serialize/controller/qlink_accepts/results_array) vs "
                          f"serialize_request/_get_create_request/request_to_qlink_1_0/_store_ent_info: {nmis} "
                          f"differing cases, first: {str(first)[:400]}")
    if ctx.broken and not ctx.violations:
        search(ctx, ns)
    ctx.finish()


def search(ctx, ns):
    """A Coq obligation or the correspondence broke but the oracle saw nothing on the
    stream: run every combination of the serializer's tests for every request type and
    every result shape through the oracle."""
    ctx.log("searching for a failing call ...")
    rng = ctx.rng
    cases = [add_responses(ns, rng, c) for c in shape_cases(rng)]
    for call in ec.RECV_CALLS:
        for n in (1, 2, 3, 4):
            cases.append(add_responses(ns, rng, gen_case(rng, call, forced=dict(number=n))))
    for case in cases:
        res = ec.run_case(ctx.repo, ns, case)
        fails = oracle(ctx, ns, case, res)
        if fails:
            what, detail = fails[0]
            ctx.violation(what, dict(case=strip(case), observed=detail, request=res.request, stream="search"), key=None)
            return


def replay(ctx, path):
    rec = json.load(open(path))
    case = rec["replay"]["case"] if "replay" in rec else rec["case"]
    ns = ec.load(ctx.repo)
    res = ec.run_case(ctx.repo, ns, case)
    fails = oracle(ctx, ns, case, res)
    print("replay:", json.dumps(strip(case)))
    print("request:", res.request)
    print("qlink:", res.qlink, "error:", res.error)
    for what, detail in fails:
        print("FAILS:", what, detail)
        ctx.violation(what, dict(case=strip(case), observed=detail, request=res.request), key=None)
    ctx.note_case("replay")
    ctx.finish()
