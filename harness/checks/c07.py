"""C07 — NV gate decompositions equal the vanilla gates they replace."""
import inspect
import json
import os

import numpy as np

import qcommon as qc

AX = ["x", "y", "z"]


# ------------------------------------------------------------------ oracle on a table row
def seq_unitary(nw, ops):
    """numpy product of the SPEC matrices (qcommon definitions) of an emitted sequence"""
    U = np.eye(2 ** nw, dtype=complex)
    for op in ops:
        if op[0] == "rot":
            _, ax, q, n, d = op
            U = qc.embed(nw, [q], qc.rot_nd(ax, n, d)) @ U
        else:
            _, ax, c, t, n, d = op
            U = qc.embed(nw, [c, t], qc.crot_nd(ax, n, d)) @ U
    return U


def oracle_row(row):
    """None if the emitted sequence implements the gate, else a description."""
    pl, meta, ops = row["place"], row["meta"], [tuple(o) for o in row["ops"]]
    nw = {"PSingle": 1, "PEC": 2, "PCE": 2, "PCC": 3}[pl]
    U = seq_unitary(nw, ops)
    g = meta["gate"]
    if g == "MOV":
        k0 = np.array([[1], [0]], dtype=complex)
        if pl == "PEC":
            M = U @ np.kron(qc.I2, k0)
            phi0 = M[[0, 2], 0].reshape(2, 1)
            want = np.kron(phi0, qc.I2)
        else:
            M = U @ np.kron(k0, qc.I2)
            phi0 = M[[0, 1], 0].reshape(2, 1)
            want = np.kron(qc.I2, phi0)
        if qc.maxdiff(M, want) > qc.TOL or abs(np.linalg.norm(phi0) - 1) > qc.TOL:
            return dict(reason="MOV does not transfer the state onto the fresh target", residual=qc.maxdiff(M, want))
        return None
    if g.startswith("ROT_"):
        G = qc.rot_nd(g[-1].lower(), meta["n"], meta["d"])
    elif g == "CUSTOM":
        # a gate outside the frozen table: its operator is the class's own published matrix
        G = np.array([[complex(a, b) for a, b in r] for r in meta["matrix"]])
    else:
        G = qc.GATES[g]
    if pl == "PCE":
        G = qc.embed(2, [1, 0], G)
    elif pl == "PCC":
        G = np.kron(qc.I2, G)
    if not qc.phase_equal(U, G):
        extra = {}
        if G.shape == (2, 2) and qc.phase_equal(U, G.conj().T):
            extra["note"] = "the sequence implements the ADJOINT of the gate"
        return dict(reason="emitted NV sequence is not the gate up to global phase", **extra)
    return None


def row_key(row):
    m = row["meta"]
    g = m["gate"].lower()
    if g == "custom":
        g = "derived-" + m["mnemonic"]
    return f"C07:decomp:{g}:{row['place']}"


# ------------------------------------------------------------------ published matrices
def gate_classes(repo_mods):
    core, vanilla, nv = repo_mods
    bases = (core.SingleQubitInstruction, core.RotationInstruction, core.TwoQubitInstruction,
             core.ControlledRotationInstruction)
    out = []
    for modname, mod in (("vanilla", vanilla), ("nv", nv)):
        for name, cls in inspect.getmembers(mod, inspect.isclass):
            if cls.__module__ == mod.__name__ and issubclass(cls, bases):
                out.append((f"{modname}.{name}", cls))
    return out


def spec_tables(ctx):
    """Exact spec matrices printed by Coq (QMat definitions), evaluated numerically."""
    src = """From Coq Require Import ZArith List.
From NQ Require Import Base.Cyclo Base.QMat.
Import ListNotations.
Open Scope Z_scope.
Eval vm_compute in (map mser [gX; gY; gZ; gH; gK; gS; gT; gCNOT; gCPHASE]).
Eval vm_compute in (map (fun a => map (fun k => mser (rot_k a k)) (seq 0 64)) [AX; AY; AZ]).
Eval vm_compute in (map (fun a => map (fun k => mser (crot_k a k)) (seq 0 64)) [AX; AY; AZ]).
Eval vm_compute in (map (fun d => map (fun n => half_units_z (Z.of_nat n) d) (seq 0 256)) [0; 1; 2; 3; 4; 5]).
"""
    open(os.path.join(ctx.build, "cases_spec.v"), "w").write(src)
    r = ctx.coqc("cases_spec.v")
    if not r.ok:
        ctx.gen_obligation("spec matrices evaluate in Coq", False, r.err[-300:])
        return None
    v = qc.parse_evals(r.out)
    if len(v) != 4:
        ctx.gen_obligation("spec matrices parsed", False, f"{len(v)} values")
        return None
    fixed = dict(zip(["x", "y", "z", "h", "k", "s", "t", "cnot", "cphase"], [qc.mat32(m) for m in v[0]]))
    rot = {a: [qc.mat32(m) for m in v[1][i]] for i, a in enumerate(AX)}
    crot = {a: [qc.mat32(m) for m in v[2][i]] for i, a in enumerate(AX)}
    hu = v[3]  # hu[d][n]
    return dict(fixed=fixed, rot=rot, crot=crot, hu=hu)


def published_case(cls, mn, n, d, spec):
    """Compare the published matrices of one instruction instance with the spec.
    Returns list of (what, maxdiff)."""
    from netqasm.lang.operand import Immediate, Register, RegisterName
    q0, q1 = Register(RegisterName.Q, 0), Register(RegisterName.Q, 1)
    bad = []

    def exact_or_hp(kind, ax):
        """The operator of the mnemonic's definition at angle n*pi/2^d: cos(theta/2) I - i sin(theta/2) sigma
        evaluated with 60 digits (every d); for d <= 4 it must also coincide with the exact K32 matrix."""
        hp = qc.rot_nd_hp(ax, n, d) if kind == "rot" else qc.crot_nd_hp(ax, n, d)
        if d <= 4:
            k = spec["hu"][d][n]
            if k < 0:
                raise RuntimeError("half_units undefined")
            if qc.maxdiff(hp, spec[kind][ax][k]) > 1e-12:
                raise RuntimeError(f"exact K32 matrix and 60-digit evaluation disagree at {kind}_{ax} {n} {d}")
            return spec[kind][ax][k], "exact K32 matrix"
        return hp, "60-digit evaluation"

    if mn in spec["fixed"] and mn not in ("cnot", "cphase"):
        ins = cls(reg=q0)
        bad.append(("to_matrix", qc.maxdiff(ins.to_matrix(), spec["fixed"][mn])))
    elif mn in ("cnot", "cphase"):
        ins = cls(reg0=q0, reg1=q1)
        bad.append(("to_matrix", qc.maxdiff(ins.to_matrix(), spec["fixed"][mn])))
        tgt = spec["fixed"]["x" if mn == "cnot" else "z"]
        bad.append(("to_matrix_target_only", qc.maxdiff(ins.to_matrix_target_only(), tgt)))
    elif mn == "mov":
        ins = cls(reg0=q0, reg1=q1)
        M = np.asarray(ins.to_matrix(), dtype=complex) @ np.kron(qc.I2, np.array([[1], [0]], dtype=complex))
        phi0 = M[[0, 2], 0].reshape(2, 1)
        bad.append(("to_matrix (state transfer onto |0>)", qc.maxdiff(M, np.kron(phi0, qc.I2)) + abs(np.linalg.norm(phi0) - 1)))
    elif mn in ("rot_x", "rot_y", "rot_z"):
        ins = cls(reg=q0, imm0=Immediate(n), imm1=Immediate(d))
        want, _ = exact_or_hp("rot", mn[-1])
        bad.append(("to_matrix", qc.maxdiff(ins.to_matrix(), want)))
    elif mn in ("crot_x", "crot_y", "crot_z"):
        ins = cls(reg0=q0, reg1=q1, imm0=Immediate(n), imm1=Immediate(d))
        want, _ = exact_or_hp("crot", mn[-1])
        bad.append(("to_matrix", qc.maxdiff(ins.to_matrix(), want)))
        want_t, _ = exact_or_hp("rot", mn[-1])
        bad.append(("to_matrix_target_only", qc.maxdiff(ins.to_matrix_target_only(), want_t)))
    else:
        return None
    return bad


def check_published(ctx, spec, data=None):
    derived = {"vanilla." + d["cls"]: d for d in (data or {}).get("derived", [])}
    derived_listed = []
    try:
        return _check_published(ctx, spec, derived, derived_listed)
    finally:
        if derived_listed:
            ctx.coverage["specification_derived_from_implementation_matrix"] = derived_listed


def _check_published(ctx, spec, derived, derived_listed):
    from netqasm.lang.instr import core, nv, vanilla
    from netqasm.lang.ir import GenericInstr
    from netqasm.util import quantum_gates as qg
    classes = gate_classes((core, vanilla, nv))
    thorough = ctx.tier != "quick"
    ns_small = list(range(256)) if thorough else sorted(set(list(range(0, 40)) + [63, 64, 65, 100, 127, 128, 200, 255]))
    # thorough: EVERY encodable angle (n, d) in 256 x 256 for every rotation class (finite, exhaustive)
    big_d = list(range(5, 256)) if thorough else [5, 6, 7, 8, 9, 16, 31, 32, 64, 200, 255]
    ns_big = list(range(256)) if thorough else sorted(set([0, 1, 2, 3, 5, 31, 32, 33, 127, 128, 200, 255] +
                                                          [ctx.rng.randrange(256) for _ in range(10)]))
    ctx.coverage["published_matrix_all_256x256_angles"] = bool(thorough)
    n_cmp, stats = 0, {}
    for cname, cls in classes:
        mn = cls.mnemonic
        if "rot" in mn:
            grid = [(n, d) for d in range(5) for n in ns_small] + [(n, d) for d in big_d for n in ns_big]
        else:
            grid = [(0, 0)]
        for (n, d) in grid:
            try:
                res = published_case(cls, mn, n, d, spec)
            except Exception as e:  # noqa
                ctx.gen_obligation(f"published matrix of {cname} evaluates", False, repr(e))
                break
            if res is None:
                # unknown mnemonic: the frozen table has no operator for it.  If the translator derived its
                # specification from the class's own to_matrix() (exact K32 form found), the decomposition rows
                # are proved against that matrix; the comparison "to_matrix() vs mnemonic semantics" cannot apply.
                d = derived.get(cname)
                if d is not None:
                    derived_listed.append(dict(cls=cname, mnemonic=mn, accepted_by_nv_transpiler=bool(d.get("accepted"))))
                else:
                    ctx.gen_obligation(f"instruction class {cname} (mnemonic {mn}) has a known operator definition", False,
                                       "quantum instruction class neither in the specification table nor with an exact "
                                       "K32 form of its published matrix")
                break
            for what, diff in res:
                n_cmp += 1
                stats[mn] = stats.get(mn, 0) + 1
                ctx.note_case(("matrix", cname, what, n, d), nontrivial=True)
                if not diff < qc.TOL:
                    ctx.violation(f"{cname}.{what}() is not the operator the mnemonic {mn} denotes",
                                  dict(kind="matrix", cls=cname, method=what, n=n, d=d, maxdiff=diff),
                                  key=f"C07:matrix:{cname}.{what.split(' ')[0]}")
                    break
            else:
                continue
            break
    # netqasm.util.quantum_gates: the static table and gate_to_matrix
    for gi, mn in [(GenericInstr.X, "x"), (GenericInstr.Y, "y"), (GenericInstr.Z, "z"), (GenericInstr.H, "h"),
                   (GenericInstr.K, "k"), (GenericInstr.S, "s"), (GenericInstr.T, "t"), (GenericInstr.CNOT, "cnot"),
                   (GenericInstr.CPHASE, "cphase")]:
        n_cmp += 1
        ctx.note_case(("qg", mn))
        if not qc.maxdiff(qg.gate_to_matrix(gi), spec["fixed"][mn]) < qc.TOL:
            ctx.violation(f"quantum_gates.gate_to_matrix({gi}) differs from the definition",
                          dict(kind="qg", gate=mn), key=f"C07:matrix:quantum_gates.{mn}")
    for gi, ax in [(GenericInstr.ROT_X, "x"), (GenericInstr.ROT_Y, "y"), (GenericInstr.ROT_Z, "z")]:
        for d in range(5):
            for n in ns_small[::3]:
                n_cmp += 1
                ctx.note_case(("qg", ax, n, d))
                if not qc.maxdiff(qg.gate_to_matrix(gi, angle=(n, d)), spec["rot"][ax][spec["hu"][d][n]]) < qc.TOL:
                    ctx.violation(f"quantum_gates.gate_to_matrix({gi}, ({n},{d})) differs from the definition",
                                  dict(kind="qg", gate="rot_" + ax, n=n, d=d), key=f"C07:matrix:quantum_gates.rot_{ax}")
                    break
    ctx.coverage["published_matrix_comparisons"] = n_cmp
    ctx.coverage["published_matrix_by_mnemonic"] = stats
    ctx.coverage["instruction_classes_checked"] = [c for c, _ in classes]


# ------------------------------------------------------------------ corpus / replay
def run_corpus_entry(ctx, rec, spec=None):
    """rec: {'kind':'row', gate, ids, hw} or {'kind':'matrix', cls, n, d}. Returns True if it fails now."""
    import nv_decomp as nd
    if rec["kind"] == "row":
        ns = nd.load(ctx.repo)
        rows = [r for r in nd.build_rows(ns) if r["meta"]["gate"] == rec["gate"] and r["meta"]["ids"] == rec["ids"]
                and r["meta"]["hw"] == rec["hw"] and r["meta"].get("n") == rec.get("n") and r["meta"].get("d") == rec.get("d")]
        failed = False
        for r in rows:
            bad = oracle_row(dict(place=r["place"], meta=r["meta"], ops=r["ops"]))
            if bad:
                failed = True
                ctx.violation("NV sequence does not implement the gate: " + bad["reason"],
                              dict(kind="row", gate=rec["gate"], ids=rec["ids"], hw=rec["hw"], n=rec.get("n"), d=rec.get("d"),
                                   emitted=r["ops"], **bad), key=row_key(r))
        return failed
    if rec["kind"] == "history":
        import nv_decomp as nd
        return hist_case(ctx, nd.load(ctx.repo), rec["steps"], rec["hw"], rec["psi_seed"])
    if rec["kind"] == "matrix":
        from netqasm.lang.instr import core, nv, vanilla
        spec = spec or spec_tables(ctx)
        cls = dict(gate_classes((core, vanilla, nv)))[rec["cls"]]
        res = published_case(cls, cls.mnemonic, rec.get("n", 0), rec.get("d", 0), spec)
        failed = False
        for what, diff in res:
            if not diff < qc.TOL:
                failed = True
                ctx.violation(f"{rec['cls']}.{what}() is not the operator the mnemonic denotes",
                              dict(kind="matrix", cls=rec["cls"], method=what, n=rec.get("n", 0), d=rec.get("d", 0), maxdiff=diff),
                              key=f"C07:matrix:{rec['cls']}.{what.split(' ')[0]}")
        return failed
    raise ValueError(rec)


def corpus(ctx, spec):
    import vlib
    d = os.path.join(vlib.VERIF, "corpus", "C07")
    n = 0
    if os.path.isdir(d):
        for f in sorted(os.listdir(d)):
            if f.endswith(".json"):
                rec = json.load(open(os.path.join(d, f)))
                run_corpus_entry(ctx, rec.get("replay", rec), spec)
                n += 1
    ctx.coverage["corpus_entries_replayed"] = n



# ------------------------------------------------------------------ gates inside a subroutine history
HIST_NQ = 3     # virtual ids 0 (electron), 1, 2 (carbons)


def _hist_channel(rho, kind, wires, M=None):
    if kind == "u":
        U = qc.embed(HIST_NQ, wires, M)
        return U @ rho @ U.conj().T
    if kind == "init":   # reset channel
        k0 = qc.embed(HIST_NQ, wires, np.array([[1, 0], [0, 0]], dtype=complex))
        k1 = qc.embed(HIST_NQ, wires, np.array([[0, 1], [0, 0]], dtype=complex))
        return k0 @ rho @ k0.conj().T + k1 @ rho @ k1.conj().T
    raise ValueError(kind)


# content of a qubit after qalloc is unspecified (it may be about to receive half of a pair): the SAME fixed
# non-trivial unitary is applied in the original and in the transpiled run, which is one admissible content
_UNSPEC = qc.rot_nd("y", 5, 4) @ qc.rot_nd("z", 3, 4)


def hist_steps(rng, n):
    """A history: list of steps over virtual ids 0..2; every step re-sets the registers it uses."""
    g1 = ["X", "Y", "Z", "H", "K", "S", "T"]
    steps = []
    for _ in range(n):
        k = rng.choice(["g1", "g2", "g2", "cc", "cc", "rot", "init_e", "realloc_e", "init_e+realloc_e"])
        if k == "g1":
            steps.append(["g1", rng.choice(g1), rng.randrange(HIST_NQ)])
        elif k == "rot":
            steps.append(["rot", rng.choice(AX), rng.randrange(HIST_NQ), rng.randrange(1, 32), rng.randrange(0, 5)])
        elif k == "g2":
            a, b = rng.sample(range(HIST_NQ), 2)
            steps.append(["g2", rng.choice(["CNOT", "CPHASE"]), a, b])
        elif k == "cc":
            a, b = rng.sample([1, 2], 2)
            steps.append(["g2", rng.choice(["CNOT", "CPHASE"]), a, b])
        elif k == "init_e":
            steps.append(["init", 0])
        elif k == "realloc_e":
            steps.append(["realloc", 0])
        else:
            steps.append(["init", 0]); steps.append(["realloc", 0])
    # the Q registers each step addresses its qubits through (low indices included: the program may write a
    # register the transpiler used as scratch for the electron earlier in the same subroutine)
    for st in steps:
        st.append(rng.sample(range(8), 2))
    return steps


def hist_instrs(ns, steps):
    def sset(r, v):
        return ns.core.SetInstruction(reg=r, imm=ns.Immediate(v))
    out = []
    for st in steps:
        ia, ib = st[-1] if isinstance(st[-1], list) else (5, 6)
        ra, rb = ns.Register(ns.RegisterName.Q, ia), ns.Register(ns.RegisterName.Q, ib)
        if st[0] == "g1":
            out += [sset(ra, st[2]), ns.g1[st[1]](reg=ra)]
        elif st[0] == "rot":
            out += [sset(ra, st[2]), ns.rot[st[1]](reg=ra, imm0=ns.Immediate(st[3]), imm1=ns.Immediate(st[4]))]
        elif st[0] == "g2":
            out += [sset(ra, st[2]), sset(rb, st[3]), ns.g2[st[1]](reg0=ra, reg1=rb)]
        elif st[0] == "init":
            out += [sset(ra, st[1]), ns.core.InitInstruction(reg=ra)]
        elif st[0] == "realloc":
            out += [sset(ra, st[1]), ns.core.QFreeInstruction(reg=ra), ns.core.QAllocInstruction(reg=ra)]
    return out


def hist_run(ns, instrs, rho, spec_side):
    """Density-matrix run.  spec_side: vanilla gates by the SPEC matrices of qcommon; otherwise the NV
    instructions by the SPEC rot/crot matrices.  Returns rho or a string naming an instruction not understood."""
    regs = {}
    for ins in instrs:
        t = type(ins)
        if t is ns.core.SetInstruction:
            regs[ins.reg] = ins.imm.value
        elif t is ns.core.QFreeInstruction:
            pass
        elif t is ns.core.QAllocInstruction:
            rho = _hist_channel(rho, "u", [regs[ins.reg]], _UNSPEC)
        elif t is ns.core.InitInstruction:
            rho = _hist_channel(rho, "init", [regs[ins.reg]])
        elif spec_side and t in ns.g1.values():
            g = [k for k, v in ns.g1.items() if v is t][0]
            rho = _hist_channel(rho, "u", [regs[ins.reg]], qc.GATES[g])
        elif spec_side and t in ns.rot.values():
            ax = [k for k, v in ns.rot.items() if v is t][0]
            rho = _hist_channel(rho, "u", [regs[ins.reg]], qc.rot_nd(ax, ins.angle_num.value, ins.angle_denom.value))
        elif spec_side and t in ns.g2.values():
            g = [k for k, v in ns.g2.items() if v is t][0]
            rho = _hist_channel(rho, "u", [regs[ins.reg0], regs[ins.reg1]], qc.GATES[g])
        elif not spec_side and t in ns.nvrot:
            rho = _hist_channel(rho, "u", [regs[ins.reg]], qc.rot_nd(ns.nvrot[t], ins.angle_num.value, ins.angle_denom.value))
        elif not spec_side and t in ns.nvcrot:
            if regs[ins.reg0] == regs[ins.reg1]:
                return "two-qubit instruction on one qubit: " + str(ins)
            rho = _hist_channel(rho, "u", [regs[ins.reg0], regs[ins.reg1]],
                                qc.crot_nd(ns.nvcrot[t], ins.angle_num.value, ins.angle_denom.value))
        else:
            return "instruction not understood: " + str(ins)
    return rho


def hist_case(ctx, ns, steps, hw, psi_seed):
    """True if the history fails now (a violation was reported)."""
    import nv_decomp as nd
    r = np.random.default_rng(psi_seed)
    v = r.normal(size=2 ** HIST_NQ) + 1j * r.normal(size=2 ** HIST_NQ)
    v = v / np.linalg.norm(v)
    rho0 = np.outer(v, v.conj())
    instrs = hist_instrs(ns, steps)
    try:
        out = nd.transpile(ns, instrs, hw)
    except Exception as e:  # noqa
        ctx.violation("the NV transpiler refuses a subroutine made of gates it accepts one by one",
                      dict(kind="history", steps=steps, hw=hw, psi_seed=psi_seed, error=type(e).__name__ + ": " + str(e)[:200]),
                      key="C07:history")
        return True
    # the transpiler may rewrite operand fields of the instruction objects it was given: the
    # specification side runs on freshly built instructions
    want = hist_run(ns, hist_instrs(ns, steps), rho0, True)
    got = hist_run(ns, out, rho0, False)
    if isinstance(want, str):
        raise RuntimeError("history generator produced something the oracle does not know: " + want)
    if isinstance(got, str) and got.startswith("two-qubit instruction on one qubit"):
        ctx.violation("inside a subroutine history the emitted NV sequence addresses one qubit twice in a two-qubit "
                      "instruction (a register the expansion relies on no longer holds the qubit it was set to)",
                      dict(kind="history", steps=steps, hw=hw, psi_seed=psi_seed, emitted=[str(i) for i in out][:120], problem=got),
                      key="C07:history")
        return True
    if isinstance(got, str):
        ctx.coverage["history_cases_skipped"] = ctx.coverage.get("history_cases_skipped", 0) + 1
        ctx.coverage["history_skip_reason"] = got[:200]
        return False
    dist = float(np.abs(want - got).max())
    if dist > 1e-8:
        ctx.violation("inside a subroutine history the emitted NV sequences do not implement the gates (or a borrowed "
                      "electron is not returned to its prior state): final states of original and transpiled differ",
                      dict(kind="history", steps=steps, hw=hw, psi_seed=psi_seed, max_entry_difference=dist,
                           emitted=[str(i) for i in out][:120],
                           semantics="density matrix over ids 0..2; init = reset; qalloc = the same fixed unitary in both runs "
                                     "(unspecified content); qfree = nothing; gates by the specification matrices"),
                      key="C07:history")
        return True
    return False


def history_oracle(ctx):
    """Gates are not only expanded alone: the same expansion must be right wherever the gate stands in a
    subroutine (an expansion that depends on what the transpiler saw earlier - electron initialised, freed,
    allocated again - is checked on histories of those events)."""
    import nv_decomp as nd
    ns = nd.load(ctx.repo)
    ctx.assume.append("history oracle (gates inside subroutine histories): density matrix over virtual ids 0..2 from a random pure "
                      "state; init = reset channel; qfree = nothing; qalloc = one fixed non-trivial unitary applied in BOTH the "
                      "original and the transpiled run (an admissible instance of 'content unspecified after allocation'); gates by "
                      "the specification matrices of harness/qcommon.py; this family is a direct oracle on the implementation "
                      "(support for the tie), the theorems are about single-gate expansions")
    n = 150 if ctx.tier == "quick" else 4000
    stats = {}
    for i in range(n):
        steps = hist_steps(ctx.rng, ctx.rng.randint(3, 9))
        hw = bool(i % 2)
        for st in steps:
            stats[st[0]] = stats.get(st[0], 0) + 1
        ctx.note_case(("history", str(steps), hw))
        if hist_case(ctx, ns, steps, hw, i):
            break
    ctx.coverage["history_cases"] = n
    ctx.coverage["stream_distribution_history_steps"] = stats

# ------------------------------------------------------------------ main
def run(ctx):
    ctx.rule = ("table rows = every vanilla gate the NV transpiler accepts (X,Y,Z,H,K,S,T on electron and carbons 1..3; "
                "rot_x/y/z at d=0..4 x 12 numerators; CNOT, CPHASE at all 12 electron/carbon placements; MOV both "
                "directions and with unknown registers) x {simulation, hardware}; each row checked in Coq (exact) and by "
                "the numpy oracle; rotation pass-through swept exhaustively over 3 x 256 x 256 immediates x 2 modes; "
                "published matrices of every gate class of vanilla/nv: thorough = ALL 256 x 256 (n, d) (d<=4 against the exact "
                "K32 matrix, every d against a 60-digit evaluation of cos/sin of the exact angle), quick = 48 n x d<=4 "
                "plus sampled d>4; a case is non-trivial "
                "unless it is a rotation by angle 0; distinct = distinct (kind, gate/class, placement, n, d, mode)")
    jpath = os.path.join(ctx.build, "rows.json")
    ok, err = ctx.gen("nv_decomp.py", "Gen_NvDecomp.v", "--json", jpath)
    ctx.gen_obligation("translator nv_decomp.py understands the transpiler output", ok, err.strip()[-400:])
    ctx.trusted.append("gen/nv_decomp.py: runs the real NVSubroutineTranspiler on single-gate subroutines, resolves register "
                       "operands to virtual qubit ids via the emitted `set` instructions, maps ids to wires "
                       "(electron=0), sweeps all rotation immediates in both hardware settings")
    ctx.trusted.append("harness/qcommon.py: independent numpy definitions of the gates (oracle) and numeric evaluation "
                       "of printed K32 values")
    ctx.assume.append("the ring-generic theorems (C07.v) are axiom-free; their instantiation at the complex numbers "
                      "(C07_complex.v: omega = cos(pi/32) + i sin(pi/32), de Moivre) uses the axioms of Coq's reals")
    ctx.assume.append("noise-free operator semantics; an instruction's meaning is the matrix of its mnemonic's definition "
                      "(exp(-i theta/2 sigma); NV crot = |0><0| (x) R(theta) + |1><1| (x) R(-theta), control = first operand)")
    ctx.assume.append("MOV with operand registers unknown at transpile time is taken as electron -> carbon, as the "
                      "transpiler documents")
    spec = spec_tables(ctx)
    if not ok or spec is None:
        return ctx.finish()
    corpus(ctx, spec)
    r = ctx.coqc("Gen_NvDecomp.v")
    ctx.gen_obligation("Gen_NvDecomp.v type-checks", r.ok, r.err[-300:])
    data = json.load(open(jpath))
    rows = data["rows"]
    for prob in data.get("derived_problems", []):
        ctx.gen_obligation("a vanilla gate outside the frozen table has a usable published matrix", False, prob)
    drows = [r["name"] for r in rows if r["meta"]["gate"] == "CUSTOM"]
    if drows:
        ctx.coverage["rows_with_specification_derived_from_to_matrix"] = drows
        ctx.trusted.append("rows marked [spec from to_matrix]: the gate's mnemonic is not in the frozen specification table; "
                           "its operator is the exact K32 form (searched among 0, +-w^a/2^m, (w^a +- w^b)/2^m, verified to 1e-12) of "
                           "the class's OWN published to_matrix() - this shows decomposition = published matrix, not that the "
                           "published matrix is what the mnemonic should mean")
    # oracle on every row (independent of Coq)
    nbad = 0
    place_stats, gate_stats = {}, {}
    for row in rows:
        m = row["meta"]
        place_stats[row["place"]] = place_stats.get(row["place"], 0) + 1
        gate_stats[m["gate"]] = gate_stats.get(m["gate"], 0) + 1
        ctx.note_case(("row", row["name"]), nontrivial=not (m["gate"].startswith("ROT_") and m.get("n") == 0))
        bad = oracle_row(row)
        if bad:
            nbad += 1
            ctx.violation("NV sequence does not implement the gate: " + bad["reason"],
                          dict(kind="row", gate=m["gate"], ids=m["ids"], hw=m["hw"], n=m.get("n"), d=m.get("d"),
                               row=row["name"], emitted=row["ops"], **bad), key=row_key(row))
    ctx.samples = [dict(row=r["name"], emitted=r["ops"]) for r in (rows[0], rows[20], rows[len(rows) // 2 - 8], rows[-1])]
    ctx.coverage["rows"] = len(rows)
    ctx.coverage["rows_by_placement"] = place_stats
    ctx.coverage["rows_by_gate"] = gate_stats
    ctx.coverage["oracle_failing_rows"] = nbad
    # exhaustive rotation sweep (done inside the translator; data checked by Coq)
    ctx.coverage["rotation_sweep_cases"] = data["sweep_count"]
    ctx.coverage["exhaustive"] = True
    ctx.coverage["exhaustive_what"] = "rotation immediates: 3 axes x 256 n x 256 d x {simulation, hardware}"
    ctx.evaluations += data["sweep_count"]
    for (ax, d, line) in data["hw_lines"]:
        for n, res in enumerate(line):
            ctx.distinct.add(("hw", ax, n, d))
    sweep_oracle(ctx, data)
    res = ctx.props("C07")
    if res.ok:
        qc.complex_props(ctx, "C07_complex")
    else:
        search(ctx, data, rows)
    check_published(ctx, spec, data)
    history_oracle(ctx)
    ctx.finish()


def search(ctx, data, rows):
    """props/C07.v no longer compiles: name the concrete row / rotation that broke it."""
    src = ("From Coq Require Import ZArith List.\nFrom NQ Require Import Base.Cyclo Base.QMat Nv.NvSem.\n"
           "From Gen Require Import Gen_NvDecomp.\nImport ListNotations.\nOpen Scope Z_scope.\n"
           "Eval vm_compute in (map Z.of_nat (bad_row_idx gen_rows)).\n")
    open(os.path.join(ctx.build, "cases_bad.v"), "w").write(src)
    r = ctx.coqc("cases_bad.v")
    if r.ok:
        v = qc.parse_evals(r.out)
        idx = v[0] if v else []
        ctx.coverage["coq_failing_rows"] = [rows[i]["name"] for i in idx][:40]
        for i in idx:
            row = rows[i]
            if oracle_row(row) is None:
                # Coq rejects the row but the numeric oracle accepts it: model/oracle disagree
                ctx.broken.append(f"row {row['name']} fails row_ok in Coq but passes the numpy oracle")


def emitted_ok(ax, n, d, ops):
    """Does the emitted list (possibly empty / several instructions) implement rot_ax(n*pi/2^d)?
    Returns True / False / None (cannot decide: an instruction the translator did not understand)."""
    if ops is None:
        return False
    for o in ops:
        if o[0] not in ("rot", "crot"):
            return None
    try:
        U = seq_unitary(1, [tuple(o) for o in ops])     # the operator of an empty list is the identity
    except Exception:  # noqa
        return None
    return qc.phase_equal(U, qc.rot_nd(ax, n, d))


def sweep_oracle(ctx, data):
    """Oracle on every deviation the exhaustive rotation sweep recorded (both modes): the
    concrete (axis, n, d, mode) with the emitted list is the replay."""
    n_dev, undecided = 0, 0
    reported = set()
    for mode, key, hw in (("simulation", "sim_dev", False), ("hardware", "hw_dev", True)):
        for (ax, n, d, ops) in data.get(key, []):
            n_dev += 1
            okk = emitted_ok(ax, n, d, ops)
            if okk is None:
                undecided += 1
                continue
            if not okk and (ax, hw) not in reported:
                reported.add((ax, hw))
                ctx.violation(f"rot_{ax} {n} {d} is transpiled to a different operator in {mode} mode "
                              f"({len(ops)} instruction(s) emitted)",
                              dict(kind="rot-sweep", axis=ax, n=n, d=d, hw=hw, emitted=ops),
                              key=f"C07:decomp:rot_{ax}:PSingle")
    for (ax, d, line) in data["hw_lines"]:
        for n, out in enumerate(line):
            if out is None:
                if ("rej", ax) not in reported and not any(t[0] == ax and t[1] == n and t[2] == d for t in data.get("hw_dev", [])):
                    reported.add(("rej", ax))
                    ctx.violation(f"rot_{ax} {n} {d} is rejected in hardware mode although d <= 4",
                                  dict(kind="hw-rot", axis=ax, n=n, d=d, emitted=None), key=f"C07:hw-rot:{ax}")
                continue
            if not qc.phase_equal(qc.rot_nd(ax, out[0], out[1]), qc.rot_nd(ax, n, d)) and (ax, True) not in reported:
                reported.add((ax, True))
                ctx.violation(f"hardware-mode angle normalisation changes the rotation: rot_{ax} {n} {d} -> {out[0]} {out[1]}",
                              dict(kind="hw-rot", axis=ax, n=n, d=d, emitted=out), key=f"C07:hw-rot:{ax}")
    for (ax, n, d, out) in data["hw_acc"]:
        if not qc.phase_equal(qc.rot_nd(ax, out[0], out[1]), qc.rot_nd(ax, n, d)) and ("acc", ax) not in reported:
            reported.add(("acc", ax))
            ctx.violation(f"hardware mode accepts rot_{ax} {n} {d} and emits a different angle {out}",
                          dict(kind="hw-rot", axis=ax, n=n, d=d, emitted=out), key=f"C07:hw-rot:{ax}")
    ctx.coverage["rotation_sweep_deviations"] = n_dev
    if undecided:
        ctx.broken.append(f"rotation sweep: {undecided} outputs contain instructions the translator does not understand")


def replay(ctx, path):
    rec = json.load(open(path))
    rec = rec.get("replay", rec)
    if "kind" not in rec:
        # the replay names a broken obligation, not an input: re-run the whole check
        print("replay: no concrete input recorded (broken obligation); running the full check")
        return run(ctx)
    if rec.get("kind") == "history":
        import nv_decomp as nd
        bad = hist_case(ctx, nd.load(ctx.repo), rec["steps"], rec["hw"], rec["psi_seed"])
        print("replay: history", "FAILS" if bad else "ok")
    elif rec.get("kind") == "rot-sweep":
        import nv_decomp as nd
        ns = nd.load(ctx.repo)
        ax, n, d, hw = rec["axis"], rec["n"], rec["d"], rec["hw"]
        reg = nd.qreg(ns, 0)
        try:
            ops = nd.safe_resolve(ns, nd.transpile(ns, [ns.core.SetInstruction(reg=reg, imm=ns.Immediate(2)),
                                                        ns.rot[ax](reg=reg, imm0=ns.Immediate(n), imm1=ns.Immediate(d))], hw), {2: 0})
        except Exception as e:  # noqa
            ops = None
        good = emitted_ok(ax, n, d, ops)
        print("replay: emitted", ops, "ok" if good else "FAILS")
        if not good:
            ctx.violation("rotation is transpiled to a different operator", rec, key=f"C07:decomp:rot_{ax}:PSingle")
    elif rec.get("kind") == "hw-rot":
        import nv_decomp as nd
        ns = nd.load(ctx.repo)
        ax, n, d = rec["axis"], rec["n"], rec["d"]
        reg = nd.qreg(ns, 0)
        try:
            out = nd.transpile(ns, [ns.core.SetInstruction(reg=reg, imm=ns.Immediate(2)),
                                    ns.rot[ax](reg=reg, imm0=ns.Immediate(n), imm1=ns.Immediate(d))], True)
            ops = nd.resolve(ns, out, {2: 0})
            good = qc.phase_equal(seq_unitary(1, ops), qc.rot_nd(ax, n, d))
        except ValueError:
            ops, good = None, d > 4
        print("replay:", ops, "ok" if good else "FAILS")
        if not good:
            ctx.violation("hardware-mode rotation differs", rec, key=f"C07:hw-rot:{ax}")
    else:
        failed = run_corpus_entry(ctx, rec)
        print("replay:", "FAILS" if failed else "passes now")
    ctx.finish()
