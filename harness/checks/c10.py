"""C10 — entanglement looks like Phi+ whatever Bell state the link delivered."""
import inspect
import itertools
import json
import os
import time

import numpy as np

import epr_common as ec
from coqemit import b as cqb
from coqemit import lst, s, z

KNOWN_WAITALL = "C10:wait-all-loop-corrects-qubit-0"

HEADER = """From Coq Require Import ZArith List String.
From NQ Require Import Sdk.EprBoundary Sdk.EprBuild Sdk.EprBuildCheck.
From Gen Require Import Gen_Epr.
Import ListNotations.
Open Scope string_scope.
Open Scope Z_scope.
Fixpoint index_of (x : string) (l : list string) : nat :=
  match l with [] => 0%nat | y :: t => if String.eqb y x then 0%nat else S (index_of x t) end.
Definition bell_idx : nat := match lookup "BELL_STATE" gen_ser_keep_names with Some k => k | None => 0%nat end.
Definition bell_pos : nat := index_of "bell_state" gen_okk_fields.
Definition gen_bp : bparams :=
  mkBP 1 0 (Z.of_nat bell_idx) (Z.of_nat gen_keep_len) (Z.of_nat gen_OK_FIELDS_K) gen_bell_paulis.
"""

# request shapes: (name, api call, post routine?, sequential?)
SHAPES = [("plain", "recv_keep", False, False), ("post", "recv_keep", True, False), ("seq", "recv_keep", True, True)]
RSP = ("rsp", "recv_rsp", False, False)
# sets of live qubits before the request: (number allocated, indices freed again) — the second kind leaves
# HOLES in the used virtual IDs (e.g. (3, [1]): IDs 0 and 2 are held, the pairs get 1 and 3)
LIVE_FULL = [(0, []), (1, []), (2, []), (3, [1]), (4, [0, 2]), (3, [0])]
LIVE = [(0, []), (1, []), (3, [1]), (4, [1, 2])]
# hardware configurations: (hardware, max_qubits or None = large enough).  "nvswap" = generic hardware config
# with the NV transpiler selected (the Builder swaps the config for an NV one); generic with ONE qubit is a
# non-NV device with a single communication qubit
HARDWARE = [("generic", 1), ("generic", 2), ("nv", 2), ("nv", 3), ("nv", None), ("nvswap", 2), ("nvswap", 3)]


def feasible(case):
    alloc, freed = live_of(case)
    live = alloc - len(freed)
    m = eff_maxq(case)
    if case["hardware"] != "generic" and alloc:
        return False          # live memory qubits on NV: relocation of the communication qubit is C09's subject
    if alloc > m:
        return False
    if case["seq"]:
        return live + 1 <= m
    return case["n"] + live <= m


def mk_case(shape, hw, maxq, live, n, tup, expect=True, qlink=None, **more):
    name, call, post, seq = shape
    c = dict(cfg=name, hardware=hw, call=call, post=post, seq=seq, live=[live[0], list(live[1])], n=n,
             bells=list(tup), expect=expect)
    if maxq:
        c["maxq"] = maxq
    if qlink:
        c["qlink"] = qlink
    c.update(more)
    if not feasible(c):
        return None
    c["variant"] = model_variant(c)
    return c


# ---------------------------------------------------------------- numerics (oracle for parts a, d)
def rotm(axis, n, d=4):
    from sdk_pipeline import rot
    return rot(axis, n, d)


def bellvec(name):
    v = {"PHI_PLUS": [1, 0, 0, 1], "PHI_MINUS": [1, 0, 0, -1], "PSI_PLUS": [0, 1, 1, 0], "PSI_MINUS": [0, 1, -1, 0]}[name]
    return np.array(v, dtype=complex) / np.sqrt(2)


def gate_matrix(g):
    mn, n, d = g
    if mn not in ("rot_x", "rot_y", "rot_z"):
        raise ValueError(mn)
    return rotm(mn[-1], n, d)


def numeric_tables(ctx, t):
    """(a) every regenerated correction maps its Bell state to Phi+ (and no other Pauli does);
    (d) the regenerated post-processing table reproduces the Phi+ statistics."""
    names = {v: k for k, v in t["enums"]["BellState"]}
    phi = bellvec("PHI_PLUS")
    I2 = np.eye(2)
    ok_a, ok_only, detail = True, True, []
    table = dict(t["bell_paulis"])
    cands = {"I": I2, "X": rotm("x", 16), "Z": rotm("z", 16), "XZ": rotm("z", 16) @ rotm("x", 16)}
    for val, gates in t["bell_paulis"]:
        U = I2
        for g in gates:
            U = gate_matrix(g) @ U
        psi = np.kron(U, I2) @ bellvec(names[val])
        f = abs(np.vdot(phi, psi)) ** 2
        if abs(f - 1) > 1e-9:
            ok_a = False
            detail.append(f"correction for {names[val]} gives fidelity {f:.6f}")
        fixes = [k for k, P in cands.items() if abs(abs(np.vdot(phi, np.kron(P, I2) @ bellvec(names[val]))) ** 2 - 1) < 1e-9]
        if len(fixes) != 1:
            ok_only = False
    ctx.gen_obligation("(a) numeric: each regenerated correction maps its Bell state to Phi+ up to phase", ok_a, "; ".join(detail))
    ctx.gen_obligation("(a) numeric: exactly one of I, X, Z, XZ maps each Bell state to Phi+", ok_only, "")
    # named bases: the rotation really measures the named Pauli
    ok_b, detail = True, []
    paul = {"X": np.array([[0, 1], [1, 0]], dtype=complex), "Y": np.array([[0, -1j], [1j, 0]]),
            "Z": np.array([[1, 0], [0, -1]], dtype=complex)}
    bnames = {v: k for k, v in t["enums"]["EprMeasBasis"]}
    rots = {}
    for bval, r in t["basis_rot"]:
        nm = bnames[bval]
        if tuple(r) != ec.SPEC_BASIS_ROT[nm]:
            ok_b = False
            detail.append(f"basis_to_rotation({nm}) = {tuple(r)}")
        R = rotm("x", r[2]) @ rotm("y", r[1]) @ rotm("x", r[0])
        rots[bval] = R
        eff = R.conj().T @ paul["Z"] @ R   # the observable whose +1 eigenvalue gives outcome 0
        want = paul[nm[-1]] * (-1 if nm.startswith("M") else 1)
        if np.max(np.abs(eff - want)) > 1e-9:
            ok_b = False
            detail.append(f"rotations of {nm} measure another observable")
    ctx.gen_obligation("(d) numeric: basis_to_rotation gives the rotations that measure the named Pauli", ok_b, "; ".join(detail))
    # statistics
    ok_d, detail = True, []
    pp = {(a, bb, m): o for a, bb, m, o, _ in t["postproc"]}
    raw_ok = all(r == m for _, _, m, _, r in t["postproc"])
    for bval, R in rots.items():
        RR = np.kron(R, R)
        ref = np.abs(RR @ phi) ** 2   # joint distribution of (m_local, m_remote) on Phi+
        for val, _ in t["bell_paulis"]:
            dist = np.abs(RR @ bellvec(names[val])) ** 2
            post = np.zeros(4)
            for ml in (0, 1):
                for mr in (0, 1):
                    post[2 * pp[(bval, val, ml)] + mr] += dist[2 * ml + mr]
            if np.max(np.abs(post - ref)) > 1e-9:
                ok_d = False
                detail.append(f"basis {bnames[bval]}, {names[val]}: {post.round(3).tolist()} vs {ref.round(3).tolist()}")
                ctx.violation("measure-directly: post-processed outcomes do not have the joint statistics of Phi+",
                              dict(basis=bnames[bval], rotations=list(dict(t["basis_rot"])[bval]), bell_state=names[val],
                                   joint_distribution_postprocessed=post.round(6).tolist(),
                                   joint_distribution_phi_plus=ref.round(6).tolist(),
                                   postprocess_table={str(m): pp[(bval, val, m)] for m in (0, 1)}), key=None)
    ctx.gen_obligation("(d) numeric: post-processed outcomes on every Bell state have the joint statistics of Phi+ "
                       "(6 bases x 4 states)", ok_d, "; ".join(detail[:4]))
    ctx.gen_obligation("(d) without post-processing the raw outcome is returned", raw_ok, "")
    return table


# ---------------------------------------------------------------- pipeline runs
def canon_trace(tr):
    out, i = [], 0
    tr = [x for x in tr if x[0] != "init"]
    while i < len(tr):
        mn, ids, imm = tr[i]
        if (mn == "rot_y" and imm == (8, 4) and i + 3 < len(tr) and tr[i + 1][0] == "crot_y" and tr[i + 1][2] == (24, 4)
                and tr[i + 2][0] == "rot_x" and tr[i + 2][2] == (24, 4) and tr[i + 3][0] == "crot_x"
                and tr[i + 3][2] == (8, 4) and tr[i + 1][1] == tr[i + 3][1] and tr[i + 1][1][0] == ids[0]
                and tr[i + 2][1] == ids):
            out.append(("mov", ids[0], tr[i + 1][1][1], 0))   # the NV flavour's expansion of `mov`
            i += 4
            continue
        if mn == "meas":
            out.append(("meas", ids[0], 0, 0))
        elif len(ids) == 1 and len(imm) == 2:
            out.append((mn, ids[0], imm[0], imm[1]))
        else:
            out.append((mn + "/" + ",".join(map(str, ids)), -1, 0, 0))
        i += 1
    return out


def pair_fidelity(ex, lk, rk):
    keys = ex.keys
    if lk not in keys or rk not in keys:
        return -1.0
    n = len(keys)
    psi = np.moveaxis(ex.psi.reshape([2] * n), [keys.index(lk), keys.index(rk)], [0, 1]).reshape(4, -1)
    rho = psi @ psi.conj().T
    phi = bellvec("PHI_PLUS")
    return float(np.real(np.vdot(phi, rho @ phi)))


def pair_overlap(ex, lk, rk, name):
    keys = ex.keys
    if lk not in keys or rk not in keys:
        return -1.0
    n = len(keys)
    psi = np.moveaxis(ex.psi.reshape([2] * n), [keys.index(lk), keys.index(rk)], [0, 1]).reshape(4, -1)
    rho = psi @ psi.conj().T
    v = bellvec(name)
    return float(np.real(np.vdot(v, rho @ v)))


def live_of(case):
    """(number of qubits allocated before the request, indices of those freed again before it)"""
    lv = case.get("live")
    if lv is None:
        return int(case.get("extra", 0)), []
    return int(lv[0]), list(lv[1])


def eff_maxq(case):
    if case.get("maxq"):
        return int(case["maxq"])
    if case["hardware"] == "generic":
        return max(2, case["n"] + live_of(case)[0] + 1)
    return max(case["n"], 2)


def single_comm(case):
    """one communication qubit: NV config, generic config swapped for NV by the Builder (NV transpiler
    selected), or a generic device with a single qubit"""
    return case["hardware"] in ("nv", "nvswap") or eff_maxq(case) == 1


def model_variant(case):
    """which emitted-code variant the builder must choose: 0 wait-all loop, 1 post routine / sequential,
    2 wait-correct-move-to-memory"""
    if case["post"] and not case["call"].startswith("recv_rsp"):
        return 1
    return 2 if single_comm(case) else 0


def run_keep(repo, ns, case):
    """case: dict(cfg, variant, hardware generic|nv|nvswap, maxq (optional), call, post, seq,
    live=[alloc, [freed indices]] (or extra=k), n, bells=[values], expect, qlink None|"enum"|"int")
    Returns dict(trace, ids, fid=[per pair], error)."""
    from sdk_pipeline import Pipeline
    qc = ns.qc
    n, bells = case["n"], case["bells"]
    hw = case["hardware"]
    pipe = Pipeline(repo, hardware="nv" if hw == "nv" else "generic", use_transpiler=hw in ("nv", "nvswap"),
                    executor="sv", max_qubits=eff_maxq(case), seed=case.get("seed", 0))
    sock = pipe.epr_socket("Bob")
    recv = case["call"].startswith("recv")
    resps = []
    fmt = case.get("qlink")
    fmt = "enum" if fmt is True else fmt
    for i, bv in enumerate(bells):
        if fmt:
            import qlink_interface as ql
            qb = ql.BellState[qc.BellState(bv).name]
            resps.append(ql.ResCreateAndKeep(create_id=3, directionality_flag=1 if recv else 0, sequence_number=i,
                                             purpose_id=0, remote_node_id=1, goodness=40 + i,
                                             bell_state=qb if fmt == "enum" else qb.value, logical_qubit_id=10 + i,
                                             time_of_goodness=50 + i))
        else:
            resps.append(qc.LinkLayerOKTypeK(qc.ReturnType.OK_K, 3, 10 + i, 1 if recv else 0, i, 0, 1, 40 + i, 50 + i,
                                             qc.BellState(bv)))
    pipe.responses = resps
    out = dict(trace=None, ids=None, fid=[None] * n, same=[None] * n, error=None, subroutine=None)
    ex = pipe.executor
    orig_on_meas = ex.on_meas
    measured = []

    def on_meas(subroutine_id, q_address, forced):
        lk = ex.key(subroutine_id, q_address)
        mine = [k for k, (l, r, bs) in enumerate(pipe.bell_pairs) if l == lk]
        if mine and not (case.get("kind") == "unknown" and out["fid"][mine[-1]] is not None):
            k = mine[-1]
            out["fid"][k] = pair_fidelity(ex, lk, pipe.bell_pairs[k][1])
            out["same"][k] = pair_overlap(ex, lk, pipe.bell_pairs[k][1], qc.BellState(bells[k]).name)
            measured.append(k)
        return orig_on_meas(subroutine_id, q_address, forced)

    ex.on_meas = on_meas
    if case.get("kind") == "unknown":
        # whatever the method does with the pair after the corrections (basis change, measurement): read the pair's
        # state just before the first gate on its qubit that is not a Pauli correction
        orig_on_gate = ex.on_gate

        def on_gate(instr, subroutine_id, addresses, nd):
            if not (instr.mnemonic in ("rot_x", "rot_z") and nd == (16, 4)) and instr.mnemonic != "init":
                for a in addresses:
                    lk = ex.key(subroutine_id, a)
                    mine = [k for k, (l, r, bs) in enumerate(pipe.bell_pairs) if l == lk]
                    if mine and out["fid"][mine[-1]] is None:
                        k = mine[-1]
                        out["fid"][k] = pair_fidelity(ex, lk, pipe.bell_pairs[k][1])
                        out["same"][k] = pair_overlap(ex, lk, pipe.bell_pairs[k][1], qc.BellState(bells[k]).name)
            return orig_on_gate(instr, subroutine_id, addresses, nd)

        ex.on_gate = on_gate
    try:
        from netqasm.sdk.qubit import Qubit
        with pipe.connection(epr_sockets=[sock]) as conn:
            alloc, freed = live_of(case)
            extra = [Qubit(conn) for _ in range(alloc)]
            freed_ids = [extra[k].qubit_id for k in freed]
            for k in freed:          # leave holes in the set of used virtual IDs
                extra[k].measure()
            out["live_ids"] = [q.qubit_id for k, q in enumerate(extra) if k not in freed]
            fn = getattr(sock, case["call"])
            accepted = inspect.signature(fn).parameters
            kw = dict(number=n)
            if case.get("defaults"):
                kw = dict(case.get("extra_kw") or {})      # default arguments only: the documented defaults must apply
            elif case["post"] and "post_routine" in accepted:
                kw["post_routine"] = lambda _c, q, _pair: q.measure()
            if case["seq"] and "sequential" in accepted and not case.get("defaults"):
                kw["sequential"] = True
            if case.get("minfid") and "min_fidelity_all_at_end" in accepted and not case.get("defaults"):
                kw["min_fidelity_all_at_end"] = 80
                if "max_tries" in accepted:
                    kw["max_tries"] = 2
            if case.get("defaults"):
                pass
            elif "expect_phi_plus" in accepted:
                kw["expect_phi_plus"] = case["expect"]
            elif not case["expect"]:
                raise RuntimeError(f"{case['call']} does not take expect_phi_plus")
            if case.get("kind") == "context":
                # a context variant: the body is the post routine (fidelity is read at the measurement)
                with fn(**kw) as (q, _pair):
                    q.measure()
                qs = []
            else:
                try:
                    r = fn(**kw)
                except Exception as e:  # noqa  the API's own validation of the argument combination (a ValueError;
                    # inside a min-fidelity loop context it surfaces as that context's AssertionError)
                    out["rejected"] = type(e).__name__ + ": " + (str(e).splitlines()[0][:160] if str(e) else "")
                    r = []
                qs = r[0] if isinstance(r, tuple) else r   # *_with_info variants return (qubits, infos)
                if case.get("kind") == "unknown":
                    # a method the harness does not know: qubit handles if that is what it returns, else classical
                    out["returned"] = type(r).__name__
                    qs = [q for q in qs if isinstance(q, Qubit)] if isinstance(qs, (list, tuple)) else []
            conn.flush()
            out["ids"] = [q.qubit_id for q in qs]
            app = conn.app_id
            if case.get("kind") == "unknown" and not qs:
                out["classical"] = True      # the fidelity was read when the routine first touched / measured the qubit
            if not case["post"] and case.get("kind") != "context":
                for i, q in enumerate(qs):
                    lk, rk = (app, q.qubit_id), ("remote", i)
                    out["fid"][i] = pair_fidelity(ex, lk, rk)
                    out["same"][i] = pair_overlap(ex, lk, rk, qc.BellState(bells[i]).name)
            out["array_ids"] = None
            tr = canon_trace(pipe.gate_trace())
            # the harness's own measurements that freed the hole qubits come first (before the request)
            if tr[:len(freed)] != [("meas", freed_ids[k], 0, 0) for k in range(len(freed))]:
                raise RuntimeError(f"harness: unexpected events while preparing the live qubits: {tr[:len(freed)]}")
            out["trace"] = tr[len(freed):]
            ex.on_meas = orig_on_meas
            del extra
    except Exception as e:  # noqa
        out["error"] = type(e).__name__ + ": " + (str(e).splitlines()[0][:160] if str(e) else "")
    if pipe.subroutines:
        out["subroutine"] = str(pipe.subroutines[0])
    return out


def model_ids(case, res):
    """the qubit-ID array the builder hands to the controller: where each pair arrives"""
    if single_comm(case):
        return [0] * case["n"]
    return list(res["ids"])


def pauli_bits(table, bv):
    x = sum(1 for g in table.get(bv, []) if g[0] == "rot_x") % 2
    zz = sum(1 for g in table.get(bv, []) if g[0] == "rot_z") % 2
    return (x, zz)


def predicted_waitall(table, ids, bells):
    """what code_W does (all corrections on virtual qubit 0): trace and the set of pairs
    that do not end in Phi+"""
    tr = []
    net = {}
    for bv in bells:
        for g in table.get(bv, []):
            tr.append((g[0], 0, g[1], g[2]))
        x, zz = pauli_bits(table, bv)
        a = net.get(0, (0, 0))
        net[0] = ((a[0] + x) % 2, (a[1] + zz) % 2)
    bad = [i for i, (q, bv) in enumerate(zip(ids, bells)) if net.get(q, (0, 0)) != pauli_bits(table, bv)]
    return tr, bad


def strip(case):
    return {k: v for k, v in case.items() if k != "seed"}


def judge(ctx, ns, table, case, res, tcases, tmeta):
    """oracle on one run + material for the model correspondence"""
    phi_plus = ns.qc.BellState.PHI_PLUS.value
    replay = dict(case=strip(case), ids=res["ids"], live_ids=res.get("live_ids"), max_qubits=eff_maxq(case),
                  trace=res["trace"], fidelity=res["fid"], error=res["error"])
    if res["error"]:
        ctx.violation("the EPR operation raised", replay, key=None)
        return
    # the API's validation (builder._check_epr_args): sequential with several pairs needs a post routine that
    # consumes them; without sequential mode the pairs must fit into the device
    must_reject = bool((case["seq"] and case["n"] > 1 and not case["post"]) or
                       (not case["seq"] and case["n"] > eff_maxq(case)))
    if case.get("kind") != "context" and bool(res.get("rejected")) != must_reject:
        replay["rejected"] = res.get("rejected")
        ctx.violation("the API " + ("accepts an argument combination it must reject" if must_reject else
                                    "rejects a legal argument combination"), replay, key=None)
        return
    if res.get("rejected"):
        ctx.coverage["api_rejections_as_specified"] = ctx.coverage.get("api_rejections_as_specified", 0) + 1
        return
    recv = case["call"].startswith("recv")
    corrected = recv and case["expect"]
    ids = model_ids(case, res)
    paulis = [e for e in res["trace"] if e[0] in ("rot_x", "rot_y", "rot_z", "x", "y", "z")]
    # correspondence material (the model's variant with the ids the pairs arrive on)
    obs = [e for e in res["trace"]]
    if not case.get("no_model"):
      tcases.append(f"mkTC {case['variant']} {cqb(corrected)} {lst(z(v) for v in ids)} {lst(z(v) for v in case['bells'])} "
                  f"{lst(f'Ev {s(e[0])} {z(e[1])} {z(e[2])} {z(e[3])}' for e in obs)}")
      tmeta.append(replay)
    if not corrected:
        if paulis:
            ctx.violation("correction gates although the application did not ask for Phi+ / is the creator",
                          replay, key=None)
        bad = [i for i, f in enumerate(res["same"]) if f is None or abs(f - 1) > 1e-9]
        if bad:
            ctx.violation("pair no longer in the delivered Bell state although nothing should be corrected", replay, key=None)
        return
    bad = [i for i, f in enumerate(res["fid"]) if f is None or abs(f - 1) > 1e-9]
    if not bad:
        return
    replay["pairs_not_phi_plus"] = bad
    if case["variant"] == 0:
        ptr, pbad = predicted_waitall(table, ids, case["bells"])
        if ptr == res["trace"] and pbad == bad and any(b != phi_plus and q != 0 for q, b in zip(ids, case["bells"])):
            # one replay for the recorded class (vlib keeps 25 replay files per run); the rest is counted
            ctx.coverage["known_finding_cases"] = ctx.coverage.get("known_finding_cases", 0) + 1
            if not any(v["key"] == KNOWN_WAITALL for v in ctx.violations):
                ctx.violation("wait-all correction loop applies every pair's Pauli correction to virtual qubit 0",
                              replay, key=KNOWN_WAITALL)
            return
    ctx.violation("a kept qubit is not in Phi+ with its remote partner after the receive", replay, key=None)


# how the harness calls each public EPRSocket method that takes expect_phi_plus, and which
# emitted-code variant it is compared with.  The methods are DISCOVERED from the class
# (inspect.signature); one that is not listed here is an obligation failure (fail-closed).
KNOWN_EXPECT_VARIANTS = {
    "recv_keep": "keep", "recv_keep_with_info": "keep",
    "recv_rsp": "rsp", "recv_rsp_with_info": "rsp",
    "recv_measure": "measure",
    # context managers yield (qubit, pair index); they do not take the switch in this code base
    "recv_context": "context", "create_context": "context",
}


def discover_expect_variants(ctx):
    from netqasm.sdk.epr_socket import EPRSocket

    found, unknown, public = [], [], []
    for name, fn in inspect.getmembers(EPRSocket, predicate=callable):
        if name.startswith("_"):
            continue
        try:
            params = inspect.signature(fn).parameters
        except (TypeError, ValueError):
            continue
        public.append(name)
        if "expect_phi_plus" in params:
            if name in KNOWN_EXPECT_VARIANTS:
                found.append((name, KNOWN_EXPECT_VARIANTS[name], sorted(params)))
            else:
                unknown.append(name)
    # the documented variants must all still be there (a removed one is caught by the signature obligation as well);
    # a NEW method with the switch is exercised generically (exercise_unknown) and recorded under coverage.unknown_api
    missing = [n for n in ("recv_keep", "recv_keep_with_info", "recv_rsp", "recv_rsp_with_info", "recv_measure")
               if n not in [f[0] for f in found]]
    ctx.gen_obligation("every documented EPRSocket method taking expect_phi_plus is present and callable by the harness",
                       not missing and bool(found), f"missing: {missing}; found: {[f[0] for f in found]}")
    return found, public, unknown


def variant_cases(ctx, found, bvals, quick):
    """every discovered variant x expectation on/off x Bell tuples (all for n <= 2)"""
    cases = []
    for name, kind, params in found:
        if kind == "measure":
            continue
        for expect in (True, False):
            for live in ((0, []), (3, [1])):
                for n in (1, 2) if (quick or kind == "context") else (1, 2, 3):
                    tl = list(itertools.product(bvals, repeat=n))
                    if n == 3:
                        tl = ctx.rng.sample(tl, 16)
                    for tup in tl:
                        c = dict(cfg="api:" + name, variant=0, hardware="generic", call=name, post=False, seq=False,
                                 live=[live[0], list(live[1])], n=n, bells=list(tup), expect=expect, kind=kind)
                        if kind == "context":
                            c.update(no_model=True, n=1, bells=[tup[0]])
                        cases.append(c)
            if kind in ("keep", "rsp"):
                # the same variant on single-communication-qubit devices (generic with one qubit, NV, NV by swap)
                for hw, maxq, n in (("generic", 1, 1), ("nv", 2, 2), ("nvswap", 2, 2)):
                    for tup in itertools.product(bvals, repeat=n):
                        cases.append(dict(cfg="api:" + name, variant=2, hardware=hw, maxq=maxq, call=name, post=False,
                                          seq=False, live=[0, []], n=n, bells=list(tup), expect=expect, kind=kind))
    return cases


def exercise_unknown(ctx, ns, table, name):
    """A public method with an expect_phi_plus parameter that the frozen table does not know (new API).  Generic
    invocation with default arguments (and with only expect_phi_plus=False) on the scripted link layer: first with a
    keep-type response - qubit handles or a routine that consumes the pair get the Phi+ oracle (state read before the
    first non-correction gate / measurement on the pair's qubit) -, else with a measure-directly response and the
    default-Z post-processing oracle.  What cannot be interpreted is recorded as not exercised: never an obligation."""
    qc = ns.qc
    nrun, how = 0, None
    before = len(ctx.violations)
    for extra_kw in ({}, {"expect_phi_plus": False}):
        for b in qc.BellState:
            case = dict(cfg="unknown:" + name, hardware="generic", call=name, post=False, seq=False, live=[0, []], n=1,
                        bells=[b.value], expect=not extra_kw, kind="unknown", no_model=True, defaults=True,
                        extra_kw=dict(extra_kw), seed=nrun)
            case["variant"] = model_variant(case)
            res = run_keep(ctx.repo, ns, case)
            usable = (not res["error"] and not res.get("rejected") and res["fid"][0] is not None)
            if usable:
                how = "keep-type response: " + ("classical result (" + str(res.get("returned")) + "), pair read before its "
                                                "first non-correction gate / measurement" if res.get("classical") else
                                                "qubit handles, pair read after the call")
                nrun += 1
                ctx.note_case(("unknown:" + name, b.name, str(extra_kw)), nontrivial=b != qc.BellState.PHI_PLUS)
                judge(ctx, ns, table, case, res, [], [])
                continue
            # measure-directly interpretation
            ok_m = True
            for m in (0, 1):
                mc = dict(call=name, kw=dict(extra_kw), node=1, sock=0, own_node=0)
                d = dict(type=qc.ReturnType.OK_M.value, create_id=7, measurement_outcome=m, measurement_basis=qc.Basis.Z.value,
                         directionality_flag=1 if name.startswith("recv") else 0, sequence_number=0, purpose_id=0,
                         remote_node_id=1, goodness=5, bell_state=b.value)
                mc["resp"] = [[d[f] for f in qc.LinkLayerOKTypeM._fields]]
                try:
                    mres = ec.run_case(ctx.repo, ns, mc)
                    got = None if (mres.error or not mres.handles or len(mres.handles["meas"]) != 1) else mres.handles["meas"][0]
                except Exception:  # noqa
                    got = None
                if got is None or got.get("measurement_outcome") not in (0, 1):
                    ok_m = False
                    break
                nrun += 1
                how = "measure-directly response, default Z basis"
                expect = not extra_kw
                want = m ^ 1 if (expect and name.startswith("recv") and b.name in ("PSI_PLUS", "PSI_MINUS")) else m
                if got["measurement_outcome"] != want:
                    ctx.violation("a new measure-directly variant called with default arguments does not post-process as "
                                  "documented for expect_phi_plus", dict(variant=name, kw=dict(extra_kw), bell_state=b.name,
                                                                         raw_outcome=m, expected=want,
                                                                         observed=got["measurement_outcome"]), key=None)
            if not ok_m and how is None:
                ctx.coverage.setdefault("unknown_api", {})[name] = (
                    "not exercised: the generic invocation with default arguments could not be interpreted (" +
                    str(res["error"] or res.get("rejected") or "no qubit handle, no measurement of the pair")[:160] + ")")
                return 0
    ctx.coverage.setdefault("unknown_api", {})[name] = (
        f"new method with expect_phi_plus, exercised generically ({how}): {nrun} runs x all Bell states x default / "
        f"expectation off, {len(ctx.violations) - before} violations")
    return nrun


def default_argument_cases(ctx, found, public, bvals):
    """every discovered variant, and every other public keep-type call, with DEFAULT arguments only (nothing is said
    about the expectation, the number, a post routine ...).  The documented default behaviour is required, taken from
    the docstrings (ec.DOCUMENTED_DEFAULTS), not from the signature under test: one pair, no post routine, and for a
    receiver the pair ends in Phi+ (corrections are applied unless switched off); a creator corrects nothing."""
    cases = []
    names = [(n, k) for n, k, _ in found if k in ("keep", "rsp")]
    for extra in ("recv", "create", "create_keep", "create_keep_with_info"):
        if extra in public:
            names.append((extra, "keep"))
    for name, kind in names:
        for hw, maxq, live in (("generic", None, (0, [])), ("generic", None, (3, [1])), ("nv", 2, (0, [])), ("generic", 1, (0, []))):
            for b in bvals:
                c = dict(cfg="defaults:" + name, hardware=hw, call=name, post=False, seq=False, live=[live[0], list(live[1])],
                         n=1, bells=[b], expect=True, kind=kind, defaults=True)
                if maxq:
                    c["maxq"] = maxq
                cases.append(c)
    return cases


def measure_statistics_through_api(ctx, ns):
    """Part (d) as an application sees it: the creator calls create_measure(basis_local=B, basis_remote=B), the
    receiver calls recv_measure(...) on ITS socket (stating the bases if - and only as far as - the public API lets
    it), the link layer delivers B_b and the raw outcomes.  The joint distribution of (receiver's post-processed
    outcome, creator's outcome) must be that of measuring Phi+ in basis B on both sides.  All 6 named bases x 4 Bell
    states; the raw-outcome distribution comes from the state-vector oracle."""
    from netqasm.sdk.epr_socket import EPRSocket
    qc = ns.qc
    accepted = inspect.signature(EPRSocket.recv_measure).parameters
    can_state = "basis_local" in accepted and "basis_remote" in accepted
    ctx.coverage["recv_measure_can_state_bases"] = can_state
    phi = bellvec("PHI_PLUS")
    nrun = 0
    for bname, r in ec.SPEC_BASIS_ROT.items():
        R = rotm("x", r[2]) @ rotm("y", r[1]) @ rotm("x", r[0])
        RR = np.kron(R, R)
        ref = np.abs(RR @ phi) ** 2
        # creator: raw outcomes are handed out as they are
        cre = {}
        for m in (0, 1):
            case = dict(call="create_measure", kw=dict(number=1, basis_local=bname, basis_remote=bname), node=1, sock=0,
                        own_node=0)
            d = dict(type=qc.ReturnType.OK_M.value, create_id=7, measurement_outcome=m, measurement_basis=qc.Basis.Z.value,
                     directionality_flag=0, sequence_number=0, purpose_id=0, remote_node_id=1, goodness=5,
                     bell_state=qc.BellState.PSI_MINUS.value)
            case["resp"] = [[d[f] for f in qc.LinkLayerOKTypeM._fields]]
            res = ec.run_case(ctx.repo, ns, case)
            nrun += 1
            cre[m] = None if (res.error or not res.handles) else res.handles["meas"][0]["measurement_outcome"]
        if cre != {0: 0, 1: 1}:
            ctx.violation("measure-directly: the creator's outcome handle does not return the raw outcome",
                          dict(call="create_measure", basis=bname, outcomes=cre), key=None)
        for b in qc.BellState:
            tab = {}
            for m in (0, 1):
                kw = dict(number=1, expect_phi_plus=True)
                if can_state:
                    kw.update(basis_local=bname, basis_remote=bname)
                case = dict(call="recv_measure", kw=kw, node=1, sock=0, own_node=0)
                d = dict(type=qc.ReturnType.OK_M.value, create_id=7, measurement_outcome=m,
                         measurement_basis=qc.Basis.Z.value, directionality_flag=1, sequence_number=0, purpose_id=0,
                         remote_node_id=1, goodness=5, bell_state=b.value)
                case["resp"] = [[d[f] for f in qc.LinkLayerOKTypeM._fields]]
                res = ec.run_case(ctx.repo, ns, case)
                nrun += 1
                tab[m] = None if (res.error or not res.handles) else res.handles["meas"][0]["measurement_outcome"]
            ctx.note_case(("api-stat", bname, b.name), nontrivial=b != qc.BellState.PHI_PLUS)
            replay = dict(creator_call=f"create_measure(basis_local={bname}, basis_remote={bname})",
                          receiver_call="recv_measure(" + ", ".join(f"{k}={v}" for k, v in kw.items()) + ")",
                          basis=bname, rotations=list(r), bell_state=b.name, receiver_outcome_raw_to_handle=tab)
            if tab[0] not in (0, 1) or tab[1] not in (0, 1):
                ctx.violation("measure-directly receive raised / gave no outcome", replay, key=None)
                continue
            dist = np.abs(RR @ bellvec(b.name)) ** 2      # (receiver raw, creator raw), receiver's qubit first
            post = np.zeros(4)
            for ml in (0, 1):
                for mr in (0, 1):
                    post[2 * tab[ml] + mr] += dist[2 * ml + mr]
            if np.max(np.abs(post - ref)) > 1e-9:
                replay.update(joint_distribution_seen_by_the_applications=post.round(6).tolist(),
                              joint_distribution_phi_plus=ref.round(6).tolist())
                ctx.violation("measure-directly through the socket API: the outcomes the two applications see do not have "
                              "the joint statistics of Phi+ in the requested basis", replay, key=None)
    return nrun


def measure_default_runs(ctx, ns, found):
    """the measure-directly variants called with default arguments: the documented default (expectation on, Z basis)"""
    qc = ns.qc
    nrun = 0
    for name, kind, params in found:
        if kind != "measure":
            continue
        for b in qc.BellState:
            for m in (0, 1):
                case = dict(call=name, kw={}, node=1, sock=0, own_node=0)
                d = dict(type=qc.ReturnType.OK_M.value, create_id=7, measurement_outcome=m, measurement_basis=qc.Basis.Z.value,
                         directionality_flag=1, sequence_number=0, purpose_id=0, remote_node_id=1, goodness=5,
                         bell_state=b.value)
                case["resp"] = [[d[f] for f in qc.LinkLayerOKTypeM._fields]]
                res = ec.run_case(ctx.repo, ns, case)
                nrun += 1
                ctx.note_case(("defaults:" + name, b.name, m), nontrivial=b != qc.BellState.PHI_PLUS)
                want = m ^ 1 if b.name in ("PSI_PLUS", "PSI_MINUS") else m
                got = None if (res.error or not res.handles or not res.handles["meas"]) else res.handles["meas"][0]
                if got is None or got["measurement_outcome"] != want or got["post_process"] is not True:
                    ctx.violation("measure-directly receive called with default arguments does not behave as documented "
                                  "(expectation on: the outcome looks like a Phi+ outcome)",
                                  dict(variant=name, call=name + "()", bell_state=b.name, raw_outcome=m, expected=want,
                                       observed=None if got is None else [got["measurement_outcome"], got["post_process"]],
                                       error=res.error), key=None)
    return nrun


def measure_variant_runs(ctx, ns, found, quick):
    """measure-directly variants taking expect_phi_plus: with the expectation off the handle returns the
    raw outcome; with it on (default Z basis on both sides) the outcome is flipped exactly for the states in which
    the two Z outcomes are anti-correlated (PSI_PLUS, PSI_MINUS), i.e. it looks like Phi+ (m_local == m_remote)."""
    qc = ns.qc
    nrun = 0
    for name, kind, params in found:
        if kind != "measure":
            continue
        for expect, fmt in itertools.product((True, False), ("native", "qlink_enum", "qlink_int")):
            for n in (1, 2):
                for tup in itertools.product([m.value for m in qc.BellState], repeat=n):
                    allouts = list(itertools.product((0, 1), repeat=n))
                    for outs in (allouts if (n == 1 or not quick) else [ctx.rng.choice(allouts)]):
                        case = dict(call=name, kw=dict(number=n, expect_phi_plus=expect), node=1, sock=0, own_node=0,
                                    resp_format=fmt)
                        resp = []
                        for i in range(n):
                            d = dict(type=qc.ReturnType.OK_M.value, create_id=7 + i, measurement_outcome=outs[i],
                                     measurement_basis=qc.Basis.Z.value, directionality_flag=1, sequence_number=i,
                                     purpose_id=0, remote_node_id=1, goodness=5 + i, bell_state=tup[i])
                            resp.append([d[f] for f in qc.LinkLayerOKTypeM._fields])
                        case["resp"] = resp
                        res = ec.run_case(ctx.repo, ns, case)
                        nrun += 1
                        ctx.note_case(("api:" + name, tuple(tup), outs, expect, fmt),
                                      nontrivial=any(b != qc.BellState.PHI_PLUS.value for b in tup))
                        replay = dict(variant=name, expect_phi_plus=expect, response_format=fmt,
                                      bells=[qc.BellState(b).name for b in tup],
                                      raw_outcomes=list(outs), error=res.error,
                                      observed=[(h.get("measurement_outcome"), h.get("post_process"))
                                                for h in (res.handles or {}).get("meas", [])])
                        if res.error or not res.handles or len(res.handles["meas"]) != n:
                            ctx.violation("the measure-directly receive raised / returned no handles", replay, key=None)
                            continue
                        for i, h in enumerate(res.handles["meas"]):
                            anti = qc.BellState(tup[i]).name in ("PSI_PLUS", "PSI_MINUS")
                            want = outs[i] ^ 1 if (expect and anti) else outs[i]
                            if h["measurement_outcome"] != want or h["post_process"] != expect:
                                what = ("measure-directly outcome is post-processed although the expectation is switched off"
                                        if not expect else
                                        "measure-directly outcome does not look like a Phi+ outcome although Phi+ was asked for")
                                ctx.violation(what, replay, key=None)
                                break
    return nrun


def tuples(ctx, bvals, n, quick):
    allt = list(itertools.product(bvals, repeat=n))
    if n <= 2 or not quick:
        return allt
    k = 6 if n == 3 else 5
    return ctx.rng.sample(allt, k)


def run(ctx):
    import codec_impl as ci
    import epr_tables

    import logging
    logging.disable(logging.WARNING)   # the deprecated create()/recv() wrappers warn on every call
    t0 = time.time()
    ctx.rule = ("real recv_keep/recv_rsp/create_keep through the in-process pipeline with the state-vector executor and "
                "scripted K responses: n = 1..4 x Bell-state tuples (quick: all tuples for n <= 2, sampled for n = 3/4; "
                "thorough: all 4+16+64+256) x request shapes (no post routine, post routine, sequential, rsp) x sets of live "
                "qubits before the request (0..2 extra qubits shifting the IDs AND sets with holes: allocate 3-4, free some in "
                "the middle) on generic hardware; x hardware configurations (generic with 1 and 2 qubits, NV with 2, 3, n "
                "qubits, generic config with the NV transpiler selected) - the model variant (wait-all loop / post-routine / "
                "move-to-memory) is derived from 'one communication qubit?'; expectation off and the creator role on all "
                "tuples n <= 2 (+ sampled); responses as netqasm tuples and as qlink-interface 1.0 objects with the Bell state "
                "as enum member and as plain int; additionally EVERY public "
                "EPRSocket method whose signature takes expect_phi_plus (discovered by inspect.signature, fail-closed) x "
                "expectation on/off x all Bell tuples n <= 2 (thorough: + 16 sampled n = 3) x 0/1 extra qubit, the "
                "measure-directly variant x all tuples x all raw outcomes.  non-trivial = at least one "
                "pair not delivered in Phi+; distinct = distinct (configuration, extra, tuple)")
    ok, err = ctx.gen("epr_tables.py", "Gen_Epr.v")
    ctx.gen_obligation("translator epr_tables.py understands the source", ok, err.strip()[-400:])
    ns = ec.load(ctx.repo)
    coq_ok = False
    if ok:
        r = ctx.coqc("Gen_Epr.v")
        ctx.gen_obligation("Gen_Epr.v type-checks", r.ok, r.err[-300:])
        if r.ok:
            coq_ok = True
            ctx.props("C10")
    # parts (a) and (d) over the exact ring K32: regenerated Bell tables + props/C10_ring.v
    # (its theorems are added to this check's obligations; numpy oracle with concrete state/basis)
    import c10_ring
    c10_ring.run_ring(ctx)
    ctx.notes.append("exact-ring theorems for (a)/(d): coq/props/C10_ring.v compiled in this check against the "
                     "regenerated Gen_Bell.v (C10_bell_fix, C10_bell_only, C10_postprocess_stats, ...)")
    ctx.trusted += [
        "gen/epr_tables.py: Bell state -> gates table recorded by executing the real correction code for every "
        "BellState value (and one non-member); EprMeasureResult.measurement_outcome evaluated on 6 bases x 4 states x 2 "
        "outcomes; SER_RESPONSE_KEEP_* / OK_FIELDS constants",
        "harness/sdk_pipeline.py SvExecutor (numpy state vector, gate matrices written from the mnemonics' definitions, "
        "Bell pair created in the state named by the response, modelled remote partner)",
        "numpy linear algebra with tolerance 1e-9 as the implementation-side oracle for parts (a) and (d); the theorems for (a)/(d) are exact (ring K32, props/C10_ring.v)",
    ]
    ctx.assume += [
        "the link-layer response names the Bell state the pair really is in (local qubit first)",
        "the remote node leaves its half untouched (the receiver corrects)",
        "the user's post routine is q.measure(); the pair's fidelity is read just before that measurement",
        "recv_context/create_context emit no corrections and offer no expect_phi_plus switch: outside this property "
        "(recorded as an observation in design/C10.md)",
        "labels, register allocation and the assembler's constant materialisation are not part of the emitted-code "
        "model (C03/C05); the model is tied to the real code by the gate-trace correspondence",
    ]
    try:
        t = epr_tables.tables(ctx.repo)
        table = numeric_tables(ctx, t)
    except Exception as e:  # noqa
        ctx.gen_obligation("regenerated tables usable by the numeric oracle", False, repr(e)[:300])
        t = None
        # the classification of the recorded wait-all class still needs the gates the code applies
        table = {m.value: epr_tables.probe_corrections(ctx.repo, m.value) for m in ns.qc.BellState}
    quick = ctx.tier == "quick"
    bvals = [m.value for m in ns.qc.BellState]
    phi_plus = ns.qc.BellState.PHI_PLUS.value
    tcases, tmeta = [], []
    dist = {}
    cases = []
    # corpus first
    corpus_dir = os.path.join(os.path.dirname(os.path.dirname(os.path.dirname(os.path.abspath(__file__)))), "corpus", "C10")
    if os.path.isdir(corpus_dir):
        for fn in sorted(os.listdir(corpus_dir)):
            if fn.endswith(".json"):
                cases.append(json.load(open(os.path.join(corpus_dir, fn)))["case"])
    def add(c):
        if c is not None:
            cases.append(c)

    def some(n, k3=6, k4=5):
        allt = list(itertools.product(bvals, repeat=n))
        if n <= 2 or not quick:
            return allt
        return ctx.rng.sample(allt, k3 if n == 3 else k4)

    # (i) generic hardware with room: every request shape x live-qubit sets (shifted IDs and IDs with holes)
    for shape in SHAPES + [RSP]:
        for live in (LIVE_FULL if shape[0] == "plain" else LIVE):
            for n in (1, 2, 3, 4):
                for tup in some(n):
                    add(mk_case(shape, "generic", None, live, n, tup))
    # (ii) hardware configurations
    for hw, maxq in HARDWARE:
        for shape in SHAPES + [RSP]:
            lives = [(0, [])] + ([(1, [])] if (hw, maxq) == ("generic", 2) else [])
            for live in lives:
                for n in (1, 2, 3, 4):
                    for tup in some(n, 4, 3):
                        add(mk_case(shape, hw, maxq, live, n, tup))
    # (iii) expectation off / creator role
    for shape in SHAPES + [RSP]:
        for n in (1, 2) if quick else (1, 2, 3):
            tl = some(n) if n < 3 else ctx.rng.sample(list(itertools.product(bvals, repeat=3)), 16)
            for tup in tl:
                add(mk_case(shape, "generic", None, (3, [1]), n, tup, expect=False))
                if shape is not RSP:
                    add(mk_case(shape, "nv", None, (0, []), n, tup, expect=False))
                    if n <= 2:
                        add(mk_case(shape, "generic", 1, (0, []), n, tup, expect=False))
                        add(mk_case(shape, "nvswap", 3, (0, []), n, tup, expect=False))
    for shape in SHAPES:
        cshape = (shape[0], "create_keep", shape[2], shape[3])
        for n in (1, 2):
            for tup in some(n):
                add(mk_case(cshape, "generic", None, (1, []), n, tup))
                add(mk_case(cshape, "nv", None, (0, []), n, tup))
                add(mk_case(cshape, "generic", 1, (0, []), n, tup))
    # (iv) the same responses as qlink-interface 1.0 objects, Bell state as enum member and as plain int
    for fmt in ("enum", "int"):
        for shape in SHAPES:
            for hw in ("generic", "nv"):
                for n in (1, 2):
                    for tup in some(n):
                        add(mk_case(shape, hw, None, (0, []), n, tup, qlink=fmt))
    # (v) argument combinations decoupled: sequential x post routine x number x expectation x min-fidelity loop,
    # independently, on several devices; the API's own validation decides what is legal
    nonphi = [v for v in bvals if v != phi_plus]
    for call in ("recv_keep", "recv_keep_with_info", "create_keep"):
        for seq, post, n, minfid in itertools.product((False, True), (False, True), (1, 2, 3), (False, True)):
            for expect in ((True, False) if call.startswith("recv") else (True,)):
                for hw, maxq in (("generic", None), ("generic", 1), ("generic", 2), ("nv", None)):
                    allt = [t for t in itertools.product(bvals, repeat=n) if any(b != phi_plus for b in t)]
                    k = (2 if n == 1 else 1) if quick else (3 if n == 1 else 6)
                    for tup in ctx.rng.sample(allt, min(k, len(allt))):
                        c = dict(cfg="args", hardware=hw, call=call, post=post, seq=seq, live=[0, []], n=n,
                                 bells=list(tup), expect=expect)
                        if maxq:
                            c["maxq"] = maxq
                        if minfid:
                            c["minfid"] = True
                        if hw == "generic" and maxq is None and n + 1 > 0:
                            c["maxq"] = max(2, n + 1)
                        cases.append(c)
    found, public, unknown_methods = discover_expect_variants(ctx)
    ctx.coverage["expect_phi_plus_variants"] = [f[0] for f in found]
    ctx.coverage["public_epr_socket_methods"] = public
    cases += variant_cases(ctx, found, bvals, quick)
    cases += default_argument_cases(ctx, found, public, bvals)
    methods, diffs, unknown_api = ec.signature_defaults_report()
    ctx.gen_obligation("every documented (method, parameter) of the public create*/recv* methods of EPRSocket has the "
                       "documented default (frozen table, compared with inspect.signature)", not diffs and bool(methods),
                       "; ".join(diffs))
    ctx.coverage["signature_defaults_checked"] = methods
    for u in unknown_api:     # new API is not evidence against the property: recorded, exercised where possible
        ctx.coverage.setdefault("unknown_api", {})[u] = "not in the frozen table of documented signatures (recorded only)"
    for name in unknown_methods:
        dist["unknown:" + name] = exercise_unknown(ctx, ns, table, name)
    nmeas = measure_variant_runs(ctx, ns, found, quick)
    nmeas += measure_statistics_through_api(ctx, ns)
    nmeas += measure_default_runs(ctx, ns, found)
    dist["api:measure-directly runs"] = nmeas
    for k, case in enumerate(cases):
        case.setdefault("seed", k)
        case["variant"] = model_variant(case)
        res = run_keep(ctx.repo, ns, case)
        key = (case["cfg"], case["hardware"], case.get("maxq"), case["call"], str(live_of(case)), tuple(case["bells"]),
               case["expect"], str(case.get("qlink")))
        ctx.note_case(key, nontrivial=any(bv != phi_plus for bv in case["bells"]))
        tag = (f"{case['cfg']}/{case['hardware']}{case.get('maxq') or ''}/{case['call']}" +
               ("" if case["expect"] else "/expect-off") + (f"/qlink-{case['qlink']}" if case.get("qlink") else ""))
        hk = "live" + str(live_of(case))
        dist[hk] = dist.get(hk, 0) + 1
        dist[tag] = dist.get(tag, 0) + 1
        dist["n=%d" % case["n"]] = dist.get("n=%d" % case["n"], 0) + 1
        judge(ctx, ns, table, case, res, tcases, tmeta)
    ctx.log(f"{len(cases)} pipeline runs in {time.time() - t0:.1f}s")
    ctx.coverage["stream_distribution"] = dist
    ctx.samples = [strip(c) for c in cases[:1] + cases[len(cases) // 3:len(cases) // 3 + 2] + cases[-2:]]
    # recv_context observation (not part of the verdict)
    try:
        obs = observe_context(ctx, ns)
        ctx.notes.append(obs)
    except Exception as e:  # noqa
        ctx.notes.append("recv_context observation failed: " + repr(e)[:120])
    # correspondence: model trace == observed trace
    nmis, first = 0, None
    if coq_ok and os.path.exists(os.path.join(ctx.build, "Gen_Epr.vo")):
        files = {}
        shard = 300
        for k in range(0, max(1, len(tcases)), shard):
            fn = f"cases_t_{k // shard}.v"
            with open(os.path.join(ctx.build, fn), "w") as f:
                f.write(HEADER)
                f.write("Definition cs : list tcase :=\n [" + ";\n  ".join(tcases[k:k + shard]) + "].\n")
                f.write("Eval vm_compute in (failing (check_tcase gen_bp gen_EXEC_OK_FIELDS bell_pos) cs).\n")
            files[fn] = k
        for fn, r in ctx.run_case_files(list(files)).items():
            if not r.ok:
                ctx.gen_obligation(f"correspondence file {fn} evaluates", False, r.err[-300:])
                continue
            fl = ci.parse_failing(r.out)
            if len(fl) != 1:
                ctx.gen_obligation(f"correspondence file {fn} output parsed", False, r.out[-300:])
                continue
            for i in fl[0]:
                nmis += 1
                first = first or tmeta[files[fn] + i]
        ctx.coverage["model_impl_mismatches"] = nmis
        ctx.coverage["correspondence_cases"] = len(tcases)
    real = [v for v in ctx.violations if v["key"] != KNOWN_WAITALL]
    if nmis and not real:
        ctx.broken.append(f"correspondence EprBuild (code_W/code_P/code_M gate events) vs the executed subroutine: {nmis} "
                          f"differing traces, first: {json.dumps(first)[:400]}")
    undis = [n for n, okk in ctx.obligations if not okk]
    if (ctx.broken or undis) and not real:
        # the whole stream (all tuples n <= 2 for every variant, see above) went through the oracle and
        # nothing but the recorded class failed: name what no longer checks (vlib would stay silent
        # because the known-finding replay counts as a violation there)
        ctx.violation("obligation no longer checks: " + "; ".join(ctx.broken or undis),
                      dict(broken=ctx.broken, undischarged=undis), key=None, found_input=False)
    ctx.finish()


def observe_context(ctx, ns):
    from sdk_pipeline import Pipeline
    qc = ns.qc
    pipe = Pipeline(ctx.repo, executor="sv")
    sock = pipe.epr_socket("Bob")
    pipe.responses = [qc.LinkLayerOKTypeK(qc.ReturnType.OK_K, 3, 10, 1, 0, 0, 1, 40, 50, qc.BellState.PSI_PLUS)]
    with pipe.connection(epr_sockets=[sock]) as conn:
        with sock.recv_context(number=1) as (q, pair):
            q.measure()
        conn.flush()
    tr = canon_trace(pipe.gate_trace())
    return "observation: recv_context(1) with PSI_PLUS delivered -> events " + json.dumps(tr)


def replay(ctx, path):
    rec = json.load(open(path))
    case = rec["replay"]["case"] if "replay" in rec else rec["case"]
    import epr_tables
    ns = ec.load(ctx.repo)
    t = epr_tables.tables(ctx.repo)
    table = dict(t["bell_paulis"])
    case.setdefault("seed", 0)
    res = run_keep(ctx.repo, ns, case)
    print("replay:", json.dumps(strip(case)))
    print("ids:", res["ids"], "trace:", res["trace"])
    print("fidelity with Phi+ per pair:", res["fid"], "error:", res["error"])
    judge(ctx, ns, table, case, res, [], [])
    ctx.note_case("replay")
    ctx.finish()
