"""C17 — printed assembly parses back to the same instruction."""
import json

import asm_common as ac
import codec_impl as ci
import codec_tables as ct


def gen_instrs(ctx, impl, n_rand):
    """[(flavour, [class, leaves], tag)]: every class x each leaf at its boundary values
    + random in-range valuations + a few values outside the encodable range"""
    rng = ctx.rng
    out = []
    for fname in ac.FLAVS:
        for row in impl.ct["flavours"][fname]["rows"]:
            out.append((fname, list(ci.distinct_field_instr(rng, row)), "distinct"))
            rs = ci.leaf_ranges(row)
            for j, (lo, hi) in enumerate(rs):
                for v in ci.boundary_values(lo, hi):
                    name, lv = ci.distinct_field_instr(rng, row)
                    lv[j] = v
                    out.append((fname, [name, lv], "boundary"))
            for _ in range(n_rand):
                out.append((fname, list(ci.gen_in_range_instr(rng, row)), "random"))
            # integers the binary encoding cannot hold still print and parse (register banks stay valid)
            wide = [j for j, (lo, hi) in enumerate(rs) if hi > 15]
            if wide:
                name, lv = ci.gen_in_range_instr(rng, row)
                lv[rng.choice(wide)] = rng.choice([2 ** 31, -(2 ** 31) - 1, 10 ** 20, -(10 ** 12), 256, 4294967296])
                out.append((fname, [name, lv], "wide"))
            # instructions annotated with the host application line (lineno=HostLine(...))
            for _ in range(2):
                out.append((fname, list(ci.gen_in_range_instr(rng, row)), "lineno", None, None, rng.randint(1, 400)))
    return out


def operand_slices(row):
    """[(first leaf, number of leaves)] per operand of the class"""
    out, i = [], 0
    for k in row["kinds"]:
        out.append((i, ct.NLEAVES[k]))
        i += ct.NLEAVES[k]
    return out


def gen_mutations(ctx, impl, n_rand):
    """[(flavour, [class, leaves before], 'mutated', [leaves after], [changed operand indices])]:
    print -> assign new operands to fields of the SAME object -> print.  Per class: each operand
    field alone (so every operand kind of every class is covered), all fields at once, random subsets."""
    rng = ctx.rng
    out = []
    for fname in ac.FLAVS:
        for row in impl.ct["flavours"][fname]["rows"]:
            sl = operand_slices(row)
            if not sl:
                continue
            plans = [[j] for j in range(len(sl))] + [list(range(len(sl)))]
            for _ in range(n_rand):
                plans.append(sorted(rng.sample(range(len(sl)), rng.randint(1, len(sl)))))
            rs = ci.leaf_ranges(row)
            for plan in plans:
                name, before = ci.gen_in_range_instr(rng, row)
                _, fresh = ci.gen_in_range_instr(rng, row)
                after = list(before)
                for j in plan:
                    a, n = sl[j]
                    after[a:a + n] = fresh[a:a + n]
                    if after[a:a + n] == before[a:a + n]:  # must really change: move the last leaf inside its range
                        lo, hi = rs[a + n - 1]
                        after[a + n - 1] = before[a + n - 1] + 1 if before[a + n - 1] < hi else before[a + n - 1] - 1
                out.append((fname, [name, list(before)], "mutated", after, plan,
                            rng.randint(1, 400) if rng.random() < 0.2 else None))
    return out


def parse_back(impl, fname, instr, text):
    """-> (ok, view of the single parsed instruction or None, error name)"""
    try:
        sub = impl.text.parse_text_subroutine(ac.HEADER + text + "\n", flavour=impl.flav[fname])
        instrs = list(sub.instructions)
    except Exception as e:  # refusal to parse
        return False, None, type(e).__name__
    ok = instrs == [instr] if instr.lineno is None else same_modulo_lineno(impl, instrs, instr)
    return ok, (impl.view_instr(instrs[0]) if len(instrs) == 1 else None), None


def assign_operands(impl, fname, instr, name, after, plan):
    """instr.<operand field> = new operand, for the operand indices in plan (same object)"""
    row = impl.rows[fname][name]
    fields, kinds = ct.operand_fields(row["cls"])
    RN = impl.encoding.RegisterName
    for j in plan:
        a, n = operand_slices(row)[j]
        lv = after[a:a + n]
        old = getattr(instr, fields[j])
        if kinds[j] in ("KEntry", "KSlice") and (a + n + j) % 2 == 0:
            # change the FIELDS of the operand object in place (as the assembler does when it materialises an index)
            old.address = impl.operand.Address(lv[0])
            if kinds[j] == "KEntry":
                old.index = impl.operand.Register(RN(lv[1]), lv[2])
            else:
                old.start = impl.operand.Register(RN(lv[1]), lv[2])
                old.stop = impl.operand.Register(RN(lv[3]), lv[4])
        else:
            setattr(instr, fields[j], ct.mk_operand(impl.operand, impl.encoding, kinds[j], lv))


def host_line(impl, n):
    from netqasm.util.log import HostLine
    return HostLine("app_alice.py", n)


def same_modulo_lineno(impl, instrs, instr):
    """[instr] up to the optional host line annotation (the text does not carry it)"""
    return len(instrs) == 1 and type(instrs[0]) is type(instr) and impl.view_instr(instrs[0]) == impl.view_instr(instr)


def run_one(impl, fname, p, after=None, plan=None, lineno=None):
    """-> dict(instr, str, back, ok).  With after/plan: the object is printed and parsed, then its
    operand fields are assigned in place, and the SECOND print / parse is what is reported
    (instr = the operands the object holds now)."""
    instr = impl.build_instr(fname, p[0], p[1])
    if lineno is not None:
        # the SDK (LogConfig.track_lines) and the NV transpiler attach the host application line
        instr.lineno = host_line(impl, lineno)
    s = str(instr)
    ok, back, err = parse_back(impl, fname, instr, s)
    if after is None or not ok:
        return dict(instr=p, str=s, back=back, ok=ok, err=err, lineno=lineno)
    assign_operands(impl, fname, instr, p[0], after, plan)
    now = impl.view_instr(instr)
    s2 = str(instr)
    ok2, back2, err2 = parse_back(impl, fname, instr, s2)
    fresh = str(impl.build_instr(fname, p[0], after))
    return dict(lineno=lineno, instr=[p[0], list(after)], str=s2, back=back2,
                ok=ok2 and s2 == fresh and now == [p[0], list(after)],
                err=err2, before=p, first_print=s, changed_operands=plan, fresh_print=fresh, holds_now=now)


def stable_oracle(impl, fname, body, muts=None, reader=None, poison=None, linenos=None):
    """text -> binary -> text for a whole subroutine; None if it holds, else a description.
    muts = {position: (leaves after, changed operand indices)}: the instruction objects are printed
    once, changed in place, and the subroutine is printed again before the round trip.
    reader: a long-lived Deserializer object reused across calls (besides the module-level deserialize());
    poison: a buffer the reader must reject right before (unknown opcode for the flavour / truncated)."""
    instrs = [impl.build_instr(fname, n, lv) for n, lv in body]
    for k in (linenos or {}):
        instrs[k].lineno = host_line(impl, linenos[k])
    lines = [str(i) for i in instrs]
    first = None
    if muts:
        first = lines
        for k, (after, plan) in muts.items():
            assign_operands(impl, fname, instrs[k], body[k][0], after, plan)
        lines = [str(i) for i in instrs]
        expect = [str(impl.build_instr(fname, body[k][0], muts[k][0] if k in muts else body[k][1])) for k in range(len(body))]
        if lines != expect:
            return dict(first_print=first, second_print=lines, expected=expect)
    try:
        sub = impl.text.parse_text_subroutine(ac.HEADER + "\n".join(lines) + "\n", flavour=impl.flav[fname])
        if (muts or linenos) and [impl.view_instr(i) for i in sub.instructions] != [impl.view_instr(i) for i in instrs]:
            return dict(first_print=first, second_print=lines, error="parsed subroutine differs from the objects")
        raw = bytes(sub)
        back = impl.deserialize(raw, flavour=impl.flav[fname])
        lines2 = [str(i) for i in back.instructions]
    except Exception as e:
        return dict(lines=lines, error=type(e).__name__ + ": " + str(e)[:200])
    if lines2 != lines:
        return dict(lines=lines, after=lines2)
    if reader is not None:
        rejected = None
        if poison is not None:
            try:
                reader.deserialize_subroutine(bytes(poison))
                rejected = False
            except Exception:  # the reader refuses the bad message
                rejected = True
        try:
            back3 = reader.deserialize_subroutine(raw)
            lines3 = [str(i) for i in back3.instructions]
        except Exception as e:
            return dict(lines=lines, long_lived_reader_error=type(e).__name__ + ": " + str(e)[:200],
                        previous_message_rejected=rejected, poison=list(poison) if poison is not None else None)
        if lines3 != lines:
            return dict(lines=lines, after_long_lived_reader=lines3, previous_message_rejected=rejected,
                        poison=list(poison) if poison is not None else None)
    return None


def poison_buffer(rng, impl, fname, raw):
    """a message the flavour's deserializer must reject: an opcode the flavour does not have in a later
    command, or a truncated buffer"""
    raw = bytearray(raw)
    ids = {r["id"] for r in impl.ct["flavours"][fname]["rows"]}
    unknown = [i for i in range(256) if i not in ids]
    ncmd = (len(raw) - 4) // 7
    if ncmd >= 1 and rng.random() < 0.6:
        raw[4 + 7 * rng.randrange(ncmd)] = rng.choice(unknown)
        return bytes(raw)
    return bytes(raw[: len(raw) - rng.randint(1, 6)]) if len(raw) > 10 else bytes(raw) + b"\x00\x01"


def path_stage(ctx, impl, n):
    """the real path: source text (or ICmd objects) -> ProtoSubroutine, which is FORMATTED (as the connection does for
    its debug log on every compile()/flush()) -> assemble_subroutine (which rewrites literal indices in place) ->
    every instruction of the assembled subroutine: str(instr) vs the model printer, and parse(str(instr)) == [instr]"""
    import asm_gen as ag
    rng = ctx.rng
    per = {f: [] for f in ac.FLAVS}
    n_prog = 0
    for _ in range(n):
        fname = rng.choice(ac.FLAVS)
        rows = impl.ct["flavours"][fname]["rows"]
        prog = ag.gen_exec_prog(rng, max_len=8) if rng.random() < 0.6 else ag.gen_any_prog(rng, rows, max_len=8)
        try:
            if rng.random() < 0.5:
                text = "\n".join(["# NETQASM 1.0", "# APPID 0"] + ac.render_text(rng, prog)) + "\n"
                proto = impl.text.parse_text_protosubroutine(text)
                src = dict(text=text)
            else:
                proto = impl.mk_proto(prog)
                src = dict(prog=prog)
            formatted = [str(proto)] + [str(c) for c in proto.commands]  # noqa: F841  (debug-log formatting)
            sub = impl.text.assemble_subroutine(proto, flavour=impl.flav[fname])
        except Exception:  # the program is rejected: nothing printed
            continue
        n_prog += 1
        for k, instr in enumerate(sub.instructions):
            text = str(instr)
            instr_plain = instr
            ok, back, err = parse_back(impl, fname, instr_plain, text)
            view = impl.view_instr(instr)
            r = dict(instr=view, str=text, back=back, ok=ok, err=err, tag="assembled-after-formatting", flavour=fname,
                     source=src, line=k)
            per[fname].append(r)
            ctx.note_case((fname, "path", view[0], tuple(view[1]), text), nontrivial=True)
            if not ok:
                ctx.violation("an instruction of a subroutine assembled from a ProtoSubroutine that had been formatted "
                              "prints text that does not parse back to it",
                              dict(flavour=fname, line=k, cls=view[0], operands=view[1], printed=text, parsed_back=back,
                                   err=err, **src), key=None)
    bad = ac.run_sharded(ctx, ac.write_pcase_file, per, 400, "path")
    n_instr = sum(len(v) for v in per.values())
    ctx.coverage["assembled_after_formatting"] = dict(programs=n_prog, instructions=n_instr, differences=len(bad))
    if bad and not ctx.violations:
        (f, i), code = sorted(bad.items())[0]
        ctx.broken.append(f"correspondence Text.pp_instr / parse_line on assembled instructions (code {code}): "
                          f"{json.dumps(per[f][i])[:500]}")


def evaluate(ctx, impl, items, prefix):
    per = {f: [] for f in ac.FLAVS}
    meta = {f: [] for f in ac.FLAVS}
    for it in items:
        fname, p, tag = it[:3]
        r = run_one(impl, fname, p, *it[3:])
        r["tag"], r["flavour"] = tag, fname
        per[fname].append(r)
        meta[fname].append(r)
    bad = ac.run_sharded(ctx, ac.write_pcase_file, per, 400, prefix)
    return [r for f in ac.FLAVS for r in meta[f]], [(meta[f][i], code) for (f, i), code in sorted(bad.items())]


def run(ctx):
    ctx.rule = ("per flavour: every class x (pairwise-distinct operands, each operand leaf at its boundary values, random "
                "in-range valuations, integers beyond the encodable range); str(instr) is compared with the model printer and "
                "parse_text_subroutine(str(instr), flavour) with the model parser; oracle: the parsed subroutine is exactly "
                "[instr]; the same after print -> assign new operands to dataclass fields of the SAME object (each operand "
                "field of each class alone, all at once, random subsets) -> print, where the second text must be the text of "
                "the current operands; plus random in-range sequences (len 1..25) through text -> binary -> text, half of "
                "them printed twice around in-place changes of 1..3 instructions, every one also decoded by ONE long-lived "
                "Deserializer object per flavour that is fed rejected messages (unknown opcode, truncated) in between; a "
                "share of instructions carries lineno=HostLine(..) (compared modulo lineno); in-place changes also rewrite the FIELDS "
                "of entry/slice operand objects; the real path text/ICmds -> ProtoSubroutine -> formatted -> assembled -> every "
                "instruction printed and parsed back; non-trivial = every case; distinct = "
                "distinct (flavour, class, operands [before, after])")
    impl = ac.prepare(ctx)
    if impl is None:
        raw_search(ctx)
        return ctx.finish()
    ctx.props("C17")
    quick = ctx.tier == "quick"
    items = gen_instrs(ctx, impl, 6 if quick else 150) + gen_mutations(ctx, impl, 2 if quick else 40)
    results, differing = evaluate(ctx, impl, items, "pcases")
    stats = {}
    for r in results:
        stats[r["tag"]] = stats.get(r["tag"], 0) + 1
        ctx.note_case((r["flavour"], r["instr"][0], tuple(r["instr"][1]), tuple(r["before"][1]) if "before" in r else None),
                      nontrivial=True)
        if not r["ok"] and "before" in r:
            ctx.violation("after assigning new operands to fields of an instruction that was already printed, str(instr) "
                          "is not the text of its current operands / does not parse back to an equal instruction",
                          dict(flavour=r["flavour"], cls=r["instr"][0], operands_before=r["before"][1],
                               operands_after=r["instr"][1], changed_operands=r["changed_operands"],
                               first_print=r["first_print"], second_print=r["str"], text_of_current_operands=r["fresh_print"],
                               object_holds=r["holds_now"], parsed_back=r["back"], err=r["err"],
                               instr=r["before"], after=r["instr"][1], plan=r["changed_operands"]), key=None)
        elif not r["ok"]:
            ctx.violation("parse_text_subroutine(str(instr), flavour).instructions != [instr]"
                          + (" (instruction annotated with lineno=HostLine(..); compared modulo lineno)" if r.get("lineno") else ""),
                          dict(flavour=r["flavour"], instr=r["instr"], lineno=r.get("lineno"), printed=r["str"],
                               parsed_back=r["back"], err=r["err"]), key=None)
    ctx.samples = [dict(flavour=r["flavour"], instr=r["instr"], printed=r["str"]) for r in results[:3] + results[-3:]]
    path_stage(ctx, impl, 60 if quick else 1500)
    rng = ctx.rng
    n_seq, n_bad, n_mut_seq = (120 if quick else 3000), 0, 0
    from netqasm.lang.parsing.binary import Deserializer
    readers = {f: Deserializer(impl.flav[f]) for f in ac.FLAVS}  # ONE object per flavour for the whole stream
    n_poison, last_raw = 0, {}
    for _ in range(n_seq):
        fname = rng.choice(ac.FLAVS)
        rows = impl.ct["flavours"][fname]["rows"]
        body = [ci.gen_in_range_instr(rng, rng.choice(rows)) for _ in range(rng.randint(1, 25))]
        ctx.note_case((fname, "seq", json.dumps(body)), nontrivial=True)
        muts = None
        if rng.random() < 0.5:  # print the subroutine, change some instructions in place, print again
            muts = {}
            for k in rng.sample(range(len(body)), rng.randint(1, min(3, len(body)))):
                row = impl.rows[fname][body[k][0]]
                sl = operand_slices(row)
                if not sl:
                    continue
                plan = sorted(rng.sample(range(len(sl)), rng.randint(1, len(sl))))
                after = list(body[k][1])
                fresh = ci.gen_in_range_instr(rng, row)[1]
                for j in plan:
                    a, n = sl[j]
                    after[a:a + n] = fresh[a:a + n]
                muts[k] = (after, plan)
            n_mut_seq += 1
        poison = None
        if fname in last_raw and rng.random() < 0.4:
            poison = poison_buffer(rng, impl, fname, last_raw[fname])
            n_poison += 1
        linenos = {k: rng.randint(1, 400) for k in range(len(body)) if rng.random() < 0.15}
        bad = stable_oracle(impl, fname, body, muts, reader=readers[fname], poison=poison, linenos=linenos)
        try:
            last_raw[fname] = bytes(impl.Subroutine(instructions=[impl.build_instr(fname, n, lv) for n, lv in body],
                                                    app_id=0))
        except Exception:  # noqa
            pass
        if bad is not None:
            n_bad += 1
            ctx.violation("text -> binary -> text is not stable for a subroutine"
                          + (" printed again after in-place changes of its instructions" if muts else ""),
                          dict(flavour=fname, body=body, mutations={str(k): v for k, v in (muts or {}).items()},
                               linenos={str(k): v for k, v in linenos.items()}, **bad),
                          key=None)
    stats["sequences"] = n_seq
    stats["sequences-printed-twice-around-in-place-change"] = n_mut_seq
    stats["sequences-after-a-rejected-message-on-the-long-lived-reader"] = n_poison
    ctx.coverage["stream_distribution"] = stats
    ctx.coverage["model_impl_differences"] = len(differing)
    ctx.trusted.append("correspondence: Text.pp_instr / Text.parse_line evaluated by vm_compute inside coqc on generated case "
                       "files; harness/asm_common.py builds real instruction objects, calls str() and parse_text_subroutine")
    ctx.assume.append("Template operands (printed without braces) and DebugInstruction are outside the property's domain")
    ctx.assume.append("parse_line is the whole pipeline parse_text_subroutine runs on a one-line text (tokeniser, operand "
                      "parsers, constant replacement, label pass, from_operands); the preamble lines are not part of the theorem")
    if differing and not ctx.violations:
        pr = [r for r, code in differing if code & 1]
        pa = [r for r, code in differing if code & 2]
        if pr:
            ctx.broken.append(f"correspondence Text.pp_instr vs str(instr): {len(pr)} differing, first: {json.dumps(pr[0])[:400]}")
        if pa:
            ctx.broken.append(f"correspondence Text.parse_line vs parse_text_subroutine: {len(pa)} differing, first: "
                              f"{json.dumps(pa[0])[:400]}")
    if ctx.broken and not ctx.violations:
        search(ctx, impl)
    ctx.finish()


def search(ctx, impl):
    rng = ctx.rng
    for fname in ac.FLAVS:
        for row in impl.ct["flavours"][fname]["rows"]:
            for _ in range(80):
                p = list(ci.gen_in_range_instr(rng, row))
                r = run_one(impl, fname, p)
                if not r["ok"]:
                    ctx.violation("parse_text_subroutine(str(instr), flavour).instructions != [instr]",
                                  dict(flavour=fname, instr=p, printed=r["str"], parsed_back=r["back"], err=r["err"]), key=None)
                    return
                if stable_oracle(impl, fname, [p]) is not None:
                    ctx.violation("text -> binary -> text is not stable", dict(flavour=fname, body=[p]), key=None)
                    return


def raw_search(ctx):
    """The translators refused the source (the shared table translator fails closed, e.g. when a from_operands no longer
    returns the operands it was given): table-free search for a concrete failing instruction.  Instruction classes come
    from the live Flavour objects, instances are built DIRECTLY through the dataclass constructors (not from_operands)
    with operand objects chosen by the field type annotations, and the text oracle is run on them:
    parse_text_subroutine(str(i)) == [i], and text -> binary -> text gives the same line."""
    import codec_tables as ct
    try:
        encoding, operand, fl = ct.load(ctx.repo)
        from netqasm.lang.parsing import deserialize
        from netqasm.lang.parsing.text import parse_text_subroutine
    except Exception:  # noqa
        return
    rng = ctx.rng
    imm_pool = [0, 1, 2, 3, 4, 8, 16, 32, 255, 6, 12, 24]
    n = 0
    for fname, flav in ct.flavours(fl):
        for cls in list(fl.CORE_INSTRUCTIONS) + list(flav.instrs):
            try:
                names, kinds = ct.operand_fields(cls)
            except Exception:  # noqa
                continue
            for _ in range(25):
                leaves, kw = [], {}
                for nm, k in zip(names, kinds):
                    lv = {"KReg": [rng.randrange(4), rng.randrange(16)],
                          "KImm": [rng.choice(imm_pool) if rng.random() < 0.8 else rng.randint(0, 255)],
                          "KAddr": [rng.randint(0, 9)], "KEntry": [rng.randint(0, 9), rng.randrange(4), rng.randrange(16)],
                          "KSlice": [rng.randint(0, 9), rng.randrange(4), rng.randrange(16), rng.randrange(4),
                                     rng.randrange(16)]}[k]
                    leaves += lv
                    kw[nm] = ct.mk_operand(operand, encoding, k, lv)
                n += 1
                what, text, back_view, lines2 = None, "<not printed>", None, None
                try:
                    instr = cls(**kw)
                    text = str(instr)
                    sub = parse_text_subroutine(ac.HEADER + text + "\n", flavour=flav)
                    back = list(sub.instructions)
                    back_view = [[type(b).__name__, [str(o) for o in b.operands]] for b in back]
                    if back != [instr]:
                        what = "parse_text_subroutine(str(instr), flavour).instructions != [instr]"
                    else:
                        lines2 = [str(b) for b in deserialize(bytes(sub), flavour=flav).instructions]
                        if lines2 != [text]:
                            what = "text -> binary -> text rewrites the line"
                except Exception as e:  # noqa
                    what = "printing / parsing / encoding the instruction raised " + type(e).__name__
                if what is not None:
                    ctx.violation(what + " (table-free search: instance built through the dataclass constructor)",
                                  dict(flavour=fname, cls=cls.__name__, fields={k: str(v) for k, v in kw.items()},
                                       operand_leaves=leaves, printed=text, parsed_back=back_view,
                                       after_binary=lines2, table_free=True), key=None)
                    ctx.coverage["table_free_search"] = dict(instances=n, found=True)
                    return
    ctx.coverage["table_free_search"] = dict(instances=n, found=False)


def replay_table_free(ctx, rec):
    import codec_tables as ct
    encoding, operand, fl = ct.load(ctx.repo)
    from netqasm.lang.parsing import deserialize
    from netqasm.lang.parsing.text import parse_text_subroutine
    flav = dict(ct.flavours(fl))[rec["flavour"]]
    cls = next(c for c in list(fl.CORE_INSTRUCTIONS) + list(flav.instrs) if c.__name__ == rec["cls"])
    names, kinds = ct.operand_fields(cls)
    kw, i = {}, 0
    for nm, k in zip(names, kinds):
        kw[nm] = ct.mk_operand(operand, encoding, k, rec["operand_leaves"][i:i + ct.NLEAVES[k]])
        i += ct.NLEAVES[k]
    instr = cls(**kw)
    text = str(instr)
    try:
        sub = parse_text_subroutine(ac.HEADER + text + "\n", flavour=flav)
        ok = list(sub.instructions) == [instr] and [str(b) for b in deserialize(bytes(sub), flavour=flav).instructions] == [text]
    except Exception:  # noqa
        ok = False
    print("replay:", text, "ok" if ok else "FAILS")
    if not ok:
        ctx.violation("the printed instruction does not parse back to it / text -> binary -> text rewrites it", rec)
    ctx.finish()


def replay(ctx, path):
    rec = json.load(open(path))
    rec = rec.get("replay", rec)
    if rec.get("table_free"):
        return replay_table_free(ctx, rec)
    impl = ac.prepare(ctx)
    if "instr" in rec:
        r = run_one(impl, rec["flavour"], rec["instr"], rec.get("after"), rec.get("plan"), rec.get("lineno"))
        print("replay:", r)
        if not r["ok"]:
            ctx.violation("str(instr) does not parse back to [instr] (after in-place changes if 'after' is given)", rec)
    else:
        muts = {int(k): (v[0], v[1]) for k, v in rec.get("mutations", {}).items()} or None
        bad = stable_oracle(impl, rec["flavour"], [tuple(x) for x in rec["body"]], muts)
        print("replay:", bad)
        if bad is not None:
            ctx.violation("text -> binary -> text is not stable for a subroutine", rec)
    ctx.finish()
