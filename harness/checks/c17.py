"""C17 — printed assembly parses back to the same instruction."""
import json

import asm_common as ac
import codec_impl as ci


def gen_instrs(ctx, impl, n_rand):
    """[(flavour, [class, leaves], tag)]: every class x each leaf at its boundary values
    + random in-range valuations + a few values outside the encodable range"""
    rng = ctx.rng
    out = []
    for fname in ac.FLAVS:
        for row in impl.ct["flavours"][fname]["rows"]:
            out.append((fname, list(ci.distinct_field_instr(rng, row)), "distinct"))
            rs = ci.leaf_ranges(row)
            for j, (lo, hi) in enumerate(rs):
                for v in ci.boundary_values(lo, hi):
                    name, lv = ci.distinct_field_instr(rng, row)
                    lv[j] = v
                    out.append((fname, [name, lv], "boundary"))
            for _ in range(n_rand):
                out.append((fname, list(ci.gen_in_range_instr(rng, row)), "random"))
            # integers the binary encoding cannot hold still print and parse (register banks stay valid)
            wide = [j for j, (lo, hi) in enumerate(rs) if hi > 15]
            if wide:
                name, lv = ci.gen_in_range_instr(rng, row)
                lv[rng.choice(wide)] = rng.choice([2 ** 31, -(2 ** 31) - 1, 10 ** 20, -(10 ** 12), 256, 4294967296])
                out.append((fname, [name, lv], "wide"))
    return out


def run_one(impl, fname, p):
    """-> dict(instr, str, back, ok)"""
    instr = impl.build_instr(fname, p[0], p[1])
    s = str(instr)
    try:
        sub = impl.text.parse_text_subroutine(ac.HEADER + s + "\n", flavour=impl.flav[fname])
        instrs = list(sub.instructions)
    except Exception as e:  # refusal to parse
        return dict(instr=p, str=s, back=None, ok=False, err=type(e).__name__)
    ok = instrs == [instr]
    back = impl.view_instr(instrs[0]) if len(instrs) == 1 else None
    return dict(instr=p, str=s, back=back, ok=ok, err=None, n=len(instrs))


def stable_oracle(impl, fname, body):
    """text -> binary -> text for a whole subroutine; None if it holds, else a description"""
    instrs = [impl.build_instr(fname, n, lv) for n, lv in body]
    lines = [str(i) for i in instrs]
    try:
        sub = impl.text.parse_text_subroutine(ac.HEADER + "\n".join(lines) + "\n", flavour=impl.flav[fname])
        raw = bytes(sub)
        back = impl.deserialize(raw, flavour=impl.flav[fname])
        lines2 = [str(i) for i in back.instructions]
    except Exception as e:
        return dict(lines=lines, error=type(e).__name__ + ": " + str(e)[:200])
    if lines2 != lines:
        return dict(lines=lines, after=lines2)
    return None


def evaluate(ctx, impl, items, prefix):
    per = {f: [] for f in ac.FLAVS}
    meta = {f: [] for f in ac.FLAVS}
    for fname, p, tag in items:
        r = run_one(impl, fname, p)
        r["tag"], r["flavour"] = tag, fname
        per[fname].append(r)
        meta[fname].append(r)
    bad = ac.run_sharded(ctx, ac.write_pcase_file, per, 400, prefix)
    return [r for f in ac.FLAVS for r in meta[f]], [(meta[f][i], code) for (f, i), code in sorted(bad.items())]


def run(ctx):
    ctx.rule = ("per flavour: every class x (pairwise-distinct operands, each operand leaf at its boundary values, random "
                "in-range valuations, integers beyond the encodable range); str(instr) is compared with the model printer and "
                "parse_text_subroutine(str(instr), flavour) with the model parser; oracle: the parsed subroutine is exactly "
                "[instr]; plus random in-range sequences (len 1..25) through text -> binary -> text; non-trivial = every "
                "case; distinct = distinct (flavour, class, operands)")
    impl = ac.prepare(ctx)
    if impl is None:
        raw_search(ctx)
        return ctx.finish()
    ctx.props("C17")
    quick = ctx.tier == "quick"
    items = gen_instrs(ctx, impl, 6 if quick else 150)
    results, differing = evaluate(ctx, impl, items, "pcases")
    stats = {}
    for r in results:
        stats[r["tag"]] = stats.get(r["tag"], 0) + 1
        ctx.note_case((r["flavour"], r["instr"][0], tuple(r["instr"][1])), nontrivial=True)
        if not r["ok"]:
            ctx.violation("parse_text_subroutine(str(instr), flavour).instructions != [instr]",
                          dict(flavour=r["flavour"], instr=r["instr"], printed=r["str"], parsed_back=r["back"], err=r["err"]),
                          key=None)
    ctx.samples = [dict(flavour=r["flavour"], instr=r["instr"], printed=r["str"]) for r in results[:3] + results[-3:]]
    rng = ctx.rng
    n_seq, n_bad = (120 if quick else 3000), 0
    for _ in range(n_seq):
        fname = rng.choice(ac.FLAVS)
        rows = impl.ct["flavours"][fname]["rows"]
        body = [ci.gen_in_range_instr(rng, rng.choice(rows)) for _ in range(rng.randint(1, 25))]
        ctx.note_case((fname, "seq", json.dumps(body)), nontrivial=True)
        bad = stable_oracle(impl, fname, body)
        if bad is not None:
            n_bad += 1
            ctx.violation("text -> binary -> text is not stable for a subroutine", dict(flavour=fname, body=body, **bad), key=None)
    stats["sequences"] = n_seq
    ctx.coverage["stream_distribution"] = stats
    ctx.coverage["model_impl_differences"] = len(differing)
    ctx.trusted.append("correspondence: Text.pp_instr / Text.parse_line evaluated by vm_compute inside coqc on generated case "
                       "files; harness/asm_common.py builds real instruction objects, calls str() and parse_text_subroutine")
    ctx.assume.append("Template operands (printed without braces) and DebugInstruction are outside the property's domain")
    ctx.assume.append("parse_line is the whole pipeline parse_text_subroutine runs on a one-line text (tokeniser, operand "
                      "parsers, constant replacement, label pass, from_operands); the preamble lines are not part of the theorem")
    if differing and not ctx.violations:
        pr = [r for r, code in differing if code & 1]
        pa = [r for r, code in differing if code & 2]
        if pr:
            ctx.broken.append(f"correspondence Text.pp_instr vs str(instr): {len(pr)} differing, first: {json.dumps(pr[0])[:400]}")
        if pa:
            ctx.broken.append(f"correspondence Text.parse_line vs parse_text_subroutine: {len(pa)} differing, first: "
                              f"{json.dumps(pa[0])[:400]}")
    if ctx.broken and not ctx.violations:
        search(ctx, impl)
    ctx.finish()


def search(ctx, impl):
    rng = ctx.rng
    for fname in ac.FLAVS:
        for row in impl.ct["flavours"][fname]["rows"]:
            for _ in range(80):
                p = list(ci.gen_in_range_instr(rng, row))
                r = run_one(impl, fname, p)
                if not r["ok"]:
                    ctx.violation("parse_text_subroutine(str(instr), flavour).instructions != [instr]",
                                  dict(flavour=fname, instr=p, printed=r["str"], parsed_back=r["back"], err=r["err"]), key=None)
                    return
                if stable_oracle(impl, fname, [p]) is not None:
                    ctx.violation("text -> binary -> text is not stable", dict(flavour=fname, body=[p]), key=None)
                    return


def raw_search(ctx):
    """the translators refused the source: look for a failing instruction without the tables
    (classes and operand types straight from the flavour objects)"""
    import codec_tables as ct
    try:
        encoding, operand, fl = ct.load(ctx.repo)
        from netqasm.lang.parsing.text import parse_text_subroutine
    except Exception:  # noqa
        return
    rng = ctx.rng
    for fname, flav in ct.flavours(fl):
        for cls in list(fl.CORE_INSTRUCTIONS) + list(flav.instrs):
            try:
                _, kinds = ct.operand_fields(cls)
            except Exception:  # noqa
                continue
            for _ in range(20):
                leaves, ops = [], []
                for k in kinds:
                    lv = {"KReg": [rng.randrange(4), rng.randrange(16)], "KImm": [rng.randint(-5, 300)],
                          "KAddr": [rng.randint(0, 9)], "KEntry": [rng.randint(0, 9), rng.randrange(4), rng.randrange(16)],
                          "KSlice": [rng.randint(0, 9), rng.randrange(4), rng.randrange(16), rng.randrange(4),
                                     rng.randrange(16)]}[k]
                    leaves += lv
                    ops.append(ct.mk_operand(operand, encoding, k, lv))
                try:
                    instr = cls.from_operands(ops)
                    text = str(instr)
                    back = list(parse_text_subroutine(ac.HEADER + text + "\n", flavour=flav).instructions)
                    ok = back == [instr]
                except Exception:  # noqa
                    ok, text = False, "<raised>"
                if not ok:
                    ctx.violation("parse_text_subroutine(str(instr), flavour).instructions != [instr]",
                                  dict(flavour=fname, cls=cls.__name__, operands_given=leaves, printed=text), key=None)
                    return


def replay(ctx, path):
    rec = json.load(open(path))
    rec = rec.get("replay", rec)
    impl = ac.prepare(ctx)
    if "instr" in rec:
        r = run_one(impl, rec["flavour"], rec["instr"])
        print("replay:", r)
        if not r["ok"]:
            ctx.violation("parse_text_subroutine(str(instr), flavour).instructions != [instr]", rec)
    else:
        bad = stable_oracle(impl, rec["flavour"], [tuple(x) for x in rec["body"]])
        print("replay:", bad)
        if bad is not None:
            ctx.violation("text -> binary -> text is not stable for a subroutine", rec)
    ctx.finish()
