"""C14 — compiling never runs out of registers because of finished operations."""
import glob
import json
import os

import sdk_ast as sa
import sdk_common as sc

KINDS = ["loop", "if", "foreach", "until"]
# (connection, flush(block=..)) of the runs of completed operations
CONFIGS = [("compile", True), ("debug", True), ("compile", True), ("debug", False), ("compile", True), ("debug", "alternate")]


def scratch_family(ks, last, arr_at_end=True, rng=None):
    """flushed batches of k register-outcome measurements + array-stored measurement(s) on one qubit, then
    a batch of `last` register-outcome measurements.  Deterministic form: the array measurement comes last
    (it takes the lowest M register the register outcomes left: a different one in every batch)"""
    prog = [["newarr", 0, 1, [0]], ["newq", 0]]
    r = 0
    for k in ks:
        batch = []
        for _ in range(k):
            batch.append(["measreg", 0, 1, r])
            r += 1
        pos = [len(batch)] if arr_at_end else sorted(rng.randint(0, len(batch)) for _ in range(rng.randint(1, 2)))
        for p in reversed(pos):
            batch.insert(p, ["measfut", 0, 1, 0, ["c", 0]])
        prog += batch + [["flush"]]
    for _ in range(last):
        prog.append(["measreg", 0, 1, r])
        r += 1
    return prog + [["flush"]]


def outcome_sequence(n, flush_every):
    """n measurements whose outcome stays in a register and is never looked at, a flush after every k-th"""
    prog = []
    for i in range(n):
        prog += [["newq", i], ["measreg", i, 0, i]]
        if (i + 1) % flush_every == 0:
            prog.append(["flush"])
    if prog[-1][0] != "flush":
        prog.append(["flush"])
    return prog


def oracle(steps, err, prog):
    """the property on the implementation: every completed top-level operation leaves no
    register active, and compiling does not fail.  -> (index, what) or None"""
    user = getattr(sc.run_sequence, "user", None) or []
    for i, s in enumerate(steps):
        if s is None:
            return i, f"compilation failed: {err['exc']}"
        held = user[i] if i < len(user) else []
        if s != held:
            return i, (f"registers {s} active after a completed operation, but only {held} are held by the "
                       f"program (builder.new_register)")
        mu = getattr(sc.run_sequence, "mused", None) or []
        if prog[i][0] == "flush" and i < len(mu) and mu[i]:
            return i, (f"M registers {mu[i]} are still claimed after a flush: register outcomes are handed over at "
                       f"the flush, a connection that flushes must get all 16 back (they pile up otherwise)")
        ms_ = getattr(sc.run_sequence, "mscr", None) or []
        if prog[i][0] == "flush" and i < len(ms_) and ms_[i]:
            return i, (f"M registers {ms_[i]} are still marked as scratch after a flush: a register outcome never takes a "
                       f"scratch register, so batches that end with an array measurement take the M registers away one by one")
    return None


def fails(repo, prog, mode="compile", block=True):
    try:
        steps, err, _ = sc.run_sequence(repo, prog, mode=mode, block=block)
    except sa.IllFormed:
        return None
    return oracle(steps, err, prog)


def shrink(repo, prog, budget=120, mode="compile", block=True):
    """greedy removal of top-level statements that keeps the oracle failing"""
    cur = list(prog)
    f = fails(repo, cur, mode, block)
    if f is None:
        return cur
    cur = cur[: f[0] + 1]
    i = len(cur) - 2
    while i >= 0 and budget > 0:
        budget -= 1
        try:
            cand = sa.renumber_arrays(cur[:i] + cur[i + 1:])
            g = fails(repo, cand, mode, block)
            if g is not None and g[1][:24] == f[1][:24]:      # the same kind of failure, not a broken candidate
                cur = cand
        except Exception:  # noqa  (the candidate uses something the removed statement declared)
            pass
        i -= 1
    return cur


def run(ctx):
    ctx.rule = ("direct run: sequences of several hundred completed SDK operations of every kind (if with the six "
                "conditions as context/callback on int/Future/RegFuture operands, loop, loop_body, foreach, enumerate, "
                "loop_until with cleanup, add with/without modulus, measurements into futures/registers/new arrays, "
                "EPR create/recv keep, measure, corrections, post routine, context), nesting <= 4, on ONE real "
                "connection, flush after every k-th, k in {1,3,7,25,end} - alternately on the harness connection (flush = pop + "
                "assemble + reset, nothing sent) and on the SDK's DebugConnection through the real conn.flush with "
                "block=True / False / alternating (no controller answers: no register outcome ever becomes readable, and "
                "the harness reads none); 40 register-outcome measurements never read, flushed after every 1st / 3rd, in "
                "all four configurations; flushed batches of k register outcomes + an array-stored measurement, k = 15..1, "
                "then 9..16 register outcomes (and random batch sizes / positions); plus towers of "
                "12..22 open operations (agreement on failure).  After each top-level statement the real "
                "MemoryManager._active_registers, the peak number of simultaneously active registers and "
                "success/failure and the M registers in use are compared with Sdk.Lower by vm_compute; the oracle on the "
                "implementation: nothing active after a completed operation, no M register claimed or marked scratch after a flush, no "
                "failure.  non-trivial = sequence with >= 50 operations; "
                "distinct = distinct operation sequences")
    ctx.assume += [
        "EPR operations: only their register use is modelled (number of registers held / transiently taken, arrays "
        "allocated); their commands are not (C10/C11 own them)",
        "the assembler's own scratch registers (up to two per command, netqasm/lang/parsing/text.py) are outside the "
        "model; they depend on the registers named in one block, not on history; sequences are assembled for real, "
        "towers are not",
        "no Qubit()/EPR request inside an EPR post routine or context (the SDK cannot allocate while a FutureQubit "
        "is active)",
    ]
    ctx.trusted += [
        "harness/sdk_ast.py (interpreter of SDK programs on the real connection, generator), harness/sdk_common.py "
        "(run_sequence wraps MemoryManager.add_active_register to record the peak)",
        "harness/sdk_pipeline.py (in-process connection; sequences are compiled, not executed)",
    ]
    ctx.props("C14")
    repo = ctx.repo
    fd = sc.probe_free_deactivates(repo)
    ctx.coverage["free_deactivates_probe"] = fd
    rng = ctx.rng
    quick = ctx.tier == "quick"

    # corpus: witnesses of the repaired leaks
    for path in sorted(glob.glob(os.path.join(os.path.dirname(os.path.abspath(sc.__file__)), "..", "corpus", "C14", "*.json"))):
        rec = json.load(open(path))
        f = fails(repo, rec["prog"])
        ctx.note_case("corpus:" + os.path.basename(path), True)
        if f is not None:
            ctx.violation(f"corpus witness {os.path.basename(path)}: {f[1]} at operation {f[0]}",
                          dict(prog=rec["prog"][: f[0] + 1], at=f[0], what=f[1]), key=rec.get("key"))

    cases, metas = [], []
    stats = dict(kinds={}, lengths=[], flush_every=[], peaks=[], towers=0, tower_failures=0)
    n_seq = 8 if quick else 60
    n_ops = 300 if quick else 500
    for i in range(n_seq):
        k = [1, 3, 7, 25, 0][i % 5]
        prog = sa.gen_sequence(rng, n_ops + rng.randint(0, 40), k)
        # every second run on the SDK's DebugConnection through the real conn.flush (blocking, non-blocking,
        # alternating): nothing answers, no register outcome is ever readable or read
        mode, blk = CONFIGS[i % len(CONFIGS)]
        stats.setdefault("configs", {})[f"{mode}/{blk}"] = stats.get("configs", {}).get(f"{mode}/{blk}", 0) + 1
        steps, err, peaks = sc.run_sequence(repo, prog, mode=mode, block=blk)
        mu, ms = list(sc.run_sequence.mused), list(sc.run_sequence.mscr)
        sa.stmt_kinds(prog, stats["kinds"])
        stats["lengths"].append(len(prog))
        stats["flush_every"].append(k)
        stats["peaks"].append(max(peaks) if peaks else 0)
        stats["asm"] = stats.get("asm", 0) + sc.run_sequence.asm_failures
        ctx.note_case(json.dumps(prog), len(prog) >= 50)
        f = oracle(steps, err, prog)
        if f is not None:
            small = shrink(repo, prog, mode=mode, block=blk)
            ctx.violation(f"{f[1]} (operation {f[0]} of a run of completed operations, nesting <= 4; connection: {mode}, "
                          f"flush(block={blk}))",
                          dict(prog=small, flush_every=k, original_length=len(prog), error=err, mode=mode, block=blk), key=None)
        cases.append(sc.acase_coq(fd, prog, steps, peaks, mu, ms))
        metas.append(dict(kind="sequence", prog=prog, steps_tail=steps[-3:], err=err, mode=mode, block=blk))
        if i < 2:
            ctx.samples.append(dict(flush_every=k, first_operations=prog[:6], operations=len(prog),
                                    peak=max(peaks) if peaks else 0))
    # register outcomes that never become readable and are never read: 40 of them on one connection
    for mode, blk in [("debug", True), ("debug", False), ("debug", "alternate"), ("compile", True)]:
        for k in (1, 3):
            prog = outcome_sequence(40, k)
            steps, err, peaks = sc.run_sequence(repo, prog, mode=mode, block=blk)
            mu, ms = list(sc.run_sequence.mused), list(sc.run_sequence.mscr)
            ctx.note_case(json.dumps([prog, mode, str(blk)]), True)
            f = oracle(steps, err, prog)
            if f is not None:
                ctx.violation(f"{f[1]} (operation {f[0]}: 40 times q.measure(store_array=False), outcome never read, flush "
                              f"after every {k}; connection: {mode}, flush(block={blk}))",
                              dict(prog=prog[: f[0] + 1], error=err, mode=mode, block=blk), key=None)
            cases.append(sc.acase_coq(fd, prog, steps, peaks, mu, ms))
            metas.append(dict(kind="outcomes", prog=prog, err=err, mode=mode, block=blk))
    # batches of k register outcomes + an array-stored measurement, k decreasing, then 9..16 register outcomes
    fam = [(scratch_family(range(15, 0, -1), last), "k=15..1 then %d" % last) for last in ((9, 16) if quick else range(9, 17))]
    for _ in range(4 if quick else 40):
        ks = [rng.randint(1, 15) for _ in range(rng.randint(6, 18))]
        fam.append((scratch_family(ks, rng.randint(9, 16), arr_at_end=False, rng=rng), "random batches"))
    for j, (prog, what) in enumerate(fam):
        mode, blk = [("compile", True), ("debug", True), ("debug", False)][j % 3]
        steps, err, peaks = sc.run_sequence(repo, prog, mode=mode, block=blk)
        mu, ms = list(sc.run_sequence.mused), list(sc.run_sequence.mscr)
        ctx.note_case(json.dumps([prog, mode, str(blk)]), True)
        f = oracle(steps, err, prog)
        if f is not None:
            ctx.violation(f"{f[1]} (operation {f[0]}: flushed batches of register outcomes + array-stored measurement, {what}; "
                          f"connection: {mode}, flush(block={blk}))",
                          dict(prog=prog[: f[0] + 1], error=err, mode=mode, block=blk), key=None)
        cases.append(sc.acase_coq(fd, prog, steps, peaks, mu, ms))
        metas.append(dict(kind="scratch-family", prog=prog, err=err, mode=mode, block=blk))
    n_tow = 14 if quick else 120
    for i in range(n_tow):
        depth = rng.randint(12, 22)
        kinds = KINDS if i % 3 else KINDS + ["post", "ctx"]
        inner = [["futadd", 0, ["c", 0], ["fut", 0, ["c", 1]], None]]
        tower = sa.nest(depth, inner, kinds, rng)
        # at most one EPR level (SDK limitation), keep the outermost
        seen = [False]

        def strip(b):
            out = []
            for s in b:
                if s[0] == "epr":
                    if seen[0]:
                        out += strip(s[2])
                        continue
                    seen[0] = True
                    out.append(["epr", s[1], strip(s[2])])
                else:
                    s = list(s)
                    if s[0] == "if":
                        s[5] = strip(s[5])
                    elif s[0] == "loop":
                        s[6] = strip(s[6])
                    elif s[0] == "foreach":
                        s[4] = strip(s[4])
                    elif s[0] == "until":
                        s[3] = strip(s[3])
                    out.append(s)
            return out

        # completed operations on caller-chosen registers that are NOT the lowest free ones (both
        # forms of the API) come first: the tower afterwards must still find every register
        prefix = []
        if i % 2 == 0:
            for j in range(rng.randint(1, 3)):
                prefix.append(["loop", j % 2, 2000 + j, 0, 2, 1,
                               [["futadd", 0, ["c", 0], ["int", 1], None]], rng.randint(5, 15)])
        prog = sa.renumber_arrays([["newarr", 0, 2, [0, 1]]] + prefix + strip(tower) + [["flush"]])
        steps, err, peaks = sc.run_sequence(repo, prog, assemble=False)
        mu, ms = list(sc.run_sequence.mused), list(sc.run_sequence.mscr)
        stats["towers"] += 1
        stats["tower_failures"] += 1 if err else 0
        ctx.note_case(json.dumps(prog), True)
        cases.append(sc.acase_coq(fd, prog, steps, peaks, mu, ms))
        metas.append(dict(kind="tower", prog=prog, depth=depth, err=err))
        # oracle (C14_statement_compiles): without EPR a tower of depth d needs at most d + 2 registers,
        # whatever was completed before it
        if err is not None and not seen[0] and depth + 2 <= 16:
            ctx.violation(f"compilation failed ({err['exc']}) for {depth} open operations after completed operations "
                          f"although {depth + 2} <= 16 registers suffice",
                          dict(prog=prog, depth=depth, error=err), key=None)
    ctx.coverage["stream"] = dict(kinds=stats["kinds"], sequences=n_seq, operations=sum(stats["lengths"]),
                                  connections=stats.get("configs"),
                                  flush_every=sorted(set(stats["flush_every"])), peak_max=max(stats["peaks"] or [0]),
                                  towers=stats["towers"], towers_that_fail_in_both=stats["tower_failures"],
                                  blocks_the_assembler_could_not_fit=stats.get("asm", 0))

    # second sentence of the property, on the implementation: programs that keep registers live in
    # every way the SDK offers (open loops, loop_register=R_k, builder.new_register()) are compiled,
    # EXECUTED on the real pipeline and compared with direct evaluation (the oracle of C05): a
    # temporary or loop counter that lands on a live register changes iteration counts or values
    g = sa.Gen(rng, max_depth=4, size=6, flush_p=0.15,
               features=["loop", "foreach", "until", "if", "futadd", "regadd", "measreg", "newreg", "newarr"])
    g.explicit_p = 0.6
    live_items = []
    for _ in range(70 if quick else 600):
        prog, script = g.program()
        obs = sa.run_program(repo, prog, script, max_qubits=64)
        live_items.append(dict(prog=prog, script=script, obs=obs, fd=fd, tag="live-registers"))
        ctx.note_case(json.dumps([prog, script]), True)
    lk = {}
    for it in live_items:
        sa.stmt_kinds(it["prog"], lk)
    ctx.coverage["live_register_programs"] = dict(cases=len(live_items), statement_kinds=lk)
    s_bad, b_bad, untrans = sc.run_batch(ctx, "live", live_items, shard=50)
    n_rep = 0
    for i, code in sorted(b_bad.items()):
        it = live_items[i]
        if code == 1:
            ctx.gen_obligation("generated program is meaningful for the specification", False, json.dumps(it["prog"])[:300])
        elif code in (2, 3, 4, 5) and n_rep < 5:
            n_rep += 1
            obs = it["obs"]
            ctx.violation("executing the compiled program differs from direct execution (" + sc.BCODE[code] + "); on "
                          "these programs every register is live in some way (open loops, loop_register=, "
                          "new_register): typically a live register was reused",
                          dict(sdk_program=it["prog"], outcome_script=it["script"], prog=it["prog"],
                               pipeline=dict(status=obs["status"], error=obs.get("exc"), msg=obs.get("msg"),
                                             trace=obs["trace"][:60], final_arrays=obs["final_arrays"])), key=None)
    only_struct = [i for i in s_bad if i not in b_bad]
    if only_struct or untrans:
        ctx.broken.append(f"correspondence flatten(lower P) vs the builder's commands on live-register programs: "
                          f"{len(only_struct)} differ, first: "
                          f"{json.dumps(live_items[only_struct[0]]['prog'])[:300] if only_struct else untrans[0]}")

    files = []
    shard = 4
    for k in range(0, len(cases), shard):
        fn = f"cases_seq_{k // shard}.v"
        sc.write_case_file(os.path.join(ctx.build, fn), acases=cases[k:k + shard])
        files.append((fn, k))
    results = ctx.run_case_files([f for f, _ in files])
    mism = []
    for fn, k in files:
        res = results[fn]
        if not res.ok:
            ctx.gen_obligation(f"correspondence file {fn} evaluates", False, res.err[-300:])
            continue
        ls = sc.parse_lists(res.out)
        if len(ls) != 1:
            ctx.gen_obligation(f"correspondence file {fn} output parsed", False, res.out[-300:])
            continue
        mism += [k + i for i in ls[0]]
    ctx.coverage["model_impl_mismatches"] = len(mism)
    ctx.trusted.append("correspondence: Sdk.Lower.lower_steps evaluated by vm_compute inside coqc on generated case files")
    if mism and not ctx.violations:
        m = metas[mism[0]]
        ctx.broken.append(f"correspondence Sdk.Lower (register pool) vs MemoryManager: {len(mism)} differing runs, "
                          f"first: {m['kind']} err={m['err']} prog={json.dumps(m['prog'])[:300]}")
        search(ctx, repo)
    ctx.finish()


def search(ctx, repo):
    """the model no longer describes the builder: look for a run of completed operations
    that leaks or fails"""
    rng = ctx.rng
    for _ in range(40):
        prog = sa.gen_sequence(rng, 120, rng.choice([1, 5, 0]))
        f = fails(repo, prog)
        if f is not None:
            ctx.violation(f"{f[1]} (operation {f[0]})", dict(prog=shrink(repo, prog)), key=None)
            return


def replay(ctx, path):
    rec = json.load(open(path))["replay"]
    blk = rec.get("block", True)
    steps, err, peaks = sc.run_sequence(ctx.repo, rec["prog"], mode=rec.get("mode", "compile"),
                                        block=blk if blk == "alternate" else bool(blk))
    f = oracle(steps, err, rec["prog"])
    print("replay:", dict(failing=f, error=err, active_after_each=steps[-5:]))
    if f is not None:
        ctx.violation(f[1], rec)
    ctx.finish()
