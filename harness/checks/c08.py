"""C08 — NV transpilation preserves program behaviour, not only gates."""
import glob
import json
import os
import re

import nv_gen
import nv_impl

FINDING_TRACK = "C08:q-register-not-written-by-set"


def prog_from_json(p):
    out = []
    for t in p:
        t = list(t)
        conv = []
        for i, x in enumerate(t):
            if isinstance(x, list) and len(x) == 2 and isinstance(x[0], str) and x[0] in "RCQM" and isinstance(x[1], int):
                conv.append((x[0], x[1]))
            elif isinstance(x, list):
                conv.append([tuple(y) if isinstance(y, list) else y for y in x])
            else:
                conv.append(x)
        out.append(tuple(conv))
    return out


# ------------------------------------------------------------------ the oracle
def oracle(impl, prog, script, nq, debug=False):
    """Original on a vanilla SvExecutor vs transpiled on an NV SvExecutor (both through
    bytes), same measurement script.  -> (ok, what, tracked_ok)"""
    gates = []
    van = _run_vanilla(impl, prog, script, nq, gates)
    tracked_ok = all(nv_gen.chosen_placement(prog, i) == nv_gen.placement(a, b) for (i, a, b) in gates)
    if van["status"] != 1:
        return None, f"vanilla program faults ({van['err']}): not an oracle case", tracked_ok
    tr = impl.transpile(prog, debug=debug)
    if tr[0] != "ok":
        return False, f"transpiler refuses a program that runs on the vanilla executor (error class {tr[1]})", tracked_ok
    try:
        nvr = impl.execute(tr[2], script, nq, nv=True, sv=True)
    except Exception as e:  # serialisation of the transpiled subroutine failed
        return False, f"transpiled subroutine cannot be serialised/executed: {type(e).__name__}", tracked_ok
    if nvr["status"] != 1:
        return False, (f"transpiled program {'does not terminate' if nvr['status'] == 3 else 'faults'} on the NV executor "
                       f"({nvr['err']}) where the original halts"), tracked_ok
    mentioned = nv_gen.mentioned_regs(prog)
    diffs = [(r, van["regs"][r], nvr["regs"][r]) for r in van["regs"] if van["regs"][r] != nvr["regs"][r]]
    owned = [d for d in diffs if d[0] not in mentioned]       # transpiler-owned temporaries (scratch Q, C15)
    real = [d for d in diffs if d[0] in mentioned]
    if real:
        return False, f"final registers differ: {real[:4]}", tracked_ok
    if van["arrays"] != nvr["arrays"]:
        return False, f"final arrays differ: {van['arrays']} vs {nvr['arrays']}", tracked_ok
    mv = [e for e in van["trace"] if e[0] in ("meas", "ret_reg", "ret_arr", "qalloc", "qfree", "init")]
    mn = [e for e in nvr["trace"] if e[0] in ("meas", "ret_reg", "ret_arr", "qalloc", "qfree", "init")]
    if mv != mn:
        return False, "measurement / return / allocation events differ in order or value", tracked_ok
    ok, det = nv_impl.state_close(van["pipe"], nvr["pipe"])
    if not ok:
        return False, f"final quantum states differ ({det})", tracked_ok
    return True, f"equal ({det}); transpiler-owned registers changed: {[d[0] for d in owned]}", tracked_ok


def _run_vanilla(impl, prog, script, nq, gates):
    # like NvImpl.execute, plus a hook recording (instruction index, qubit ids) of every
    # executed two-qubit gate
    sub = impl.subroutine(prog)
    sub = impl.deserialize(bytes(sub), flavour=impl.VanillaFlavour())
    index = {id(ins): i for i, ins in enumerate(sub.instructions)}
    from sdk_pipeline import Pipeline

    pipe = Pipeline(impl.repo, max_qubits=nq, hardware="generic", executor="sv")
    ex = pipe.executor
    ex.init_new_application(0, nq)
    nv_impl._record_extra(pipe, ex)
    base = ex._do_two_qubit_instr

    def rec2(instr, subroutine_id, a1, a2):
        gates.append((index[id(instr)], a1, a2))
        return base(instr, subroutine_id, a1, a2)

    ex._do_two_qubit_instr = rec2
    pipe.meas_script = list(script)
    status, err = nv_impl.run_limited(ex, sub)
    regs = {}
    for b in nv_impl.BANKS:
        grp = ex._registers[0][impl.op.RegisterName[b]]
        for i in range(16):
            regs[(b, i)] = grp._register.get(i)
    arrays = {a: list(v) for a, v in ex._app_arrays[0]._arrays.items()}
    return dict(status=status, err=err, regs=regs, arrays=arrays, trace=list(pipe.trace), pipe=pipe)


def replay_record(impl, prog, script, nq, debug, what):
    return dict(what=what, prog=[list(t) for t in prog], script=list(script), nq=nq, debug=debug,
                subroutine_text=impl.text(prog))


def judge(ctx, impl, prog, script, nq, debug=False, stats=None):
    ok, what, tracked = oracle(impl, prog, script, nq, debug)
    if stats is not None:
        k = "skipped" if ok is None else ("equal" if ok else "differs")
        stats[k] = stats.get(k, 0) + 1
        if not tracked:
            stats["not_tracked_ok"] = stats.get("not_tracked_ok", 0) + 1
    if ok is False:
        key = FINDING_TRACK if not tracked else None
        ctx.violation("NV transpilation changes behaviour: " + what, replay_record(impl, prog, script, nq, debug, what), key=key)
    return ok, tracked


def blank(t):
    if t[0] == "jmp":
        return ("jmp",)
    if t[0] in ("br1", "br2"):
        return t[:-1]
    return t


def structural(ctx, impl, prog, res, debug, hw, stats):
    """direct oracles for the structural clauses on the real transpiler's output: every branch /
    jump of the serialised NV subroutine points at an instruction (a target just past the end got
    the no-op), and the original non-gate instructions appear in their order"""
    if res[0] != "ok":
        return
    out = [t for t in res[1] if t[0] != "debug"]
    stats["structural"] = stats.get("structural", 0) + 1
    for t in out:
        if t[0] in ("jmp", "br1", "br2") and not (0 <= t[-1] < len(out)):
            ctx.violation(f"transpiled subroutine has a branch to line {t[-1]} but only {len(out)} instructions "
                          "(a target just past the end must reach the appended no-op)",
                          replay_record(impl, prog, [], 4, debug, "branch target outside the transpiled subroutine"), key=None)
            return
    want = [blank(t) for t in prog if t[0] not in ("g1", "g2", "rot", "debug")]
    have = iter(blank(t) for t in out)
    if not all(any(w == h for h in have) for w in want):
        ctx.violation("non-gate instructions of the original are not a subsequence (in order) of the transpiled subroutine",
                      replay_record(impl, prog, [], 4, debug, "non-gate order"), key=None)


# ------------------------------------------------------------------ streams
def tie_variants(rng, impl, base_opts):
    """programs for the instruction-list tie: the SDK-shaped ones plus shapes the transpiler
    refuses or treats specially"""
    prog, meta = nv_gen.gen_program(rng, base_opts)
    r = rng.random()
    qa, qb = meta["pool"]
    if r < 0.12:      # gate on registers the scan never saw a `set` for
        prog = [t for t in prog if not (t[0] == "set" and t[1] in (qa, qb))]
    elif r < 0.2:     # both operands hold the same id
        prog.append(("set", qa, 1)); prog.append(("set", qb, 1)); prog.append(("g2", "cnot", qa, qb))
    elif r < 0.28:    # mov between carbons
        prog.append(("set", qa, 1)); prog.append(("set", qb, 2)); prog.append(("g2", "mov", qa, qb))
    elif r < 0.36:    # branch beyond the end
        prog.insert(rng.randint(0, len(prog)), ("jmp", len(prog) + 2))
    elif r < 0.5:     # other instructions (EPR, waits, breakpoint) pass through
        others = [("other", "create_epr", [("R", 1), ("R", 2), ("C", 0), ("R", 3), ("R", 4)], [], [], []),
                  ("other", "recv_epr", [("R", 1), ("R", 2), ("C", 0), ("R", 3)], [], [], []),
                  ("other", "wait_all", [], [("R", 3), ("Q", 7)], [], [2]),
                  ("other", "wait_any", [], [("R", 3), ("R", 4)], [], [2]),
                  ("other", "wait_single", [], [("Q", 2)], [], [1]),
                  ("other", "breakpoint", [], [], [], [0, 1])]
        for _ in range(rng.randint(1, 3)):
            # inserting shifts later targets: only append at the end or before position 0 of a
            # target-free prefix; simplest is appending
            prog.append(rng.choice(others))
        prog.append(("set", qa, 1)); prog.append(("set", qb, 2)); prog.append(("g2", "cnot", qa, qb))
    elif r < 0.58:    # many Q registers in use: scratch selection walks further
        for i in range(rng.randint(2, 16)):
            prog.append(("set", ("Q", i), i % 4))
        prog.append(("set", ("Q", 3), 1)); prog.append(("set", ("Q", 4), 2)); prog.append(("g2", "cphase", ("Q", 3), ("Q", 4)))
    return prog, meta


def run(ctx):
    quick = ctx.tier == "quick"
    ctx.rule = ("generated vanilla subroutines shaped like SDK output (every gate preceded by `set` of its Q registers; "
                "prologue allocating 1 electron + 1..3 carbons and two arrays) with nested loops, if/else, "
                "end labels, measurements into registers and arrays, ret_reg/ret_arr; a flagged stream also writes Q "
                "registers by `load`; tie stream adds refused shapes (unknown / equal ids, mov between carbons, branch "
                "beyond the end), pass-through EPR/wait instructions, debug on/off, hardware angle mode on/off. "
                "non-trivial = contains a gate and a branch; distinct = distinct (program, script, flags)")
    ok, err = ctx.gen("nv_blocks.py", "Gen_NvBlocks.v")
    ctx.gen_obligation("translator nv_blocks.py understands the transpiler's blocks", ok, err.strip()[-300:])
    if ok:
        r = ctx.coqc("Gen_NvBlocks.v")
        ctx.gen_obligation("Gen_NvBlocks.v type-checks", r.ok, r.err[-300:])
        ok = r.ok
    ctx.trusted.append("gen/nv_blocks.py: runs the real NVSubroutineTranspiler on single-gate subroutines (7 gates; "
                       "cnot/cphase/mov x EC/CE/CC x carbons 1..3 x 4 register choices x debug on/off), abstracts registers "
                       "to roles, checks block independence of the choice, records the appended no-op")
    ctx.trusted.append("gen/nv_decomp.py (C07's translator): emitted sequences with registers resolved to wires (electron = 0)")
    ctx.trusted.append("harness/nv_impl.py, nv_gen.py: tuple <-> instruction objects, canonical integer encoding, "
                       "generator; harness/sdk_pipeline.py RecExecutor/SvExecutor (operators from mnemonic definitions)")
    ctx.assume += [
        "block soundness is no longer a hypothesis: C08_blocks_sound derives it from C07's regenerated rows "
        "(Gen_NvDecomp, re-decided exactly in K32 by vm_compute) and the computed agreement of the two tables, for every "
        "state space with a functorial action of exact matrices on qubit lists (laws: composition, identity, global "
        "phase, locality; rotation operators exact on representable angles and a function of the angle).  That state "
        "vectors with the standard operator action satisfy these laws is linear algebra, not formalised.  The oracle "
        "streams use all gates: a row that is numerically not its gate shows up as a program whose final state differs.",
        "qubit allocation is not modelled: carbon-carbon blocks borrow virtual qubit 0, which the oracle programs keep "
        "allocated (NV: the electron always exists)",
        "vanilla `mov` has no operator in the executor; its meaning is C07's mov_transfers (state transfer onto a fresh "
        "target).  The state-vector oracle covers mov only in that shape (`epr_move`: target initialised before, source "
        "re-initialised after; vanilla side = SWAP), with operands in Q, R or C bank registers; other movs are covered by "
        "the instruction-list tie and the theorem",
        "measurement outcomes are an input (script) shared by both runs",
        "registers the original program never mentions (the borrowed scratch Q register, C15 of the appended no-op) "
        "are transpiler-owned temporaries: they are not part of the compared classical memory",
        "IOther instructions (EPR, waits, breakpoint, meas_basis) act through an arbitrary environment function",
    ]
    impl = None
    try:
        impl = nv_impl.NvImpl(ctx.repo)
    except Exception as e:  # noqa
        ctx.gen_obligation("implementation importable", False, repr(e))
    if impl is None:
        return ctx.finish()
    table_ok = ok
    if table_ok:
        # C07's table (regenerated here as well): its rows discharge block soundness
        ok7, err7 = ctx.gen("nv_decomp.py", "Gen_NvDecomp.v", "--json", os.path.join(ctx.build, "rows.json"))
        ctx.gen_obligation("translator nv_decomp.py (C07's table) understands the transpiler output", ok7, err7.strip()[-300:])
        if ok7:
            r7 = ctx.coqc("Gen_NvDecomp.v")
            ctx.gen_obligation("Gen_NvDecomp.v type-checks", r7.ok, r7.err[-300:])
        res08 = ctx.props("C08")
        if res08.ok:
            # the action laws assumed in C08.v, discharged on a concrete state space (amplitude functions over
            # every ring with omega; Proofs/QMatAlgebra.v), and the instantiation at the complex numbers
            import qcommon
            rsv = ctx.props("C08_statevector")
            if rsv.ok:
                qcommon.complex_props(ctx, "C08_complex")
        import nv_blocks

        tab = nv_blocks.tables(ctx.repo)
        bad = nv_impl.unsound_rows(tab)
    else:
        # the table translator no longer understands the transpiler: the Coq side cannot be
        # evaluated; the oracle still runs (search for a concrete failing input)
        bad = []
    # Block soundness is no longer a hypothesis of C08 (C08_c07_rows / C08_blocks_sound prove it from the
    # regenerated rows), so a block that is numerically not its gate is C08's own failure: the oracle streams
    # use ALL gates and such a row shows up as a program whose final state differs.
    if bad:
        ctx.notes.append(f"rows that are numerically not their gate: {bad}")
    g1_ok = list(nv_gen.G1)
    g2_ok = ["cnot", "cphase"]
    rng = ctx.rng
    stats = {}
    cov = dict(sizes={}, features={})

    def feat(prog):
        f = cov["features"]
        ks = set(t[0] for t in prog)
        for k in ks:
            f[k] = f.get(k, 0) + 1
        if any(t[0] in ("jmp", "br1", "br2") and t[-1] == len(prog) for t in prog):
            f["end_target"] = f.get("end_target", 0) + 1
        b = min(len(prog) // 25 * 25, 150)
        cov["sizes"][str(b)] = cov["sizes"].get(str(b), 0) + 1

    # ---- corpus + recorded finding witnesses first
    for path in sorted(glob.glob(os.path.join(os.path.dirname(__file__), "..", "..", "corpus", "C08", "*.json"))):
        rec = json.load(open(path))
        prog = prog_from_json(rec["prog"])
        ok_, tracked = judge(ctx, impl, prog, rec["script"], rec["nq"], rec.get("debug", False), stats)
        ctx.note_case(("corpus", os.path.basename(path)))
        if rec.get("expect") == "finding" and ok_ is not False:
            ctx.notes.append(f"recorded finding witness {os.path.basename(path)} no longer fails (stale entry)")

    ctx.log('props and tables done')
    # ---- streams
    n_oracle = 120 if quick else 1500
    n_tie = 160 if quick else 1600
    n_load = 40 if quick else 400
    tcases, rcases, tmeta, rmeta = [], [], [], []

    def add_tie(prog, meta, debug, hw):
        res = impl.transpile(prog, debug=debug, hw=hw)
        structural(ctx, impl, prog, res, debug, hw, stats)
        if not table_ok:
            return res
        tcases.append((debug, hw, prog, nv_impl.enc_tresult(res)))
        tmeta.append(dict(prog=prog, debug=debug, hw=hw, got=res[:2]))
        return res

    def add_run(prog, script, nq, nv):
        if not table_ok:
            return
        try:
            res = impl.execute(prog, script, nq, nv=nv)
        except Exception:
            return  # not serialisable: no run case
        addrs = [0, 1, 2]
        rcases.append((prog, script, nv_impl.STEP_LIMIT, addrs, nv_impl.enc_final(res, addrs)))
        rmeta.append(dict(prog=prog, script=script, nv=nv, status=res["status"]))

    for k in range(n_oracle):
        prog, meta = nv_gen.gen_program(rng, dict(g1=g1_ok, g2=g2_ok, lreg=(k % 3 == 1), perm=(k % 3 == 2), nonq=(k % 4 == 0),
                                                    late=(k % 4 == 1), loop0=(k % 6 == 2), burst=(k % 12 == 5)))
        if any(t[0] == "g2" and t[2][0] != "Q" for t in prog):
            stats["gate_operands_in_non_Q_banks"] = stats.get("gate_operands_in_non_Q_banks", 0) + 1
        if meta.get("perm"):
            stats["operand_registers_permuted"] = stats.get("operand_registers_permuted", 0) + 1
        if meta.get("lreg"):
            stats["load_add_only_register"] = stats.get("load_add_only_register", 0) + 1
        for kind in ("late", "loop0", "burst"):
            if meta.get(kind):
                stats["shape_" + kind] = stats.get("shape_" + kind, 0) + 1
        if not nv_gen.sdk_shaped(prog, meta.get("late")):
            stats["not_sdk_shaped"] = stats.get("not_sdk_shaped", 0) + 1
            continue
        script = [rng.randint(0, 1) for _ in range(meta["script_len"] * 4 + 2)]
        nq = meta["ncarbons"] + 1
        debug = rng.random() < 0.3
        feat(prog)
        ok_, tracked = judge(ctx, impl, prog, script, nq, debug, stats)
        nontriv = any(t[0] in ("g1", "g2", "rot") for t in prog) and any(t[0] in ("br1", "br2", "jmp") for t in prog)
        ctx.note_case((str(prog), tuple(script), debug), nontrivial=nontriv)
        if k < 3:
            ctx.samples.append(dict(subroutine=impl.text(prog), script=script, debug=debug, verdict=ok_))
        if k % 2 == 0:
            res = add_tie(prog, meta, debug, False)
            add_run(prog, script, nq, False)
            if res[0] == "ok":
                add_run([t for t in res[1] if t[0] != "debug"], script, nq, True)
    for k in range(n_load):
        prog, meta = nv_gen.gen_program(rng, dict(g1=g1_ok, g2=g2_ok, load=True))
        if not nv_gen.sdk_shaped(prog):
            continue
        script = [rng.randint(0, 1) for _ in range(meta["script_len"] * 4 + 2)]
        feat(prog)
        judge(ctx, impl, prog, script, meta["ncarbons"] + 1, False, stats)
        ctx.note_case((str(prog), tuple(script), "load"))
        add_tie(prog, meta, False, False)
    for k in range(n_tie):
        hw = rng.random() < 0.35
        prog, meta = tie_variants(rng, impl, dict(g2=["cnot", "cphase", "mov"], load=rng.random() < 0.3,
                                                  lreg=rng.random() < 0.3, perm=rng.random() < 0.5, nonq=rng.random() < 0.4,
                                                  late=rng.random() < 0.3, loop0=rng.random() < 0.2, burst=rng.random() < 0.05,
                                                  hw_safe=hw and rng.random() < 0.7))
        feat(prog)
        res = add_tie(prog, meta, rng.random() < 0.5, hw)
        ctx.note_case((str(prog), "tie", hw))
        stats["tie_" + ("ok" if res[0] == "ok" else f"err{res[1]}")] = stats.get("tie_" + ("ok" if res[0] == "ok" else f"err{res[1]}"), 0) + 1
    fault_stream(rng, impl, add_run, 30 if quick else 300)
    ctx.log('implementation runs done')

    # ---- evaluate the model on the same cases inside Coq
    shard = 40
    files = {}
    nsh = max((len(tcases) + shard - 1) // shard, (len(rcases) + shard - 1) // shard)
    for k in range(nsh):
        fn = f"cases_{k}.v"
        nv_impl.write_case_file(os.path.join(ctx.build, fn), tcases[k * shard:(k + 1) * shard], rcases[k * shard:(k + 1) * shard])
        files[fn] = k
    results = ctx.run_case_files(list(files), jobs=14)
    mism_t, mism_r = [], []
    for fn, res in results.items():
        k = files[fn]
        if not res.ok:
            ctx.gen_obligation(f"correspondence file {fn} evaluates", False, res.err[-300:])
            continue
        parts = re.findall(r"=\s*(\[[^\]]*\]|nil)\s*:\s*list Z", res.out.replace("\n", " "))
        if len(parts) != 2:
            ctx.gen_obligation(f"correspondence file {fn} output parsed", False, res.out[-300:])
            continue
        mism_t += [k * shard + int(x) for x in re.findall(r"-?\d+", parts[0])]
        mism_r += [k * shard + int(x) for x in re.findall(r"-?\d+", parts[1])]
    ctx.log('model evaluated on the case files')
    stats["tie_cases"] = len(tcases)
    stats["run_cases"] = len(rcases)
    ctx.coverage["stream_distribution"] = stats
    ctx.coverage["program_features"] = cov["features"]
    ctx.coverage["program_sizes"] = cov["sizes"]
    ctx.coverage["model_impl_mismatches"] = dict(transpile=len(mism_t), run=len(mism_r))
    ctx.trusted.append("correspondence: Transpile.transpile and Transpile.run evaluated by vm_compute inside coqc on "
                       "generated case files against the real transpiler's instruction lists and the real Executor's "
                       "final registers / arrays / gate trace")
    if mism_t:
        m = tmeta[mism_t[0]]
        ctx.broken.append(f"correspondence Transpile.transpile vs NVSubroutineTranspiler: {len(mism_t)} differing cases; "
                          f"first: debug={m['debug']} hw={m['hw']} got={str(m['got'])[:200]} prog={str(m['prog'])[:300]}")
    if mism_r:
        m = rmeta[mism_r[0]]
        ctx.broken.append(f"correspondence Transpile.run vs Executor: {len(mism_r)} differing cases; first: nv={m['nv']} "
                          f"status={m['status']} prog={str(m['prog'])[:300]}")
    if ctx.broken and not [v for v in ctx.violations if v["key"] is None]:
        search(ctx, impl, g1_ok, g2_ok, [tmeta[i] for i in mism_t[:20]])
    ctx.finish()


def fault_stream(rng, impl, add_run, n):
    """small programs that fault or use python corner cases (None registers, index wrap-around)"""
    R = lambda i: ("R", i)  # noqa
    shapes = [
        lambda: [("arith", False, R(0), R(1), R(2))],                                   # unset operands
        lambda: [("set", R(0), 2), ("array", R(0), 0), ("set", R(1), rng.randint(-4, 4)), ("set", R(2), 7), ("store", R(2), 0, R(1)), ("load", R(3), 0, R(1))],
        lambda: [("set", R(0), 2), ("array", R(0), 0), ("set", R(1), 0), ("load", R(3), 0, R(1))],   # undefined entry
        lambda: [("set", R(1), 0), ("load", R(3), 5, R(1))],                            # no such array
        lambda: [("set", R(1), 0), ("set", R(2), 1), ("store", R(2), 5, R(1))],
        lambda: [("br1", rng.choice(["bez", "bnz"]), R(5), 2), ("set", R(0), 1), ("set", R(1), 2)],  # None operand
        lambda: [("br2", rng.choice(["beq", "bne", "blt", "bge"]), R(5), R(6), 2), ("set", R(0), 1), ("set", R(1), 2)],
        lambda: [("set", R(5), 1), ("br2", rng.choice(["beq", "bne", "blt", "bge"]), R(5), R(6), 3), ("set", R(0), 1), ("set", R(1), 2)],
        lambda: [("set", R(0), rng.randint(-2, 2)), ("set", R(1), 5), ("set", R(2), 3), ("arithm", rng.random() < 0.5, R(3), R(1), R(2), R(0))],
        lambda: [("set", R(0), -3), ("array", R(0), 1), ("ret_arr", 1), ("ret_arr", 2)],
        lambda: [("ret_reg", R(9))],
        lambda: [("set", R(0), 3), ("array", R(0), 0), ("set", R(1), rng.randint(-4, 3)), ("undef", 0, R(1)), ("ret_arr", 0)],
        lambda: [("jmp", rng.randint(0, 4)), ("set", R(0), 1), ("jmp", 5), ("set", R(1), 1)],
        lambda: [("g1", "x", ("Q", 0))],
        lambda: [("set", ("Q", 0), 0), ("q", "qalloc", ("Q", 0)), ("meas", ("Q", 0), ("M", 0)), ("meas", ("Q", 1), ("M", 1))],
        lambda: [("lea", R(0), 7), ("set", R(1), 1), ("arith", True, R(2), R(0), R(1)), ("ret_reg", R(2))],
    ]
    for _ in range(n):
        prog = rng.choice(shapes)()
        add_run(prog, [rng.randint(0, 1) for _ in range(3)], 2, False)


def search(ctx, impl, g1_ok, g2_ok, suspects):
    """The model or a theorem no longer checks: look for a program on which the property
    itself fails (oracle), around the differing cases first, then fresh programs."""
    rng = ctx.rng
    for m in suspects:
        prog = m["prog"]
        if not nv_gen.sdk_shaped(prog) or any(t[0] == "other" or (t[0] == "g2" and t[1] == "mov") for t in prog):
            continue
        nq = 4
        ok_, tracked = oracle(impl, prog, [0, 1, 1, 0] * 8, nq, m["debug"])[:1] + (None,)
        if ok_ is False:
            judge(ctx, impl, prog, [0, 1, 1, 0] * 8, nq, m["debug"])
            if [v for v in ctx.violations if v["key"] is None]:
                return
    for _ in range(400):
        prog, meta = nv_gen.gen_program(rng, dict(g1=g1_ok, g2=g2_ok, lreg=rng.random() < 0.4, perm=rng.random() < 0.6, nonq=rng.random() < 0.4,
                                                  late=rng.random() < 0.4, loop0=rng.random() < 0.3, burst=rng.random() < 0.15))
        if not nv_gen.sdk_shaped(prog, meta.get("late")):
            continue
        script = [rng.randint(0, 1) for _ in range(meta["script_len"] * 4 + 2)]
        judge(ctx, impl, prog, script, meta["ncarbons"] + 1, rng.random() < 0.5)
        if [v for v in ctx.violations if v["key"] is None]:
            return


def replay(ctx, path):
    rec = json.load(open(path))
    rec = rec.get("replay", rec)
    impl = nv_impl.NvImpl(ctx.repo)
    prog = prog_from_json(rec["prog"])
    print(impl.text(prog))
    ok_, what, tracked = oracle(impl, prog, rec["script"], rec["nq"], rec.get("debug", False))
    print("replay:", ok_, what, "tracked_ok =", tracked)
    structural(ctx, impl, prog, impl.transpile(prog, debug=rec.get("debug", False)), rec.get("debug", False), False, {})
    if ok_ is False:
        ctx.violation("NV transpilation changes behaviour: " + what, rec, key=FINDING_TRACK if not tracked else None)
    ctx.finish()
