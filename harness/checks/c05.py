"""C05 — SDK control flow and classical data flow compile to equivalent subroutines."""
import glob
import json
import os

import sdk_ast as sa
import sdk_common as sc

KEY_RETREG = "C05:ret_reg-of-unreached-register-measurement"
HERE = os.path.dirname(os.path.abspath(sc.__file__))


def observe(repo, prog, script, late=False):
    return sa.run_program(repo, prog, script, max_qubits=64, late_reads=late)


def item_of(repo, fd, prog, script, tag, late=False):
    obs = observe(repo, prog, script, late)
    return dict(prog=prog, script=script, obs=obs, fd=fd, tag=tag, late=late)


def has_early_register_outcome(prog):
    """a register outcome measured in a block that is not the last one"""
    blocks, cur = [], []
    for s in prog:
        if s[0] == "flush":
            blocks.append(cur)
            cur = []
        else:
            cur.append(s)
    d, u = set(), set()
    for b in blocks[:-1]:
        for s in b:
            sa.reg_defs_uses(s, d, u)
    return any(not isinstance(x, tuple) for x in d)


def report(ctx, it, code, what_extra=""):
    obs = it["obs"]
    rep = dict(sdk_program=it["prog"], outcome_script=it["script"], late_reads=bool(it.get("late")),
               what=sc.BCODE.get(code, str(code)) + (" (register outcomes read only after the last flush)" if it.get("late") else ""),
               pipeline=dict(status=obs["status"], error=obs.get("exc"), at=obs.get("at"), trace=obs["trace"][:60],
                             flushes=obs["flushes"][-3:], final_arrays=obs["final_arrays"]))
    key = KEY_RETREG if code == 6 else None
    ctx.violation(sc.BCODE.get(code, str(code)) + what_extra, rep, key=key)


def shrink(ctx, repo, fd, it, rounds=4):
    """drop top-level statements while the behavioural oracle keeps failing (one Coq batch per round)"""
    cur = it
    for r in range(rounds):
        stmts = cur["prog"]
        cands = []
        for i in range(len(stmts) - 1):
            try:
                p = sa.renumber_arrays(stmts[:i] + stmts[i + 1:])
                c = item_of(repo, fd, p, cur["script"], "shrink", cur.get("late", False))
            except Exception:  # noqa
                continue
            cands.append(c)
        if not cands:
            break
        _, b_bad, _ = sc.run_batch(ctx, f"shrink{r}_{len(ctx.violations)}", cands, shard=40)
        good = [k for k, code in sorted(b_bad.items()) if code in (2, 3, 4, 5)]
        if not good:
            break
        cur = cands[good[-1]]
        cur["code"] = b_bad[good[-1]]
    return cur


def run(ctx):
    ctx.rule = ("generated SDK programs (every construct: gates, measure into array future / new array / register "
                "future, free, arrays with/without/all-equal initial values, add with/without modulus on int / Future / "
                "loop-register operands, if with the six conditions as context and as callback on int/Future/"
                "RegFuture/loop operands, loop, loop_body, foreach, enumerate, loop_until with at-most bound and "
                "cleanup; nesting <= 4; scripted outcomes) x flush placements (random; for programs with <= 5 "
                "top-level statements every placement).  Each runs on the real pipeline (builder, assembler, bytes, "
                "deserialize, Executor).  Oracle: Coq Eval (the spec) by vm_compute = pipeline: gate trace up to "
                "allocation-order renaming, every Array/Future/RegFuture handle read after each flush, controller "
                "arrays at each flush and at the end; plus host handle = controller value on the implementation "
                "alone.  Structural tie: flatten(lower P) = ProtoSubroutine commands of every flush after label "
                "canonicalisation.  non-trivial = contains a control construct or an add; distinct = distinct "
                "(program with flushes, script)")
    ctx.assume += [
        "register and array values stay inside the 32-bit range of the controller's registers (generated values are small)",
        "assembler (C03) and executor (C04) are not modelled here: the proved target semantics executes the builder's "
        "commands with immediates; the behavioural oracle runs the real assembler and executor end to end",
        "arrays of earlier flush blocks reach the host through the list object ret_arr put into shared memory "
        "(in-process aliasing, as in the repository's simulators); a remote back end would have to return them again",
        "qubit handles are created and consumed at the same nesting level (C09 owns host/controller agreement on "
        "qubits); Qubit.free() behaviour is probed and passed to the model",
    ]
    ctx.trusted += [
        "harness/sdk_ast.py (interpreter of SDK ASTs on the real connection; generator), harness/sdk_common.py "
        "(translation of real commands and observations into Coq terms, fail-closed), harness/sdk_pipeline.py",
        "correspondence and oracle evaluated by vm_compute inside coqc on generated case files (Sdk/SdkCheck.v)",
    ]
    ctx.props("C05")
    repo = ctx.repo
    fd = sc.probe_free_deactivates(repo)
    ctx.coverage["free_deactivates_probe"] = fd
    rng = ctx.rng
    quick = ctx.tier == "quick"

    items = []
    # corpus first
    for path in sorted(glob.glob(os.path.join(HERE, "..", "corpus", "C05", "*.json"))):
        rec = json.load(open(path))
        it = item_of(repo, fd, rec["prog"], rec["script"], "corpus:" + os.path.basename(path), bool(rec.get("late_reads")))
        it["expect_key"] = rec.get("key")
        it["no_struct"] = bool(rec.get("no_struct"))
        items.append(it)
    n_corpus = len(items)

    g = sa.Gen(rng, max_depth=4, size=7, flush_p=0.25)
    n_prog = 170 if quick else 1500
    kinds = {}
    depths = {}
    n_late = 0
    n_stale = 0
    for _ in range(n_prog):
        prog, script = g.program()
        sa.stmt_kinds(prog, kinds)
        d = sa.depth_of(prog)
        depths[d] = depths.get(d, 0) + 1
        items.append(item_of(repo, fd, prog, script, "random-flush"))
        if has_early_register_outcome(prog):
            # the same program, looking at its register outcomes only at the end
            items.append(item_of(repo, fd, prog, script, "late-reads", late=True))
            n_late += 1
        stmts = sa.strip_flushes(prog)
        n = len(stmts)
        cuts = sa.allowed_cuts(stmts)
        if len(cuts) <= 4:
            subsets = range(1 << len(cuts))
        else:
            subsets = sorted({0, (1 << len(cuts)) - 1, rng.getrandbits(len(cuts)), rng.getrandbits(len(cuts))})
        masks = [sum(1 << cuts[j] for j in range(len(cuts)) if (sub >> j) & 1) for sub in subsets]
        sc_ = sa.stale_cuts(stmts)
        if sc_:
            # a register outcome used as an operand by a LATER subroutine (behavioural oracle only)
            p = sa.with_flush_mask(stmts, 1 << rng.choice(sc_))
            try:
                it_ = item_of(repo, fd, p, script, "register-outcome-across-flush")
                it_["no_struct"] = True
                items.append(it_)
                n_stale += 1
            except sa.IllFormed:
                pass
        for m in masks:
            p = sa.with_flush_mask(stmts, m)
            if p == prog:
                continue
            try:
                items.append(item_of(repo, fd, p, script, "flush-mask"))
            except sa.IllFormed:
                pass
    # register outcomes handed from one subroutine to the next: measurements into registers in every
    # block, conditions and additions on outcomes of earlier blocks (behavioural oracle only)
    for _ in range(40 if quick else 400):
        prog, script = sa.gen_handover(rng)
        it_ = item_of(repo, fd, prog, script, "register-outcome-across-flush", late=rng.random() < 0.5)
        it_["no_struct"] = True
        items.append(it_)
        n_stale += 1
    # register outcomes carried across the iterations of an open loop (behavioural oracle only)
    n_carried = 0
    for _ in range(30 if quick else 300):
        prog, script = sa.gen_loop_carried(rng)
        it_ = item_of(repo, fd, prog, script, "register-outcome-across-iterations", late=rng.random() < 0.5)
        it_["no_struct"] = True
        items.append(it_)
        n_carried += 1
    ctx.coverage["stream"] = dict(base_programs=n_prog, cases=len(items), corpus=n_corpus, statement_kinds=kinds,
                                  late_read_cases=n_late, register_outcome_across_flush_cases=n_stale,
                                  register_outcome_across_iterations_cases=n_carried,
                                  depth_histogram=depths)
    for it in items:
        k = sa.stmt_kinds(it["prog"])
        nontrivial = any(x.startswith(("if_", "loop", "foreach", "enumerate", "until", "futadd", "regadd")) for x in k)
        ctx.note_case(json.dumps([it["prog"], it["script"]]), nontrivial)
    ctx.samples = [dict(sdk_program=it["prog"], outcome_script=it["script"]) for it in items[n_corpus:n_corpus + 3]]

    # implementation-only oracle: two arrays that are both in use never share an address
    n_sh = 0
    for it in items:
        sh = it["obs"].get("shared_addresses")
        if sh and n_sh < 3:
            n_sh += 1
            ctx.violation(f"two live arrays share address {sh[0][2]}: the arrays the program calls {sh[0][0]} and {sh[0][1]} "
                          f"(the later declaration wipes the earlier array on the controller)",
                          dict(sdk_program=it["prog"], outcome_script=it["script"], late_reads=bool(it.get("late")),
                               shared=sh[:5]), key=None)
    # implementation-only oracle: a handle read on the host equals the controller's value
    for it in items:
        bad = sc.host_equals_controller(it["obs"])
        if bad:
            ctx.violation("after a flush a handle read on the host differs from the controller's value: " + str(bad[0]),
                          dict(sdk_program=it["prog"], outcome_script=it["script"], discrepancies=bad[:5]), key=None)

    s_bad, b_bad, untrans = sc.run_batch(ctx, "main", items, shard=50)
    ctx.coverage["model_impl_mismatches"] = dict(structural=len(s_bad), behavioural=len(b_bad), untranslatable=len(untrans))
    known_seen = False
    n_reported = 0
    for i, code in sorted(b_bad.items()):
        it = items[i]
        if code == 1:
            ctx.gen_obligation("generated program is meaningful for the specification", False,
                               json.dumps(it["prog"])[:300])
            continue
        if code == 6:
            if not known_seen:
                report(ctx, it, code)
                known_seen = True
            continue
        if n_reported < 3:
            small = shrink(ctx, repo, fd, it)
            report(ctx, small, small.get("code", code))
        else:
            report(ctx, it, code)
        n_reported += 1
    for i, why in untrans[:3]:
        ctx.broken.append(f"the builder emitted a command the model has no constructor for: {why}; program "
                          f"{json.dumps(items[i]['prog'])[:200]}")
    only_struct = [i for i in s_bad if i not in b_bad]
    if only_struct:
        it = items[only_struct[0]]
        ctx.broken.append(f"correspondence flatten(lower P) vs the builder's commands: {len(only_struct)} differing "
                          f"programs whose behaviour still agrees with the spec, first: {json.dumps(it['prog'])[:400]}")
    if ctx.broken and not [v for v in ctx.violations if v["key"] is None]:
        search(ctx, repo, fd)
    if ctx.broken and not [v for v in ctx.violations if v["key"] is None]:
        # vlib turns `broken` into a violation only when no violation at all was recorded; the
        # replay of the known finding must not mask a correspondence that no longer checks
        wit = items[only_struct[0]] if only_struct else None
        ctx.violation("obligation no longer checks: " + "; ".join(ctx.broken)[:600],
                      dict(broken=ctx.broken, sdk_program=wit and wit["prog"], outcome_script=wit and wit["script"],
                           builder_commands=wit and wit["obs"]["protos"]), key=None, found_input=False)
    ctx.finish()


def search(ctx, repo, fd):
    """model and builder differ although no behavioural failure was seen on the stream: look
    harder around each construct for a program whose execution differs from the spec"""
    rng = ctx.rng
    for feats in (["if", "futadd"], ["loop", "futadd", "foreach"], ["until", "futadd"], ["newarr", "futadd", "if"], None):
        g = sa.Gen(rng, max_depth=3, size=5, flush_p=0.3, features=feats)
        items = []
        for _ in range(60):
            prog, script = g.program()
            items.append(item_of(repo, fd, prog, script, "search"))
        _, b_bad, _ = sc.run_batch(ctx, "search_" + "_".join(feats or ["all"]), items, shard=60)
        hits = [(i, c) for i, c in sorted(b_bad.items()) if c in (2, 3, 4, 5)]
        if hits:
            i, c = hits[0]
            small = shrink(ctx, repo, fd, items[i])
            report(ctx, small, small.get("code", c), " (found by the search after the correspondence broke)")
            return


def replay(ctx, path):
    rec = json.load(open(path))["replay"]
    prog, script = rec["sdk_program"], rec["outcome_script"]
    fd = sc.probe_free_deactivates(ctx.repo)
    it = item_of(ctx.repo, fd, prog, script, "replay", bool(rec.get("late_reads")))
    bad = sc.host_equals_controller(it["obs"])
    if it["obs"].get("shared_addresses"):
        ctx.violation("two live arrays share an address: " + str(it["obs"]["shared_addresses"][:3]), rec)
    _, b_bad, _ = sc.run_batch(ctx, "replay", [it])
    print("replay:", dict(pipeline_status=it["obs"]["status"], error=it["obs"].get("exc"), host_vs_controller=bad[:3],
                          oracle=sc.BCODE.get(b_bad.get(0), "agrees with direct execution")))
    if bad:
        ctx.violation("host handle differs from the controller's value", rec)
    if 0 in b_bad:
        ctx.violation(sc.BCODE.get(b_bad[0], str(b_bad[0])), rec, key=KEY_RETREG if b_bad[0] == 6 else None)
    ctx.finish()
