"""C01 — binary subroutine codec is lossless and uniquely decodable per flavour."""
import codec_common as cc


def run(ctx):
    ctx.rule = ("per flavour: every class x (pairwise-distinct operand pattern + each leaf at its boundary values) "
                "+ random in-range sequences (len 0..40) + object histories (serialize, change app id / replace or re-assign "
                "instructions / append / insert DebugInstruction pseudo-instructions in place, serialize again) "
                "+ random byte strings for decode; a case is non-trivial "
                "if it has at least one instruction; distinct = distinct (flavour, metadata, body)")
    impl = cc.prepare(ctx)
    if impl is None:
        return ctx.finish()
    ctx.props("C01")
    n_seq = 150 if ctx.tier == "quick" else 6000
    cases = cc.gen_sequences(ctx, impl, n_seq, 40)
    cases += cc.published_boundary_cases(impl)
    dcases = cc.gen_dcases(ctx, impl, 100 if ctx.tier == "quick" else 3000)
    hists = cc.gen_histories(ctx, impl, 40 if ctx.tier == "quick" else 1500)
    cases += cc.run_histories(ctx, impl, hists)
    ctx.samples = [dict(flavour=c[0], version=[c[1], c[2]], app_id=c[3], body=c[4]) for c in cases[:2] + cases[-2:]]
    mism = cc.correspond(ctx, impl, cases, dcases, oracle=True)
    # configuration: the global "using hardware" setting must not change the codec
    try:
        from netqasm.runtime import settings as _st
        _st.set_is_using_hardware(True)
        nhw = 0
        for c in [c for c in cases if c[5] in ("distinct", "boundary")] + cases[-60:]:
            res = impl.run_ecase(c[0], c[1], c[2], c[3], c[4])
            nhw += 1
            ctx.note_case(("hw",) + tuple(map(str, c[:5])))
            if res["bytes"] is None or res["oracle_ok"] is False:
                ctx.violation("decode(encode(s)) != s on the implementation with set_is_using_hardware(True)",
                              dict(flavour=c[0], version=[c[1], c[2]], app_id=c[3], body=c[4], got=res["dec"],
                                   err=res["err"], setting="set_is_using_hardware(True)"))
        ctx.coverage["cases_under_hardware_setting"] = nhw
    finally:
        _st.set_is_using_hardware(False)
    if mism and not ctx.violations:
        # model and implementation differ although the round-trip oracle held on these
        # inputs: the theorem no longer speaks about this code
        ctx.broken.append(f"correspondence Codec.encode_sub/decode_sub vs bytes(Subroutine)/deserialize: "
                          f"{len(mism)} differing cases, first: {str(mism[0])[:300]}")
    if ctx.broken and not ctx.violations:
        search(ctx, impl)
    ctx.finish()


def search(ctx, impl):
    """Something no longer checks: look for a concrete subroutine whose round trip fails."""
    import codec_impl as ci
    rng = ctx.rng
    for fname in cc.FLAVS:
        for row in impl.t["flavours"][fname]["rows"]:
            for _ in range(60):
                body = [ci.gen_in_range_instr(rng, row)]
                res = impl.run_ecase(fname, 1, 0, 0, body)
                if res["bytes"] is not None and res["oracle_ok"] is False:
                    ctx.violation("decode(encode(s)) != s on the implementation",
                                  dict(flavour=fname, version=[1, 0], app_id=0, body=body, got=res["dec"]), key=None)
                    return


def replay(ctx, path):
    import json
    rec = json.load(open(path))["replay"]
    impl = cc.prepare(ctx)
    res = impl.run_ecase(rec["flavour"], rec["version"][0], rec["version"][1], rec["app_id"],
                         [(n, lv) for n, lv in rec["body"]])
    print("replay:", res)
    if res["oracle_ok"] is False:
        ctx.violation("decode(encode(s)) != s", rec)
    ctx.finish()
