"""C19 — float angles are approximated within tolerance by encodable rotations."""
import glob
import json
import math
import os
from fractions import Fraction as F

import angle_common as ac

HERE = os.path.dirname(os.path.abspath(__file__))
CORPUS = os.path.join(os.path.dirname(os.path.dirname(HERE)), "corpus", "C19")


def replay_dict(angle, tol, got, why, via="get_angle_spec_from_float", **kw):
    d = dict(angle=float(angle).hex(), tol=float(tol).hex(), angle_repr=repr(float(angle)), tol_repr=repr(float(tol)),
             via=via, got=got, why=why)
    d.update(kw)
    return d


def check_one(ctx, impl, angle, tol, via="get_angle_spec_from_float", got=None, st="ok", extra=None, stats=None, obs=None):
    """oracle on one call; records the violation.  Returns (nds|None, oracle dict).
    obs: a list that receives the (rest, tol_rest) observed inside the implementation."""
    if via == "get_angle_spec_from_float":
        if obs is not None:
            got, st, o_ = impl.spec_traced(angle, tol)
            obs.append(o_)
        else:
            got, st = impl.spec(angle, tol)
        if st == "timeout" and stats is not None:
            stats["timeouts"] = stats.get("timeouts", 0) + 1
    o = ac.oracle(angle, tol, got)
    if not o["ok"]:
        if o["key"] is not None and stats is not None:
            stats["known_class_cases"] = stats.get("known_class_cases", 0) + 1
            if stats["known_class_cases"] > 2:
                return got, o      # the class is reported (witness + first two); do not flood replays/
        ctx.violation(f"{via}: {o['why']} ({st})", replay_dict(angle, tol, got, o["why"], via, **(extra or {})),
                      key=o["key"])
    return got, o


def rots_of_record(rec):
    if "rots" in rec:
        return [ac.rot_from_json(o) for o in rec["rots"]]
    r = dict(axis=rec.get("axis", "Z"), angle=float.fromhex(rec["angle"]))
    for k in ("n", "d"):
        if k in rec:
            r[k] = rec[k]
    return [r]


GENERIC = ("generic", False)


def steps_of_call(impl, r, tol):
    """the steps one call must produce: get_angle_spec_from_float(angle) or [(n, d)]; None if the toolbox raised"""
    if r.get("angle") is not None:
        w, _ = impl.spec(r["angle"], tol)
        return w
    return [[r.get("n", 0), r.get("d", 0)]]


def builder_check(ctx, impl, rots, stats=None, cases=None, extra=None, cfg=GENERIC):
    """rot_<axis>(n=, d=, angle=) calls on one qubit of a real connection built under configuration cfg
    (see Impl.emit), the committed bytes decoded again, one segment per call.  Per call:  angle given (with or
    without n, d)  -> the emitted (n, d) list must be what get_angle_spec_from_float(angle) returns AND realise
    the ANGLE (oracle);  angle not given -> exactly one instruction carrying (n, d).  Under
    compiler=NVSubroutineTranspiler with is_using_hardware the unchanged tree rescales steps with d <= 4 to
    (n*2^(4-d), 4) and refuses (ValueError) steps with d > 4 (ac.hw_expected): a refusal is accepted there,
    and the rotation commands pending BEFORE the transpiler must be the plain steps in every case.
    Returns the number of rotation calls checked."""
    tol = impl.default_tol
    rj = [ac.rot_json(r) for r in rots]
    ex = dict(extra or {})
    ex.update(config=cfg[0], is_using_hardware=cfg[1])

    def rec(i, got, why, **kw):
        r = rots[i]
        d = dict(via="builder", rots=rj, index=i, axis=r["axis"], n=r.get("n"), d=r.get("d"),
                 angle=rj[i].get("angle"), angle_repr=rj[i].get("angle_repr"), tol=float(tol).hex(), got=got, why=why)
        d.update(ex)
        d.update(kw)
        return d

    steps = [steps_of_call(impl, r, tol) for r in rots]
    exp = [ac.hw_expected(cfg, st) if st is not None else ("same", None) for st in steps]
    refusal_ok = any(r.get("angle") is None and not (0 <= r.get("n", 0) <= 255 and 0 <= r.get("d", 0) <= 255) for r in rots) \
        or any(m == "refuse" for m, _ in exp)
    segs = impl.emit(rots, cfg=cfg)
    if cfg[0] == "nvcompiler" and all(st is not None for st in steps) and impl.last_pending is not None:
        pre = [[n, d] for (_, n, d) in impl.last_pending]
        flat = [list(x) for st in steps for x in st]
        # one connection per call: after a refusal the remaining calls are not made, so only a prefix is there
        if (pre != flat) if segs is not None else (pre != flat[:len(pre)]):
            ctx.violation("rotation commands pending before the NV transpiler differ from the steps of the calls",
                          rec(0, pre, "builder (before the transpiler) emits other steps", want=flat))
    if segs is None:
        if not refusal_ok:
            ctx.violation("rot_X/Y/Z(...) raised", rec(0, None, "builder raised", pending_before_flush=str(impl.last_pending)))
            if cases is not None:
                for r in rots:
                    if r.get("angle") is not None:
                        cases.append((float(r["angle"]), tol, None))
        elif stats is not None:
            stats["refused"] = stats.get("refused", 0) + 1
        return len(rots)
    for i, (r, seg) in enumerate(zip(rots, segs)):
        got = [[n, d] for (_, n, d) in seg]
        mn_ok = all(m == "rot_" + r["axis"].lower() for (m, _, _) in seg)
        want = exp[i][1] if exp[i][0] == "same" else steps[i]
        if r.get("angle") is not None:
            a = float(r["angle"])
            if want is None or got != want or not mn_ok:
                ctx.violation("emitted rotation instructions differ from get_angle_spec_from_float(angle)",
                              rec(i, got, "builder emits other steps than the toolbox returns for the angle", want=want,
                                  emitted=[list(x) for x in seg]))
            # the property itself: the emitted list realises the ANGLE, whatever n and d were passed along
            check_one(ctx, impl, a, tol, via="builder", got=got, st="emitted",
                      extra=dict(rots=rj, index=i, axis=r["axis"], n=r.get("n"), d=r.get("d"), **ex), stats=stats)
            if cases is not None:
                cases.append((a, tol, got))
            ctx.note_case((json.dumps(rj[i], sort_keys=True), "builder", cfg), nontrivial=bool(got))
        else:
            if got != want or not mn_ok:
                ctx.violation("rot_<axis>(n, d) without angle did not emit exactly one instruction carrying (n, d)",
                              rec(i, got, "n/d route altered", want=want, emitted=[list(x) for x in seg]))
            ctx.note_case((json.dumps(rj[i], sort_keys=True), "builder-nd", cfg), nontrivial=True)
    return len(rots)


def e2e_check(ctx, impl, rots, hardware, stats, extra=None):
    """End-to-end leg of the builder route: the calls are executed by the package's base Executor; per emitted
    step the performed angle must be n*pi/2^d, per call with an angle the performed angles must add up to
    the requested angle modulo 2 pi within tol + allowance, per n/d-only call exactly one step (n, d)."""
    tol = impl.default_tol
    if any(r.get("angle") is None and not (0 <= r.get("n", 0) <= 255 and 0 <= r.get("d", 0) <= 255) for r in rots):
        return
    rj = [ac.rot_json(r) for r in rots]
    segs = impl.run_e2e(rots, hardware)
    stats["e2e_calls"] = stats.get("e2e_calls", 0) + len(rots)

    def rec(i, got, why, **kw):
        r = rots[i]
        d = dict(via="e2e", hardware=hardware, rots=rj, index=i, axis=r["axis"], n=r.get("n"), d=r.get("d"),
                 angle=rj[i].get("angle"), angle_repr=rj[i].get("angle_repr"), tol=float(tol).hex(), performed=got, why=why)
        d.update(extra or {})
        d.update(kw)
        return d

    if segs is None:
        ctx.violation("end to end: building / executing the rotation raised", rec(0, None, "pipeline raised"))
        return
    for i, (r, seg) in enumerate(zip(rots, segs)):
        perf = [[m, n, d, float(a).hex()] for (m, n, d, a) in seg]
        stats["e2e_steps"] = stats.get("e2e_steps", 0) + len(seg)
        for (m, n, d, a) in seg:
            if m != "rot_" + r["axis"].lower() or not ac.step_angle_ok(n, d, a):
                ctx.violation("end to end: the executor performs another angle than n*pi/2^d for an emitted step",
                              rec(i, perf, "step (%d, %d) performed as %r rad, n*pi/2^d = %r" % (n, d, a, n * math.pi / 2 ** d),
                                  step=[n, d], performed_angle=float(a).hex()))
                break
        if r.get("angle") is not None:
            ok, err = ac.performed_oracle(float(r["angle"]), tol, seg)
            if not ok:
                ctx.violation("end to end: performed rotation misses the requested angle by %.6g rad > tol %g" % (err, tol),
                              rec(i, perf, "sum of the angles handed to the backend differs from the requested angle", error=err))
        elif [[n, d] for (_, n, d, _) in seg] != [[r.get("n", 0), r.get("d", 0)]]:
            ctx.violation("end to end: rot_<axis>(n, d) did not execute exactly one step (n, d)", rec(i, perf, "n/d route altered"))
        ctx.note_case((json.dumps(rj[i], sort_keys=True), "e2e", hardware), nontrivial=bool(seg))


def e2e_sweep(ctx, impl, stats):
    """exhaustive: every (n, d), n in 0..255, d in 0..31 and boundary exponents, through rot_Z(n, d) ->
    builder -> bytes -> Executor: the performed angle is n*pi/2^d"""
    bad = 0
    for d in ac.SWEEP_D:
        rots = [dict(axis="XYZ"[(n + d) % 3], n=n, d=d) for n in range(256)]
        segs = impl.run_e2e(rots, "generic", flush_each=False)
        steps = None if segs is None else segs[0]
        if steps is None or [(n_, d_) for (_, n_, d_, _) in steps] != [(n, d) for n in range(256)]:
            ctx.violation("end to end sweep: rotations (n, %d), n = 0..255 were not all executed" % d,
                          dict(via="e2e-sweep", d=d, executed=None if steps is None else len(steps)))
            bad += 1
            continue
        for (m, n, d_, a) in steps:
            stats["sweep_pairs"] = stats.get("sweep_pairs", 0) + 1
            if not ac.step_angle_ok(n, d_, a):
                bad += 1
                if bad <= 3:
                    ctx.violation("end to end sweep: the executor performs (%d, %d) as %r rad, n*pi/2^d = %r" % (
                        n, d_, a, n * math.pi / 2 ** d_),
                        dict(via="e2e", hardware="generic", rots=[dict(axis=m[-1].upper(), n=n, d=d_)], index=0, axis=m[-1].upper(),
                             n=n, d=d_, performed_angle=float(a).hex(), why="performed angle differs from n*pi/2^d"))
    stats["sweep_bad"] = bad


def run_check(ctx, impl, rots, extra=None, cfg=GENERIC, stats=None):
    """2..4 consecutive rotation calls on one qubit WITHOUT separator, under configuration cfg: oracle on the
    whole emitted run (flush succeeds, every instruction encodable, per maximal same-axis group the steps add
    up to the sum of the requested angles); tie: the run is the concatenation of one instruction per step.
    Returns True if the run is exactly that concatenation (or was refused where the tree defines a refusal)."""
    tol = impl.default_tol
    rj = [ac.rot_json(r) for r in rots]
    steps = [steps_of_call(impl, r, tol) for r in rots]
    if any(st is None for st in steps):
        return False
    exp = [ac.hw_expected(cfg, st) for st in steps]
    refuse = any(m == "refuse" for m, _ in exp)
    run = impl.emit(rots, separate=False, cfg=cfg)
    ex = dict(extra or {})
    ex.update(config=cfg[0], is_using_hardware=cfg[1])
    if cfg[0] == "nvcompiler" and impl.last_pending is not None:
        pre = [[m, n, d] for (m, n, d) in impl.last_pending]
        flat = [["rot_" + r["axis"].lower(), n, d] for r, st in zip(rots, steps) for n, d in st]
        if pre != flat:
            d = dict(via="builder-run", rots=rj, tol=float(tol).hex(), got=pre, want=flat,
                     why="rotation commands pending before the NV transpiler differ from the steps of the calls")
            d.update(ex)
            ctx.violation("consecutive rotations: commands before the NV transpiler differ from the steps", d)
    ctx.note_case((json.dumps(rj, sort_keys=True), "builder-run", cfg), nontrivial=True)
    if run is None and refuse:
        if stats is not None:
            stats["refused"] = stats.get("refused", 0) + 1
        return True
    o = ac.run_oracle(rots, run, tol)
    got = None if run is None else [list(x) for x in run]
    if not o["ok"]:
        d = dict(via="builder-run", rots=rj, tol=float(tol).hex(), got=got, why=o["why"],
                 pending_before_flush=str(impl.last_pending) if run is None else None)
        d.update(ex)
        ctx.violation("consecutive rotations: " + o["why"][:200], d)
    want = []
    for r, st, (m, e) in zip(rots, steps, exp):
        want += [["rot_" + r["axis"].lower(), n, d] for n, d in (e if m == "same" else st)]
    return got == want


def cfg_of_record(rec):
    return (rec.get("config", "generic"), bool(rec.get("is_using_hardware", False)))


def run_corpus(ctx, impl):
    """fixed defects must stay fixed; recorded findings are replayed through the oracle"""
    n = 0
    for p in sorted(glob.glob(os.path.join(CORPUS, "*.json"))):
        for rec in json.load(open(p))["cases"]:
            n += 1
            if rec.get("via") == "e2e":
                e2e_check(ctx, impl, rots_of_record(rec), rec.get("hardware", "generic"), {}, extra=dict(corpus=os.path.basename(p)))
            elif rec.get("via") == "builder-run":
                run_check(ctx, impl, rots_of_record(rec), extra=dict(corpus=os.path.basename(p)), cfg=cfg_of_record(rec))
            elif rec.get("via") == "builder":
                builder_check(ctx, impl, rots_of_record(rec), extra=dict(corpus=os.path.basename(p)), cfg=cfg_of_record(rec))
            else:
                check_one(ctx, impl, float.fromhex(rec["angle"]), float.fromhex(rec["tol"]), extra=dict(corpus=os.path.basename(p)))
    return n


def run(ctx):
    quick = ctx.tier == "quick"
    ctx.rule = ("doubles (angle, tol): deterministic families (special values incl. -1e-20, +-2pi and neighbours; "
                "m*pi/2^k and +-1..3 ulp; rest next to 255/2^k, 127/2^k, 128/2^k (d-window edges); within tol of 0 and of 2pi "
                "in radians and in half turns, both signs) + random (uniform [0,2pi), [-2pi,0), 2pi<|a|<100, 1e-12<|a|<1, "
                "1e2<|a|<1e6, 1e6<|a|<1e18), tol in {1e-1..1e-9} or log-uniform (quick tier: every third member of the deterministic families); plus rot_X/Y/Z(angle=) on a real connection "
                "(default tol; three routes: angle only, angle together with non-default n and d - which the documentation says are ignored -, n and d only - emitted verbatim; a Hadamard separates the calls) and as runs of 2..4 consecutive calls without separator (whole-run oracle per maximal same-axis group); every builder program under six configurations: default / hardware_config=NVHardwareConfig / compiler=NVSubroutineTranspiler, each with set_is_using_hardware False and True; end-to-end leg: programs executed by the base Executor, the angle handed to _do_single_qubit_rotation compared per step with n*pi/2^d and per call with the requested angle; exhaustive sweep of (n, d), n 0..255, d 0..31 and boundary exponents. Every case: implementation vs Coq model as exact (n,d) lists, and the oracle "
                "(1<=n<=255, 0<=d<=255, circle distance |sum n*pi/2^d - angle| <= tol + 2^-49 in 80-digit rationals). "
                "non-trivial = at least one rotation step emitted; distinct = distinct (angle bits, tol bits, route)")
    impl = ac.Impl(ctx.repo)
    stats = {}

    # ---- G-tie: field widths / IMMEDIATE_BITS, then the property file
    ok, err = ctx.gen("angle_consts.py", "Gen_Angle.v")
    ctx.gen_obligation("gen/angle_consts.py reads IMMEDIATE_BITS and the rotation layouts", ok, err[-300:])
    if ok:
        r = ctx.coqc("Gen_Angle.v")
        ctx.gen_obligation("Gen_Angle.v compiles", r.ok, r.err[-300:])
    ctx.props("C19")
    if not quick and not ctx.broken:
        # independent re-check of the whole .vo closure of the property file
        import subprocess
        from vlib import COQ
        r = subprocess.run(["timeout", "900", "coqchk", "-silent", "-o", "-Q", COQ, "NQ", "-Q", ctx.build, "Gen", "Gen.C19"],
                           capture_output=True, text=True, cwd=ctx.build)
        txt = r.stdout + r.stderr
        ok = r.returncode == 0 and "Axioms: <none>" in txt and "type-in-type: <none>" in txt
        ctx.checker_cmds.append("coqchk -silent -o -Q coq NQ -Q build/C19 Gen Gen.C19")
        ctx.gen_obligation("coqchk -o on the closure of C19.vo: no axioms, nothing assumed", ok, txt[-300:])

    # ---- corpus (old witnesses of repaired defects, recorded finding)
    n_corpus = run_corpus(ctx, impl)

    # ---- generated stream: implementation + oracle
    n_rand = 1000 if quick else 400000
    gen = ac.gen_cases(ctx.rng, n_rand, thin=3 if quick else 1)
    cases, cls_count, len_count, tol_count, maxd = [], {}, {}, {}, 0
    fcases, unobserved = [], 0
    n_front = 2500 if quick else 25000     # calls whose front-end values are observed and compared
    fe_max, fe_arg, fe_by_decade = 0.0, None, {}
    excess_max, excess_arg = -1.0, None
    for angle, tol, cls in gen:
        if stats.get("timeouts", 0) >= 3:
            # the implementation does not return (2 s limit per call): stop feeding it, the
            # violations are recorded
            ctx.notes.append("generation stopped after 3 calls that did not return within 2 s")
            gen = gen[:len(cases)]
            break
        ob = []
        got, o = check_one(ctx, impl, angle, tol, stats=stats, obs=ob if len(cases) < n_front else None)
        if ob:
            if ob[0] is None:
                unobserved += 1
                fcases.append((angle, tol) + ac.front_replica(angle, tol))
            else:
                fcases.append((angle, tol) + ob[0])
        cases.append((angle, tol, got))
        cls_count[cls] = cls_count.get(cls, 0) + 1
        ln = -1 if got is None else len(got)
        len_count[ln] = len_count.get(ln, 0) + 1
        dec = "1e%d" % math.floor(math.log10(tol))
        tol_count[dec] = tol_count.get(dec, 0) + 1
        if got:
            maxd = max(maxd, max(d for _, d in got))
        ctx.note_case((float(angle).hex(), float(tol).hex(), "spec"), nontrivial=bool(got))
        # front-end error against exact arithmetic
        fe = ac.front_end_error(angle)
        turns = abs(math.floor(F(angle) / (2 * ac.PI_D)))
        if turns <= 2:
            if fe > fe_max:
                fe_max, fe_arg = fe, float(angle).hex()
            if o["ok"] and o["excess"] is not None and o["excess"] > excess_max:
                excess_max, excess_arg = o["excess"], [float(angle).hex(), float(tol).hex()]
        else:
            k = "1e%d" % math.floor(math.log10(abs(angle)))
            fe_by_decade[k] = max(fe_by_decade.get(k, 0.0), fe)
    ctx.log(f"{len(gen)} calls run through the oracle")
    # threshold tol / np.pi (float) against tol / pi: relative excess of thr * pi over tol
    import numpy as np
    thr_rel = max((float(F(t / np.pi) * ac.PI / F(t) - 1) for t in {c[1] for c in gen}), default=0.0)

    # ---- builder route: rot_X/Y/Z(angle=...) -> bytes -> decoded instructions
    bcases = [] if stats.get("timeouts", 0) >= 3 else ac.gen_builder_cases(ctx.rng, 300 if quick else 3000)
    b_rot = 0
    b_kinds = dict(angle_only=0, angle_with_n_d=0, n_d_only=0)
    b_cfg = {}
    for k, rots in enumerate(bcases):
        for cfg in ac.CONFIGS:
            # generic/simulation: every program (and the Coq correspondence); each of the other five
            # configurations: every third program in quick, every fourth in thorough
            if cfg != GENERIC and k % (3 if quick else 4) != ac.CONFIGS.index(cfg) % (3 if quick else 4):
                continue
            nr = builder_check(ctx, impl, rots, stats=stats, cases=cases if cfg == GENERIC else None, cfg=cfg)
            b_cfg["%s/hw=%s" % cfg] = b_cfg.get("%s/hw=%s" % cfg, 0) + nr
            if cfg == GENERIC:
                b_rot += nr
                # end-to-end leg: quick every second program (generic) / every sixth (nv); thorough every program / every third
                if k % (2 if quick else 1) == 0:
                    e2e_check(ctx, impl, rots, "generic", stats)
                if k % (6 if quick else 3) == 1:
                    e2e_check(ctx, impl, rots, "nv", stats)
        for r in rots:
            b_kinds["n_d_only" if r.get("angle") is None else "angle_with_n_d" if ("n" in r or "d" in r) else "angle_only"] += 1

    ctx.log(f"{len(bcases)} builder programs checked under the configurations")
    if stats.get("timeouts", 0) < 3:
        e2e_sweep(ctx, impl, stats)
    ctx.coverage["end_to_end"] = dict(
        what="builder -> bytes -> base Executor (harness/sdk_pipeline.py); the angle handed to _do_single_qubit_rotation is recorded",
        calls=stats.get("e2e_calls", 0), executed_steps=stats.get("e2e_steps", 0),
        sweep_pairs_n_d=stats.get("sweep_pairs", 0), sweep_exponents=ac.SWEEP_D, sweep_exhaustive_n=[0, 255],
        sweep_failures=stats.get("sweep_bad", 0))
    ctx.log(f"end to end: {stats.get('e2e_calls', 0)} calls, sweep of {stats.get('sweep_pairs', 0)} (n, d) pairs")
    # ---- consecutive rotation calls without separator (whole-run oracle)
    runs = [] if stats.get("timeouts", 0) >= 3 else ac.gen_builder_runs(ctx.rng, 300 if quick else 4000, impl.default_tol)
    run_diff = []
    r_cfg = {}
    for k, rots in enumerate(runs):
        for cfg in ac.CONFIGS:
            if cfg != GENERIC and k % (3 if quick else 4) != ac.CONFIGS.index(cfg) % (3 if quick else 4):
                continue
            r_cfg["%s/hw=%s" % cfg] = r_cfg.get("%s/hw=%s" % cfg, 0) + 1
            if not run_check(ctx, impl, rots, cfg=cfg, stats=stats):
                run_diff.append(rots)
    ctx.coverage["builder_runs"] = dict(runs=len(runs), calls=sum(len(r) for r in runs),
                                        same_axis_pairs=sum(1 for r in runs for x, y in zip(r, r[1:]) if x["axis"] == y["axis"]),
                                        not_one_instruction_per_step=len(run_diff), runs_per_configuration=r_cfg)
    ctx.coverage["builder_configurations"] = dict(
        calls_per_configuration=b_cfg, refused_by_nv_transpiler_on_hardware=stats.get("refused", 0),
        what="generic = default DebugConnection; nvhw = hardware_config=NVHardwareConfig(5); nvcompiler = "
             "compiler=NVSubroutineTranspiler (stream read before the transpiler from the builder's pending commands and "
             "after it from the committed bytes, NV flavour); hw = set_is_using_hardware(value) during the program")
    if run_diff and not [v for v in ctx.violations if v["key"] is None]:
        ctx.broken.append(f"builder run is not the concatenation of one instruction per step: {len(run_diff)} runs, first: "
                          f"{json.dumps([ac.rot_json(r) for r in run_diff[0]])[:400]}")

    ctx.log(f"{len(runs)} consecutive-rotation runs checked")
    # ---- correspondence with the Coq model (vm_compute inside coqc)
    n_coq = len(cases) if quick else min(len(cases), 50000)
    if not quick and n_coq < len(cases):
        # all deterministic families and builder cases, plus a random sample of the rest
        det = [i for i, c in enumerate(gen) if c[2] not in ("uniform[0,2pi)", "uniform[-2pi,0)")]
        rest = [i for i in range(len(cases)) if i >= len(gen) or gen[i][2] in ("uniform[0,2pi)", "uniform[-2pi,0)")]
        keep = set(det[:n_coq]) | set(ctx.rng.sample(rest, max(0, min(len(rest), n_coq - len(det)))))
        sel = sorted(keep)
    else:
        sel = list(range(len(cases)))
    # both sets of case files are evaluated at the same time (separate coqc processes)
    from concurrent.futures import ThreadPoolExecutor
    with ThreadPoolExecutor(max_workers=2) as pool:
        fut_front = pool.submit(ac.correspond_front, ctx, fcases, 250 if quick else 500)
        codes = ac.correspond(ctx, [cases[i] for i in sel], per_file=250 if quick else 500)
        fcodes = fut_front.result()
    mism = []
    if codes is not None:
        hist = {0: len(sel) - len(codes)}
        for j, c in codes.items():
            hist[c] = hist.get(c, 0) + 1
            a_, t_ = cases[sel[j]][0], cases[sel[j]][1]
            subnormal = (0 < abs(a_) < 1e-300) or (0 < t_ < 1e-300)   # intermediates leave the normal range: not modelled
            if c == 2 or (c == 3 and not subnormal):
                mism.append((sel[j], c))
        ctx.coverage["correspondence"] = dict(
            cases=len(sel), equal_to_exact_arithmetic=hist.get(0, 0), other_d_inside_window=hist.get(1, 0),
            not_allowed_by_model=hist.get(2, 0), front_end_outside_model_subnormal_inputs=hist.get(3, 0),
            samples_other_d=[[float(cases[sel[j]][0]).hex(), float(cases[sel[j]][1]).hex(), cases[sel[j]][2]]
                             for j, c in list(codes.items())[:200] if c == 1][:4])
        ctx.log(f"correspondence: {hist}")
    # ---- float front end: observed (rest, tol_rest) vs PrimFloat model vs rational model, allowance
    fmism = []
    if fcodes is not None:
        fh = dict(cases=len(fcases), observed_in_the_implementation=len(fcases) - unobserved, replica_used=unobserved,
                  primfloat_differs_from_observed=0, rational_differs_from_primfloat=0,
                  allowance_exceeded_within_two_turns=0, allowance_exceeded_beyond_two_turns=0, rest_or_thr_out_of_range=0)
        fbad = []
        for j, bits in fcodes.items():
            a_, t_ = fcases[j][0], fcases[j][1]
            far = abs(math.floor(F(a_) / (2 * ac.PI_D))) > 2
            if bits & 1:
                fh["primfloat_differs_from_observed"] += 1
            if bits & 2:
                fh["rational_differs_from_primfloat"] += 1
            if bits & 8:
                fh["rest_or_thr_out_of_range"] += 1
            if bits & 4:
                fh["allowance_exceeded_beyond_two_turns" if far else "allowance_exceeded_within_two_turns"] += 1
            if (bits & 11) or ((bits & 4) and not far):
                fbad.append((j, bits))
        ctx.coverage["front_end_correspondence"] = fh
        ctx.log(f"front end: {fh}")
        if fbad:
            j, bits = fbad[0]
            ctx.broken.append(f"float front end (AngleFloat.front_f / Angle.front / fe_ok) vs implementation: {len(fbad)} cases, first: "
                              f"angle={float(fcases[j][0]).hex()} tol={float(fcases[j][1]).hex()} observed rest={float(fcases[j][2]).hex()} "
                              f"tol_rest={float(fcases[j][3]).hex()} bits={bits}")
            fmism = [(j, 100 + bits) for j, bits in fbad[:20]]
    if mism:
        i, c = mism[0]
        ctx.broken.append(f"correspondence Angle.spec_all vs get_angle_spec_from_float: {len(mism)} differing cases, first: "
                          f"angle={float(cases[i][0]).hex()} tol={float(cases[i][1]).hex()} impl={cases[i][2]} code={c}")

    # ---- something no longer checks although the oracle held so far: search
    if ctx.broken and not [v for v in ctx.violations if v["key"] is None]:
        mism = mism + fmism
        search(ctx, impl, mism, cases)
        if not [v for v in ctx.violations if v["key"] is None]:
            # vlib.finish() adds the no-failing-input-found violation only when there is no
            # violation at all; the replayed known finding must not mask a broken tie
            ctx.violation("no longer checks: " + "; ".join(ctx.broken)[:600],
                          dict(broken=ctx.broken, differing_cases=[
                              dict(angle=float(cases[i][0]).hex(), tol=float(cases[i][1]).hex(), impl=cases[i][2], code=c)
                              for i, c in mism[:10]]), key=None, found_input=False)

    ctx.samples = [dict(angle=float(a).hex(), angle_repr=repr(a), tol=t, steps=g) for a, t, g in
                   [cases[0], cases[len(gen) // 3], cases[len(gen) // 2], cases[len(gen) - 1], cases[-1]]]
    ctx.coverage.update(dict(
        corpus_cases=n_corpus, classes=cls_count, result_lengths={str(k): v for k, v in sorted(len_count.items())},
        tol_decades=tol_count, max_d_emitted=maxd, builder_connections=len(bcases), builder_rotations=b_rot, builder_routes=b_kinds,
        known_class_cases=stats.get("known_class_cases", 0),
        front_end=dict(
            what="error of rest=(angle % 2pi)/pi (float, as in the code) against 80-digit arithmetic, radians on the circle",
            max_error_turns_le_2=fe_max, argmax=fe_arg, allowance_2_pow_minus_49=float(ac.FE_ALLOW),
            max_error_by_decade_of_abs_angle=dict(sorted(fe_by_decade.items())),
            max_excess_over_tol_on_passing_cases=excess_max, argmax_excess=excess_arg,
            max_relative_excess_of_float_threshold_times_pi_over_tol=thr_rel)))
    ctx.trusted += [
        "gen/angle_consts.py (reads IMMEDIATE_BITS and the ctypes widths of the rotation immediates)",
        "harness/angle_common.py: oracle in exact rationals with an 80-digit rational for pi; case-file emission; parsing of the printed failing list",
        "standard mathematics, not formalised: PI_LO < pi < PI_HI for the two 21-digit rationals in Num/Angle.v",
    ]
    ctx.assume += [
        "float front end (angle % 2pi, / pi, `if rest >= 2`, tol / pi) is modelled (binary64 round-to-nearest-even on rationals, "
        "C fmod, CPython float %) and tied by the correspondence run only; its error is measured (coverage.front_end) and the "
        "oracle allows 2^-49 rad for it; not modelled: subnormal/overflowing intermediates",
        "np.log2 is not modelled: the model admits every d with 127 <= rest*2^d < 256; theorems hold for all of them",
        "theorems speak about rest and tol_rest (half turns); the statement in radians relative to the true angle needs the "
        "front-end error bound and is kept as C19_radians_full (see design/C19.md)",
        "|angle| beyond a few turns: range reduction by the double 2*pi (recorded finding " + ac.KEY_RR + ")",
    ]
    ctx.finish()


def search(ctx, impl, mism, cases):
    """model and code differ (or an obligation broke): look for an input on which the property itself fails"""
    rng = ctx.rng
    # around the differing cases first
    for i, _ in mism[:50]:
        a, t, _g = cases[i]
        for st in range(-8, 9):
            for tt in (t, 1e-9, 1e-4, 1e-1):
                _, o = check_one(ctx, impl, ac.nxt(a, st), tt)
                if not o["ok"] and o["key"] is None:
                    return
    for a, t, _c in ac.gen_cases(rng, 60000, with_large=False):
        _, o = check_one(ctx, impl, a, t)
        if not o["ok"] and o["key"] is None:
            return
    for rots in ac.gen_builder_cases(rng, 500):
        for cfg in ac.CONFIGS:
            builder_check(ctx, impl, rots, cfg=cfg)
        if [v for v in ctx.violations if v["key"] is None]:
            return
    for rots in ac.gen_builder_runs(rng, 6000, impl.default_tol):
        run_check(ctx, impl, rots)
        if [v for v in ctx.violations if v["key"] is None]:
            return


def replay(ctx, path):
    rec = json.load(open(path))["replay"]
    impl = ac.Impl(ctx.repo)
    if rec.get("via") == "e2e":
        rots = rots_of_record(rec)
        print("replay (e2e):", rec.get("hardware", "generic"), rots, "->", impl.run_e2e(rots, rec.get("hardware", "generic")))
        e2e_check(ctx, impl, rots, rec.get("hardware", "generic"), {})
    elif rec.get("via") == "builder-run":
        rots = rots_of_record(rec)
        cfg = cfg_of_record(rec)
        print("replay (builder-run):", cfg, rots, "->", impl.emit(rots, separate=False, cfg=cfg))
        run_check(ctx, impl, rots, cfg=cfg)
    elif rec.get("via") == "builder":
        rots = rots_of_record(rec)
        cfg = cfg_of_record(rec)
        print("replay (builder):", cfg, rots, "->", impl.emit(rots, cfg=cfg))
        builder_check(ctx, impl, rots, cfg=cfg)
    else:
        angle, tol = float.fromhex(rec["angle"]), float.fromhex(rec["tol"])
        got, o = check_one(ctx, impl, angle, tol)
        print("replay:", repr(angle), repr(tol), "->", got, o)
    ctx.finish()
