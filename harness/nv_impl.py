"""Implementation side of the C08 correspondence: programs as plain tuples <-> real
instruction objects, the real NVSubroutineTranspiler, the real Executor (through
harness/sdk_pipeline.py), canonical integer encodings (mirroring
coq/Nv/TranspileCheck.v) and Coq text emission.

Program representation (mirrors coq/Nv/Transpile.v `instr`), reg = (bank, idx):
 ("set", r, v) ("arith", sub, d, a, b) ("arithm", sub, d, a, b, m) ("load", r, addr, ix)
 ("store", r, addr, ix) ("lea", r, addr) ("undef", addr, ix) ("array", size, addr) ("ret_reg", r)
 ("ret_arr", addr) ("jmp", t) ("br1", c, r, t) ("br2", c, a, b, t) ("q", kind, r) ("meas", q, m)
 ("g1", g, r) ("rot", ax, r, n, d) ("g2", g, r0, r1) ("crot", ax, r0, r1, n, d) ("debug", txt)
 ("other", name, tops, inner, wr, imms)
"""
import copy
import sys

import numpy as np

BANKS = ["R", "C", "Q", "M"]
G1 = ["x", "y", "z", "h", "k", "s", "t"]
AXES = ["x", "y", "z"]
G2 = ["cnot", "cphase", "mov"]
BR1 = ["bez", "bnz"]
BR2 = ["beq", "bne", "blt", "bge"]
QK = ["qalloc", "init", "qfree"]
ERR = {"AssertionError": 1, "RuntimeError": 2, "ValueError": 3, "KeyError": 4}


def _define_vanilla_mov():
    """netqasm's executor has no operator for vanilla `mov`; its meaning (C07's mov_transfers) is a state
    transfer onto a freshly initialised target.  On such inputs that is a SWAP; the oracle programs
    re-initialise the source right after the move, so the state the source is left in does not matter."""
    import sdk_pipeline

    sdk_pipeline.GATES.setdefault("mov", np.array([[1, 0, 0, 0], [0, 0, 1, 0], [0, 1, 0, 0], [0, 0, 0, 1]], dtype=complex))


class NvImpl:
    def __init__(self, repo):
        if sys.path[0] != repo:
            sys.path.insert(0, repo)
        import netqasm

        assert netqasm.__file__.startswith(repo), netqasm.__file__
        from netqasm.lang import operand
        from netqasm.lang.instr import DebugInstruction, core, nv, vanilla
        from netqasm.lang.instr.flavour import NVFlavour, VanillaFlavour
        from netqasm.lang.parsing import deserialize
        from netqasm.lang.subroutine import Subroutine
        from netqasm.runtime import settings
        from netqasm.sdk.transpile import NVSubroutineTranspiler

        _define_vanilla_mov()
        self.repo = repo
        self.op, self.core, self.nv, self.van = operand, core, nv, vanilla
        self.Debug, self.Subroutine, self.T = DebugInstruction, Subroutine, NVSubroutineTranspiler
        self.settings, self.deserialize = settings, deserialize
        self.NVFlavour, self.VanillaFlavour = NVFlavour, VanillaFlavour
        c, v, n = core, vanilla, nv
        self.cls_g1 = dict(x=v.GateXInstruction, y=v.GateYInstruction, z=v.GateZInstruction, h=v.GateHInstruction,
                           k=v.GateKInstruction, s=v.GateSInstruction, t=v.GateTInstruction)
        self.cls_rot = {("van", "x"): v.RotXInstruction, ("van", "y"): v.RotYInstruction, ("van", "z"): v.RotZInstruction,
                        ("nv", "x"): n.RotXInstruction, ("nv", "y"): n.RotYInstruction, ("nv", "z"): n.RotZInstruction}
        self.cls_g2 = dict(cnot=v.CnotInstruction, cphase=v.CphaseInstruction, mov=v.MovInstruction)
        self.cls_crot = dict(x=n.ControlledRotXInstruction, y=n.ControlledRotYInstruction)
        self.cls_br1 = dict(bez=c.BezInstruction, bnz=c.BnzInstruction)
        self.cls_br2 = dict(beq=c.BeqInstruction, bne=c.BneInstruction, blt=c.BltInstruction, bge=c.BgeInstruction)
        self.cls_q = dict(qalloc=c.QAllocInstruction, init=c.InitInstruction, qfree=c.QFreeInstruction)
        self.cls_other = dict(create_epr=c.CreateEPRInstruction, recv_epr=c.RecvEPRInstruction,
                              wait_all=c.WaitAllInstruction, wait_any=c.WaitAnyInstruction,
                              wait_single=c.WaitSingleInstruction, breakpoint=c.BreakpointInstruction,
                              meas_basis=c.MeasBasisInstruction)

    # ------------------------------------------------------------ tuples -> objects
    def R(self, r):
        return self.op.Register(self.op.RegisterName[r[0]], r[1])

    def build(self, t, flav="van"):
        c, op, R = self.core, self.op, self.R
        k = t[0]
        if k == "set":
            return c.SetInstruction.from_operands([R(t[1]), op.Immediate(t[2])])
        if k == "arith":
            return (c.SubInstruction if t[1] else c.AddInstruction).from_operands([R(t[2]), R(t[3]), R(t[4])])
        if k == "arithm":
            return (c.SubmInstruction if t[1] else c.AddmInstruction).from_operands([R(x) for x in t[2:6]])
        if k == "load":
            return c.LoadInstruction.from_operands([R(t[1]), op.ArrayEntry(op.Address(t[2]), R(t[3]))])
        if k == "store":
            return c.StoreInstruction.from_operands([R(t[1]), op.ArrayEntry(op.Address(t[2]), R(t[3]))])
        if k == "lea":
            return c.LeaInstruction.from_operands([R(t[1]), op.Address(t[2])])
        if k == "undef":
            return c.UndefInstruction.from_operands([op.ArrayEntry(op.Address(t[1]), R(t[2]))])
        if k == "array":
            return c.ArrayInstruction.from_operands([R(t[1]), op.Address(t[2])])
        if k == "ret_reg":
            return c.RetRegInstruction.from_operands([R(t[1])])
        if k == "ret_arr":
            return c.RetArrInstruction.from_operands([op.Address(t[1])])
        if k == "jmp":
            return c.JmpInstruction.from_operands([op.Immediate(t[1])])
        if k == "br1":
            return self.cls_br1[t[1]].from_operands([R(t[2]), op.Immediate(t[3])])
        if k == "br2":
            return self.cls_br2[t[1]].from_operands([R(t[2]), R(t[3]), op.Immediate(t[4])])
        if k == "q":
            return self.cls_q[t[1]].from_operands([R(t[2])])
        if k == "meas":
            return c.MeasInstruction.from_operands([R(t[1]), R(t[2])])
        if k == "g1":
            return self.cls_g1[t[1]].from_operands([R(t[2])])
        if k == "rot":
            imm = lambda x: op.Template(x) if isinstance(x, str) else op.Immediate(x)  # noqa  (str = template name)
            return self.cls_rot[(flav, t[1])].from_operands([R(t[2]), imm(t[3]), imm(t[4])])
        if k == "g2":
            return self.cls_g2[t[1]].from_operands([R(t[2]), R(t[3])])
        if k == "crot":
            return self.cls_crot[t[1]].from_operands([R(t[2]), R(t[3]), op.Immediate(t[4]), op.Immediate(t[5])])
        if k == "debug":
            return self.Debug(text=t[1])
        if k == "other":
            return self.build_other(t)
        raise ValueError(t)

    def build_other(self, t):
        _, name, tops, inner, wr, imms = t
        op, R = self.op, self.R
        cls = self.cls_other[name]
        if name in ("create_epr", "recv_epr"):
            return cls.from_operands([R(x) for x in tops])
        if name in ("wait_all", "wait_any"):
            return cls.from_operands([op.ArraySlice(op.Address(imms[0]), R(inner[0]), R(inner[1]))])
        if name == "wait_single":
            return cls.from_operands([op.ArrayEntry(op.Address(imms[0]), R(inner[0]))])
        if name == "breakpoint":
            return cls.from_operands([op.Immediate(imms[0]), op.Immediate(imms[1])])
        if name == "meas_basis":
            return cls.from_operands([R(tops[0]), R(tops[1])] + [op.Immediate(x) for x in imms])
        raise ValueError(t)

    def subroutine(self, prog, flav="van"):
        return self.Subroutine(instructions=[self.build(t, flav) for t in prog], netqasm_version=(1, 0), app_id=0)

    # ------------------------------------------------------------ objects -> tuples
    def reg(self, r):
        return (r.name.name, r.index)

    def view(self, ins):
        c, op = self.core, self.op
        n = type(ins).__name__
        mod = type(ins).__module__.split(".")[-1]
        o = ins.operands
        rg = self.reg
        if isinstance(ins, self.Debug):
            return ("debug", ins.text)
        if isinstance(ins, c.SetInstruction):
            return ("set", rg(o[0]), o[1].value)
        if isinstance(ins, (c.AddInstruction, c.SubInstruction)):
            return ("arith", isinstance(ins, c.SubInstruction), rg(o[0]), rg(o[1]), rg(o[2]))
        if isinstance(ins, (c.AddmInstruction, c.SubmInstruction)):
            return ("arithm", isinstance(ins, c.SubmInstruction), rg(o[0]), rg(o[1]), rg(o[2]), rg(o[3]))
        if isinstance(ins, (c.LoadInstruction, c.StoreInstruction)):
            return ("load" if isinstance(ins, c.LoadInstruction) else "store", rg(o[0]), o[1].address.address, rg(o[1].index))
        if isinstance(ins, c.LeaInstruction):
            return ("lea", rg(o[0]), o[1].address)
        if isinstance(ins, c.UndefInstruction):
            return ("undef", o[0].address.address, rg(o[0].index))
        if isinstance(ins, c.ArrayInstruction):
            return ("array", rg(o[0]), o[1].address)
        if isinstance(ins, c.RetRegInstruction):
            return ("ret_reg", rg(o[0]))
        if isinstance(ins, c.RetArrInstruction):
            return ("ret_arr", o[0].address)
        if isinstance(ins, c.JmpInstruction):
            return ("jmp", o[0].value)
        if isinstance(ins, c.BranchUnaryInstruction):
            return ("br1", ins.mnemonic, rg(o[0]), o[1].value)
        if isinstance(ins, c.BranchBinaryInstruction):
            return ("br2", ins.mnemonic, rg(o[0]), rg(o[1]), o[2].value)
        if isinstance(ins, (c.QAllocInstruction, c.InitInstruction, c.QFreeInstruction)):
            return ("q", ins.mnemonic, rg(o[0]))
        if isinstance(ins, c.MeasInstruction):
            return ("meas", rg(o[0]), rg(o[1]))
        if isinstance(ins, c.SingleQubitInstruction) and ins.mnemonic in G1:
            return ("g1", ins.mnemonic, rg(o[0]))
        if isinstance(ins, c.RotationInstruction):
            val = lambda x: x.name if isinstance(x, op.Template) else x.value  # noqa
            return ("rot", ins.mnemonic[-1], rg(o[0]), val(o[1]), val(o[2]))
        if isinstance(ins, c.TwoQubitInstruction):
            return ("g2", ins.mnemonic, rg(o[0]), rg(o[1]))
        if isinstance(ins, c.ControlledRotationInstruction):
            return ("crot", ins.mnemonic[-1], rg(o[0]), rg(o[1]), o[2].value, o[3].value)
        if ins.mnemonic in self.cls_other:
            tops, inner, imms = [], [], []
            for x in o:
                if isinstance(x, op.Register):
                    tops.append(rg(x))
                elif isinstance(x, op.Immediate):
                    imms.append(x.value)
                elif isinstance(x, op.ArrayEntry):
                    imms.append(x.address.address)
                    inner.append(rg(x.index))
                elif isinstance(x, op.ArraySlice):
                    imms.append(x.address.address)
                    inner += [rg(x.start), rg(x.stop)]
                else:
                    raise ValueError(f"{n}: operand {x!r}")
            wr = [tops[1]] if ins.mnemonic == "meas_basis" else []
            return ("other", ins.mnemonic, tops, inner, wr, imms)
        raise ValueError(f"no view for {mod}.{n}")

    # ------------------------------------------------------------ the real transpiler
    def transpile(self, prog, debug=False, hw=False):
        """-> ("ok", [tuples], subroutine) | ("err", code, None)"""
        sub = self.subroutine(prog)
        self.settings.set_is_using_hardware(hw)
        try:
            out = self.T(sub, debug=debug).transpile()
            return ("ok", [self.view(i) for i in out.instructions], out)
        except (AssertionError, RuntimeError, ValueError, KeyError) as e:
            return ("err", ERR[type(e).__name__], None)
        finally:
            self.settings.set_is_using_hardware(False)

    def transpile_then_instantiate(self, prog, vals):
        """real transpiler on the templated subroutine, then Subroutine.instantiate"""
        sub = self.subroutine(prog)
        try:
            out = self.T(sub, debug=False).transpile()
            templated = [self.view(i) for i in out.instructions]
            out.instantiate(0, dict(vals))
            return ("ok", [self.view(i) for i in out.instructions], templated)
        except (AssertionError, RuntimeError, ValueError, KeyError) as e:
            return ("err", ERR[type(e).__name__], None)

    def instantiate_then_transpile(self, prog, vals):
        sub = self.subroutine(prog)
        try:
            sub.instantiate(0, dict(vals))
            out = self.T(sub, debug=False).transpile()
            return ("ok", [self.view(i) for i in out.instructions], None)
        except (AssertionError, RuntimeError, ValueError, KeyError) as e:
            return ("err", ERR[type(e).__name__], None)

    def text(self, prog, flav="van"):
        try:
            return str(self.subroutine(prog, flav))
        except Exception as e:  # noqa
            return f"<unprintable: {e!r}>"

    # ------------------------------------------------------------ the real executor
    def execute(self, sub_or_prog, script, nq, nv=False, sv=False, through_bytes=True, seed=0):
        """Run a subroutine from a fresh application state.  Returns dict(status, regs, arrays,
        trace, pipe).  through_bytes: serialise and deserialise first (what the controller gets)."""
        from sdk_pipeline import Pipeline

        pipe = Pipeline(self.repo, max_qubits=nq, hardware="nv" if nv else "generic",
                        executor="sv" if sv else "rec", seed=seed)
        ex = pipe.executor
        ex.init_new_application(0, nq)
        _record_extra(pipe, ex)
        sub = sub_or_prog if not isinstance(sub_or_prog, list) else self.subroutine(sub_or_prog, "nv" if nv else "van")
        if through_bytes:
            sub = self.deserialize(bytes(sub), flavour=self.NVFlavour() if nv else self.VanillaFlavour())
        pipe.meas_script = list(script)
        status, err = run_limited(ex, sub)
        regs = {}
        for b in BANKS:
            grp = ex._registers[0][self.op.RegisterName[b]]
            for i in range(16):
                regs[(b, i)] = grp._register.get(i)
        arrays = {a: list(v) for a, v in ex._app_arrays[0]._arrays.items()}
        return dict(status=status, err=err, regs=regs, arrays=arrays, trace=list(pipe.trace), pipe=pipe, sub=sub)


class StepLimit(Exception):
    pass


STEP_LIMIT = 20000


def run_limited(ex, sub, limit=STEP_LIMIT):
    """execute_subroutine with an instruction budget -> (status, error class name);
    status 1 = ran to the end, 2 = the executor raised, 3 = budget exhausted"""
    count = [0]
    base = ex._execute_command

    def counted(subroutine_id, command):
        count[0] += 1
        if count[0] > limit:
            raise StepLimit(f"more than {limit} instructions")
        return base(subroutine_id, command)

    ex._execute_command = counted
    try:
        list(ex.execute_subroutine(sub))
    except StepLimit:
        return 3, "StepLimit"
    except Exception as e:  # any fault of the executor
        return 2, type(e).__name__
    return 1, None


def _record_extra(pipe, ex):
    """also record qalloc / qfree / ret_reg / ret_arr in the trace (instance-level wrappers
    around the executor's own handlers)"""
    h = ex._instruction_handlers

    def wrap(name, rec):
        orig = h[name]

        def f(subroutine_id, instr):
            rec(subroutine_id, instr)
            return orig(subroutine_id, instr)

        h[name] = f

    def app(sid):
        return ex._get_app_id(sid)

    wrap("qalloc", lambda sid, i: pipe.trace.append(("qalloc", (ex._get_register(app(sid), i.reg),), ())))
    wrap("qfree", lambda sid, i: pipe.trace.append(("qfree", (ex._get_register(app(sid), i.reg),), ())))

    def ret_reg(sid, i):
        v = ex._get_register(app(sid), i.reg)
        if v is not None:
            pipe.trace.append(("ret_reg", ((i.reg.name.name, i.reg.index),), (v,)))

    def ret_arr(sid, i):
        a = i.address.address
        arrs = ex._app_arrays[app(sid)]._arrays
        if a in arrs:
            pipe.trace.append(("ret_arr", (a,), tuple(arrs[a])))

    wrap("ret_reg", ret_reg)
    wrap("ret_arr", ret_arr)


# ---------------------------------------------------------------- canonical encodings
def code_templates(prog, codes):
    """replace template names in rotation immediates by their (negative) integer codes"""
    out = []
    for t in prog:
        if t[0] == "rot":
            t = (t[0], t[1], t[2], codes[t[3]] if isinstance(t[3], str) else t[3], codes[t[4]] if isinstance(t[4], str) else t[4])
        out.append(t)
    return out


def enc_reg(r):
    return [BANKS.index(r[0]), r[1]]


def enc_regs(l):
    out = [len(l)]
    for r in l:
        out += enc_reg(r)
    return out


def enc_str(s):
    b = s.encode("latin-1")
    return [len(b)] + list(b)


def enc_oz(v):
    return [0] if v is None else [1, int(v)]


def enc_ozs(l):
    out = [len(l)]
    for v in l:
        out += enc_oz(v)
    return out


def enc_instr(t):
    k = t[0]
    if k == "set":
        return [1] + enc_reg(t[1]) + [t[2]]
    if k == "arith":
        return [2, int(t[1])] + enc_reg(t[2]) + enc_reg(t[3]) + enc_reg(t[4])
    if k == "arithm":
        return [3, int(t[1])] + enc_reg(t[2]) + enc_reg(t[3]) + enc_reg(t[4]) + enc_reg(t[5])
    if k == "load":
        return [4] + enc_reg(t[1]) + [t[2]] + enc_reg(t[3])
    if k == "store":
        return [5] + enc_reg(t[1]) + [t[2]] + enc_reg(t[3])
    if k == "lea":
        return [6] + enc_reg(t[1]) + [t[2]]
    if k == "undef":
        return [7, t[1]] + enc_reg(t[2])
    if k == "array":
        return [8] + enc_reg(t[1]) + [t[2]]
    if k == "ret_reg":
        return [9] + enc_reg(t[1])
    if k == "ret_arr":
        return [10, t[1]]
    if k == "jmp":
        return [11, t[1]]
    if k == "br1":
        return [12, BR1.index(t[1])] + enc_reg(t[2]) + [t[3]]
    if k == "br2":
        return [13, BR2.index(t[1])] + enc_reg(t[2]) + enc_reg(t[3]) + [t[4]]
    if k == "q":
        return [14, QK.index(t[1])] + enc_reg(t[2])
    if k == "meas":
        return [15] + enc_reg(t[1]) + enc_reg(t[2])
    if k == "g1":
        return [16, G1.index(t[1])] + enc_reg(t[2])
    if k == "rot":
        return [17, AXES.index(t[1])] + enc_reg(t[2]) + [t[3], t[4]]
    if k == "g2":
        return [18, G2.index(t[1])] + enc_reg(t[2]) + enc_reg(t[3])
    if k == "crot":
        return [19, AXES.index(t[1])] + enc_reg(t[2]) + enc_reg(t[3]) + [t[4], t[5]]
    if k == "debug":
        return [20] + enc_str(t[1])
    if k == "other":
        return [21] + enc_str(t[1]) + enc_regs(t[2]) + enc_regs(t[3]) + enc_regs(t[4]) + [len(t[5])] + list(t[5])
    raise ValueError(t)


def enc_prog(p):
    out = [len(p)]
    for t in p:
        out += enc_instr(t)
    return out


def enc_tresult(res):
    return [0] + enc_prog(res[1]) if res[0] == "ok" else [res[1]]


def enc_trace_event(e):
    mn, addrs, imms = e
    if mn in QK:
        return [1, QK.index(mn), addrs[0]]
    if mn == "meas":
        return [2, addrs[0], imms[0]]
    if mn in G1:
        return [3, G1.index(mn), addrs[0]]
    if mn in ("rot_x", "rot_y", "rot_z"):
        return [4, AXES.index(mn[-1]), addrs[0], imms[0], imms[1]]
    if mn in G2:
        return [5, G2.index(mn), addrs[0], addrs[1]]
    if mn in ("crot_x", "crot_y"):
        return [6, AXES.index(mn[-1]), addrs[0], addrs[1], imms[0], imms[1]]
    if mn == "ret_reg":
        return [7] + enc_reg(addrs[0]) + [imms[0]]
    if mn == "ret_arr":
        return [8, addrs[0]] + enc_ozs(list(imms))
    raise ValueError(e)


def enc_final(res, addrs):
    out = [0 if res["status"] == 3 else res["status"]]   # 3 = instruction budget exhausted = model out of fuel
    for b in BANKS:
        for i in range(16):
            out += enc_oz(res["regs"][(b, i)])
    for a in addrs:
        if a in res["arrays"]:
            out += [1] + enc_ozs(res["arrays"][a])
        else:
            out += [0]
    out.append(len(res["trace"]))
    for e in res["trace"]:
        out += enc_trace_event(e)
    return out


# ---------------------------------------------------------------- Coq text
def zc(n):
    n = int(n)
    return f"({n})" if n < 0 else str(n)


def coq_reg(r):
    return f"(mkReg B{r[0]} {r[1]}%nat)"


def coq_regs(l):
    return "[" + "; ".join(coq_reg(r) for r in l) + "]"


def coq_b(x):
    return "true" if x else "false"


def coq_instr(t):
    k = t[0]
    cr, z = coq_reg, zc
    if k == "set":
        return f"ISet {cr(t[1])} {z(t[2])}"
    if k == "arith":
        return f"IArith {coq_b(t[1])} {cr(t[2])} {cr(t[3])} {cr(t[4])}"
    if k == "arithm":
        return f"IArithM {coq_b(t[1])} {cr(t[2])} {cr(t[3])} {cr(t[4])} {cr(t[5])}"
    if k == "load":
        return f"ILoad {cr(t[1])} {z(t[2])} {cr(t[3])}"
    if k == "store":
        return f"IStore {cr(t[1])} {z(t[2])} {cr(t[3])}"
    if k == "lea":
        return f"ILea {cr(t[1])} {z(t[2])}"
    if k == "undef":
        return f"IUndef {z(t[1])} {cr(t[2])}"
    if k == "array":
        return f"IArray {cr(t[1])} {z(t[2])}"
    if k == "ret_reg":
        return f"IRetReg {cr(t[1])}"
    if k == "ret_arr":
        return f"IRetArr {z(t[1])}"
    if k == "jmp":
        return f"IJmp {t[1]}%nat"
    if k == "br1":
        return f"IBr1 {t[1].capitalize()} {cr(t[2])} {t[3]}%nat"
    if k == "br2":
        return f"IBr2 {t[1].capitalize()} {cr(t[2])} {cr(t[3])} {t[4]}%nat"
    if k == "q":
        return f"IQ {dict(qalloc='QAlloc', init='QInit', qfree='QFree')[t[1]]} {cr(t[2])}"
    if k == "meas":
        return f"IMeas {cr(t[1])} {cr(t[2])}"
    if k == "g1":
        return f"IGate1 G{t[1].upper()} {cr(t[2])}"
    if k == "rot":
        return f"IRot A{t[1].upper()} {cr(t[2])} {z(t[3])} {z(t[4])}"
    if k == "g2":
        return f"IGate2 {t[1].capitalize()} {cr(t[2])} {cr(t[3])}"
    if k == "crot":
        return f"ICrot A{t[1].upper()} {cr(t[2])} {cr(t[3])} {z(t[4])} {z(t[5])}"
    if k == "debug":
        assert '"' not in t[1]
        return f'IDebug "{t[1]}"'
    if k == "other":
        return (f'IOther "{t[1]}" {coq_regs(t[2])} {coq_regs(t[3])} {coq_regs(t[4])} '
                f'[{"; ".join(z(x) for x in t[5])}]')
    raise ValueError(t)


def coq_prog(p):
    return "[" + ";\n    ".join(coq_instr(t) for t in p) + "]"


def coq_zs(l):
    return "[" + "; ".join(zc(x) for x in l) + "]"


CASE_HEADER = """From Coq Require Import ZArith List String.
From NQ Require Import Nv.Transpile Nv.TranspileCheck.
From Gen Require Import Gen_NvBlocks.
Import ListNotations.
Open Scope Z_scope.
Open Scope string_scope.
"""


def write_case_file(path, tcases, rcases):
    """tcases: [(debug, hw, prog, expect)], rcases: [(prog, script, fuel, addrs, expect)]"""
    with open(path, "w") as f:
        f.write(CASE_HEADER)
        f.write("Definition tcases : list tcase :=\n [" + ";\n  ".join(
            f"mkT {coq_b(d)} {coq_b(h)} {coq_prog(p)} {coq_zs(e)}" for d, h, p, e in tcases) + "].\n")
        f.write("Definition rcases : list rcase :=\n [" + ";\n  ".join(
            f"mkR {coq_prog(p)} {coq_zs(s)} {fu}%nat {coq_zs(a)} {coq_zs(e)}" for p, s, fu, a, e in rcases) + "].\n")
        f.write("Eval vm_compute in (failing (check_tcase gen_tables) tcases 0).\n")
        f.write("Eval vm_compute in (failing check_rcase rcases 0).\n")


# ---------------------------------------------------------------- numeric helpers (oracle)
def state_close(pipe_a, pipe_b, tol=1e-9):
    """quantum states of two SvExecutors equal up to a global phase (same qubit keys)"""
    ea, eb = pipe_a.executor, pipe_b.executor
    ka = sorted(ea.keys, key=str)
    kb = sorted(eb.keys, key=str)
    if ka != kb:
        return False, f"different qubit sets {ka} vs {kb}"
    if not ka:
        return True, ""
    va, vb = ea.state_of(ka), eb.state_of(ka)
    # the executor's projections let the norm drift (1e-9 after many init/meas in loops): compare directions
    va, vb = va / np.linalg.norm(va), vb / np.linalg.norm(vb)
    ov = np.vdot(va, vb)
    if abs(abs(ov) - 1) > tol:
        return False, f"|<a|b>| = {abs(ov):.12f}"
    d = float(np.max(np.abs(va * (ov / abs(ov)) - vb)))
    return (d < tol), f"max deviation {d:.3e}"


def deep(prog):
    return copy.deepcopy(prog)


def unsound_rows(tab):
    """Numerically evaluate the hypothesis `blocks_sound` on the regenerated table
    (operators from the mnemonics' definitions in sdk_pipeline): returns the names of
    gates / (gate, placement) rows whose block is NOT the gate up to a global phase.
    (Proving the rows is property C07's business; C08 takes them as hypothesis and
    therefore only draws oracle programs from rows that hold.)"""
    from sdk_pipeline import GATES, rot

    def crot(ax, n, d):
        r, rm, zz = rot(ax, n, d), rot(ax, -n, d), np.zeros((2, 2))
        return np.block([[r, zz], [zz, rm]])

    def lift(mat, poss, nq):
        k = len(poss)
        full = np.zeros((2 ** nq, 2 ** nq), dtype=complex)
        for col in range(2 ** nq):
            psi = np.zeros(2 ** nq, dtype=complex)
            psi[col] = 1
            t = np.moveaxis(psi.reshape([2] * nq), poss, list(range(k)))
            shp = t.shape
            t = (mat @ t.reshape(2 ** k, -1)).reshape(shp)
            full[:, col] = np.moveaxis(t, list(range(k)), poss).reshape(-1)
        return full

    def same(a, b):
        i = np.unravel_index(np.argmax(np.abs(b)), b.shape)
        if abs(a[i]) < 1e-12:
            return False
        ph = a[i] / b[i]
        return abs(abs(ph) - 1) < 1e-9 and np.max(np.abs(a - ph * b)) < 1e-9

    bad = []
    for g, row in tab["g1"].items():
        u = np.eye(2, dtype=complex)
        for ax, n, d in row:
            u = rot(ax[-1].lower(), n, d) @ u
        if not same(u, GATES[g[1:].lower()]):
            bad.append(g[1:].lower())
    for (g, pl), row in tab["g2"].items():
        if row is None or g == "Mov":
            continue
        # wires: 0 = scratch electron (RS), 1 = RA, 2 = RB
        pos = {"RS": 0, "RA": 1, "RB": 2}
        u = np.eye(8, dtype=complex)
        for it in row[1]:
            if it[0] == "rot":
                u = lift(rot(it[1][-1].lower(), it[3], it[4]), [pos[it[2]]], 3) @ u
            elif it[0] == "crot":
                u = lift(crot(it[1][-1].lower(), it[4], it[5]), [pos[it[2]], pos[it[3]]], 3) @ u
        want = lift(GATES[g.lower()], [1, 2], 3)
        if not same(u, want):
            bad.append((g.lower(), pl))
    return bad
