"""C19 — implementation side, generators, 50+-digit oracle and Coq case files for
get_angle_spec_from_float / rot_X|Y|Z(angle=...).

All exact arithmetic is done with fractions.Fraction; pi is the 80-digit rational
PI (|PI - pi| < 1e-80), so every quantity below is exact up to a relative 1e-80."""
import math
import os
import re
import signal
from fractions import Fraction as F

PI_DIGITS = "31415926535897932384626433832795028841971693993751058209749445923078164062862089"
PI = F(int(PI_DIGITS), 10 ** (len(PI_DIGITS) - 1))
TWO_PI = 2 * PI
PI_D = F(math.pi)          # the double the code divides by
# allowance for the float front end on a range-reduced angle (|turns| <= 2):
#   rounding of angle/pi (<= 2pi * 2^-53), pi vs the double pi (<= 2pi * 3.9e-17),
#   rounding of r + 2pi for negative angles (<= 2^-51), |turns| * 2.45e-16, tol * 1.5e-16
FE_ALLOW = F(1, 2 ** 49)
KEY_RR = "C19:range-reduction-by-double-2pi"


# --------------------------------------------------------------------- impl
class ImplTimeout(Exception):
    pass


def _alarm(signum, frame):
    raise ImplTimeout()


def guarded(fn, *a, **kw):
    """call fn; ('ok', value) | ('raise', exception class name) | ('timeout', None)"""
    old = signal.signal(signal.SIGALRM, _alarm)
    signal.setitimer(signal.ITIMER_REAL, 2.0)
    try:
        return ("ok", fn(*a, **kw))
    except ImplTimeout:
        return ("timeout", None)
    except Exception as e:  # noqa: BLE001 — any refusal
        return ("raise", type(e).__name__)
    finally:
        signal.setitimer(signal.ITIMER_REAL, 0)
        signal.signal(signal.SIGALRM, old)


class Impl:
    def __init__(self, repo):
        import inspect

        from netqasm.backend.messages import SubroutineMessage, deserialize_host_msg
        from netqasm.lang.parsing import deserialize
        from netqasm.sdk.connection import BaseNetQASMConnection, DebugConnection
        from netqasm.sdk.qubit import Qubit
        from netqasm.sdk.shared_memory import SharedMemoryManager
        from netqasm.sdk.toolbox import get_angle_spec_from_float

        self.fn = get_angle_spec_from_float
        self.repo = repo
        self.default_tol = inspect.signature(get_angle_spec_from_float).parameters["tol"].default
        self.last_pending = None
        self._b = (SubroutineMessage, deserialize_host_msg, deserialize, BaseNetQASMConnection, DebugConnection,
                   Qubit, SharedMemoryManager)

    def spec(self, angle, tol):
        """canonical result: list of [n, d] | None (raised / did not return / not a list of int pairs)"""
        st, v = guarded(self.fn, angle, tol)
        if st != "ok":
            return None, st if st == "timeout" else "raise:" + v
        try:
            out = []
            for n, d in v:
                if type(n) is not int or type(d) is not int:   # the builder requires isinstance(n, int)
                    return None, "non-int"
                out.append([n, d])
            return out, "ok"
        except Exception:  # noqa: BLE001
            return None, "shape"

    def spec_traced(self, angle, tol):
        """spec() plus the values of the locals `rest` and `tol_rest` inside the running
        implementation at the first line executed after `nds` is bound (= loop entry), read by a
        sys.settrace line tracer.  obs = (rest, tol_rest) as floats, or None if those locals do not exist."""
        import sys
        code = self.fn.__code__
        box = {}

        def local(frame, event, arg):
            if event == "line" and "obs" not in box:
                loc = frame.f_locals
                if "nds" in loc and "rest" in loc and "tol_rest" in loc:
                    try:
                        box["obs"] = (float(loc["rest"]), float(loc["tol_rest"]))
                    except Exception:  # noqa: BLE001
                        box["obs"] = None
            return local

        def tracer(frame, event, arg):
            return local if frame.f_code is code else None

        sys.settrace(tracer)
        try:
            got, st = self.spec(angle, tol)
        finally:
            sys.settrace(None)
        return got, st, box.get("obs")

    def emit(self, rots, separate=True, cfg=("generic", False)):
        """rots: [dict(axis 'X'|'Y'|'Z', n, d, angle)] where n, d, angle may be absent (= not passed).
        cfg = (config, hw): config 'generic' (default DebugConnection), 'nvhw'
        (hardware_config=NVHardwareConfig(5)), 'nvcompiler' (compiler=NVSubroutineTranspiler; the committed
        bytes are then decoded with the NV flavour, i.e. AFTER the transpiler); hw = value given to
        netqasm.runtime.settings.set_is_using_hardware for the duration of the program (reset to False).
        Builds a real connection, applies the rotations to one qubit, flushes, decodes the committed
        bytes again.  separate=True: one segment [(mnemonic, n, d)] per call (a Hadamard after each call is
        the separator; under 'nvcompiler', where a Hadamard itself becomes rotations, one connection per
        call); separate=False: the whole emitted run.  None if the SDK raised (e.g. at flush()).
        self.last_pending: the rotation commands pending in the builder just before flush (the stream
        BEFORE assembling / transpiling), per connection concatenated."""
        SubroutineMessage, deserialize_host_msg, deserialize, Base, Debug, Qubit, SMM = self._b
        from netqasm.lang.instr.flavour import NVFlavour
        from netqasm.runtime import settings
        from netqasm.sdk.build_types import NVHardwareConfig
        from netqasm.sdk.transpile import NVSubroutineTranspiler
        config, hw = cfg
        self.last_pending = None

        def conn_stream(calls, with_h):
            SMM.reset_memories()
            Base._app_ids.clear()
            Debug.node_ids = {"Alice": 0}
            kw = {}
            if config == "nvhw":
                kw["hardware_config"] = NVHardwareConfig(5)
            elif config == "nvcompiler":
                kw["compiler"] = NVSubroutineTranspiler
            conn = Debug("Alice", **kw)
            with conn:
                q = Qubit(conn)
                for r in calls:
                    a = {k: r[k] for k in ("n", "d", "angle") if k in r and not (k == "angle" and r[k] is None)}
                    getattr(q, "rot_" + r["axis"])(**a)
                    if with_h:
                        q.H()
                try:   # best effort: what is about to be flushed
                    pend = [[c.instruction.name.lower(), c.operands[1], c.operands[2]]
                            for c in conn.builder._pending_commands
                            if hasattr(c, "instruction") and c.instruction.name.startswith("ROT_")]
                    self.last_pending = (self.last_pending or []) + pend
                except Exception:  # noqa: BLE001
                    pass
                conn.flush()
            toks = []
            for raw in conn.storage:
                m = deserialize_host_msg(raw)
                if isinstance(m, SubroutineMessage):
                    sub = deserialize(m.subroutine, flavour=NVFlavour()) if config == "nvcompiler" else deserialize(m.subroutine)
                    for i in sub.instructions:
                        if i.mnemonic.startswith("rot_"):
                            toks.append((i.mnemonic, int(i.angle_num.value), int(i.angle_denom.value)))
                        elif i.mnemonic == "h":
                            toks.append("h")
            return toks

        def go():
            if not separate:
                return [t for t in conn_stream(rots, False) if t != "h"]
            if config == "nvcompiler":
                return [conn_stream([r], False) for r in rots]
            segs, cur = [], []
            for t in conn_stream(rots, True):
                if t == "h":
                    segs.append(cur)
                    cur = []
                else:
                    cur.append(t)
            if cur or len(segs) != len(rots):
                raise RuntimeError("separator instructions do not match the calls")
            return segs

        import logging
        logging.disable(logging.CRITICAL)
        settings.set_is_using_hardware(bool(hw))
        try:
            st, v = guarded(go)
        finally:
            settings.set_is_using_hardware(False)
            logging.disable(logging.NOTSET)
        return v if st == "ok" else None


    def run_e2e(self, rots, hardware="generic", flush_each=True):
        """End-to-end leg: the calls on one qubit of a connection of the in-process pipeline
        (harness/sdk_pipeline.py: real builder -> bytes -> real deserialize -> the package's base Executor),
        flushed after every call; the `angle` argument the Executor hands to `_do_single_qubit_rotation`
        is recorded (instance-level wrapper around the hook, which then runs as before).
        hardware 'generic' (vanilla flavour) or 'nv' (NVHardwareConfig + NVSubroutineTranspiler + NV flavour,
        simulation mode).  Returns one segment [(mnemonic, n, d, angle)] per call (one segment in all if
        flush_each is False), or None if anything raised."""
        import sdk_pipeline as sp

        def go():
            pipe = sp.Pipeline(self.repo, hardware=hardware)
            rec = []
            ex = pipe.executor
            orig = ex._do_single_qubit_rotation

            def hook(instr, subroutine_id, address, angle):
                rec.append((instr.mnemonic, int(instr.angle_num.value), int(instr.angle_denom.value), float(angle)))
                return orig(instr, subroutine_id, address, angle)

            ex._do_single_qubit_rotation = hook
            from netqasm.sdk.qubit import Qubit
            segs = []
            with pipe.connection() as conn:
                q = Qubit(conn)
                for r in rots:
                    a = {k: r[k] for k in ("n", "d", "angle") if k in r and not (k == "angle" and r[k] is None)}
                    getattr(q, "rot_" + r["axis"])(**a)
                    if flush_each:
                        k0 = len(rec)
                        conn.flush()
                        segs.append(rec[k0:])
                if not flush_each:
                    conn.flush()
                    segs.append(list(rec))
            return segs

        import logging
        logging.disable(logging.CRITICAL)
        try:
            st, v = guarded(go)
        finally:
            logging.disable(logging.NOTSET)
        return v if st == "ok" else None


def step_angle_ok(n, d, angle):
    """the angle the executor performs for the operands (n, d) is n*pi/2^d (as a float: relative 2^-51)"""
    want = F(n, 2 ** d) * PI
    return abs(F(angle) - want) <= want * F(1, 2 ** 51)


def performed_oracle(angle, tol, seg):
    """requested float angle vs the sum of the angles actually handed to the backend, on the circle:
    <= tol + 2^-49 + 2^-48 per step (float evaluation of n*pi/2^d, n/2^d < 2)"""
    total = sum((F(x[3]) for x in seg), F(0))
    err = circle_dist(total - F(angle))
    return err <= F(tol) + FE_ALLOW + len(seg) * F(1, 2 ** 48), float(err)


SWEEP_D = list(range(0, 32)) + [32, 33, 63, 64, 100, 254, 255]


CONFIGS = [("generic", False), ("generic", True), ("nvhw", False), ("nvhw", True), ("nvcompiler", False), ("nvcompiler", True)]


def hw_expected(cfg, steps):
    """What the unchanged tree defines for the steps [(n, d)] of one call under cfg:
    ('same', steps) everywhere except compiler=NVSubroutineTranspiler with is_using_hardware = True, where the
    transpiler (get_hardware_num_denom) rescales every step to denominator exponent 4, (n * 2^(4-d), 4), and
    raises ValueError for a step with d > 4 (and for an n/d-only call whose rescaled numerator exceeds 255): ('refuse', None)."""
    if cfg == ("nvcompiler", True):
        if any(d > 4 or n * 2 ** (4 - d) > 255 for n, d in steps):
            return "refuse", None     # d > 4: ValueError in get_hardware_num_denom; n*2^(4-d) > 255: not encodable
        return "same", [[n * 2 ** (4 - d), 4] for n, d in steps]
    return "same", [list(x) for x in steps]


# --------------------------------------------------------------------- oracle
def circle_dist(x):
    """distance of the rational x (radians) to the nearest multiple of 2 pi"""
    k = round(x / TWO_PI)
    return abs(x - k * TWO_PI)


def half_turns(nds):
    s = F(0)
    for n, d in nds:
        s += F(n, 2 ** d) if d >= 0 else F(n) * 2 ** (-d)
    return s


def encodable(nds):
    return all(1 <= n <= 255 and 0 <= d <= 255 for n, d in nds)


def oracle(angle, tol, nds):
    """The property on one call.  Returns dict(ok, encodable, err (float, radians), excess (float), key)."""
    if nds is None:
        return dict(ok=False, encodable=False, err=None, excess=None, key=None, why="raised")
    enc = encodable(nds)
    s = half_turns(nds)
    err = circle_dist(s * PI - F(angle))
    bound = F(tol) + FE_ALLOW
    ok = enc and err <= bound
    key = None
    why = ""
    if not ok:
        why = "unencodable (n, d)" if not enc else "error %.6g rad > tol %.6g" % (float(err), tol)
        if enc:
            # is the excess explained by the range reduction alone?  a_red is what
            # `angle % (2 * np.pi)` yields in exact arithmetic; the code then treats
            # a_red / np.pi half turns as the target.
            k = math.floor(F(angle) / (2 * PI_D))
            a_red = F(angle) - k * 2 * PI_D
            err_red = circle_dist(s * PI - a_red * PI / PI_D)
            if abs(k) >= 2 and err_red <= bound:
                key = KEY_RR
    return dict(ok=ok, encodable=enc, err=float(err), excess=float(err - F(tol)), key=key, why=why)


def front_end_error(angle):
    """error (radians, on the circle) of the float front end  rest = (angle % 2pi) / pi  [guarded]  against exact arithmetic"""
    import numpy as np
    a = angle % (2 * np.pi)
    rest = a / np.pi
    if rest >= 2:
        rest -= 2
    return float(circle_dist(F(rest) * PI - F(angle)))


# --------------------------------------------------------------------- generation
TOLS = [10.0 ** (-k) for k in range(1, 10)]


def nxt(x, steps):
    for _ in range(abs(steps)):
        x = math.nextafter(x, math.inf if steps > 0 else -math.inf)
    return x


def gen_cases(rng, n_random, with_large=True, thin=1):
    """[(angle, tol, class)] — doubles.  Deterministic families first, then random ones."""
    cs = []
    two_pi = 2 * math.pi
    # special values
    for a in [0.0, -0.0, two_pi, -two_pi, nxt(two_pi, -1), nxt(two_pi, 1), -1e-20, -1e-17, -1e-300, 1e-300, -5e-324,
              5e-324, math.pi, -math.pi, 2 * two_pi, -3 * two_pi, 1e-9, -1e-9]:
        for tol in (1e-4, 1e-9, 1e-1):
            cs.append((a, tol, "special"))
    # dyadic multiples of pi and their neighbours
    for k in range(0, 13):
        for m in sorted({0, 1, 2, 3, 5, 127, 128, 129, 254, 255, 256, 257, 2 ** k - 1, 2 ** k + 1, 2 ** (k + 1) - 1,
                         rng.randrange(0, 2 ** (k + 1) + 1), rng.randrange(0, 2 ** (k + 1) + 1)}):
            base = m * math.pi / 2 ** k
            for st in (0, -1, 1, rng.choice([-3, -2, 2, 3])):
                tol = rng.choice(TOLS)
                cs.append((nxt(base, st), tol, "dyadic-pi"))
                if rng.random() < 0.3:
                    cs.append((-nxt(base, st), tol, "dyadic-pi"))
    # window boundaries: rest next to 255/2^k, 127/2^k, 128/2^k, 127.5/2^k (where float log2 / the choice of d is delicate)
    for k in range(6, 40):
        for c in (255.0, 127.0, 128.0, 127.5, 254.0, 256.0):
            base = c / 2 ** k * math.pi
            for st in (-2, -1, 0, 1, 2):
                cs.append((nxt(base, st), rng.choice([1e-9, 1e-9, 1e-7, 1e-5, 1e-4, 1e-12]), "window-edge"))
    # within tol of 0 and of 2 pi (in radians and in half turns: both thresholds)
    for tol in TOLS + [3e-9, 2.5e-5, 7e-2]:
        for u in (0.25, 0.5, 0.99, 1.0, 1.01, 1.5, 2.0, 3.0, 3.1, 3.2, 1 / math.pi, 0.33):
            for base in (tol * u, tol * u * math.pi):
                for st in (0, -1, 1):
                    x = nxt(base, st)
                    cs.append((x, tol, "near-0"))
                    cs.append((-x, tol, "near-0-neg"))
                    cs.append((two_pi - x, tol, "near-2pi"))
                    cs.append((two_pi + x, tol, "near-2pi"))
        for st in (-2, -1, 0, 1, 2):
            cs.append((nxt(tol, st), tol, "near-0"))
    if thin > 1:   # quick tier: every thin-th member of the deterministic families (all special values)
        cs = [c for i, c in enumerate(cs) if c[2] == "special" or i % thin == 0]
    # random
    for _ in range(n_random):
        r = rng.random()
        tol = rng.choice(TOLS) if rng.random() < 0.7 else 10 ** rng.uniform(-9, -1)
        if r < 0.35:
            cs.append((rng.uniform(0, two_pi), tol, "uniform[0,2pi)"))
        elif r < 0.55:
            cs.append((rng.uniform(-two_pi, 0), tol, "uniform[-2pi,0)"))
        elif r < 0.70:
            cs.append((rng.choice([-1, 1]) * rng.uniform(two_pi, 100.0), tol, "2pi<|a|<100"))
        elif r < 0.80:
            cs.append((rng.choice([-1, 1]) * 10 ** rng.uniform(-12, 0), tol, "small"))
        elif r < 0.90:
            cs.append((rng.choice([-1, 1]) * 10 ** rng.uniform(2, 6), tol, "1e2<|a|<1e6"))
        elif with_large:
            cs.append((rng.choice([-1, 1]) * 10 ** rng.uniform(6, 18), tol, "large"))
    return cs


ND_PAIRS = [(3, 1), (1, 0), (1, 1), (255, 255), (0, 5), (7, 0), (128, 7), (5, 31), (200, 40)]


def gen_builder_cases(rng, n):
    """[[dict(axis, n?, d?, angle?)]]: 1..3 rotation calls on one qubit per connection.
    Three routes: angle only; angle together with non-default n, d (the documentation: n and d are
    ignored when an angle is given); n, d only (must be emitted verbatim)."""
    two_pi = 2 * math.pi
    out = []
    specials = [0.3, -1.0, math.pi / 3, 1.5, -1e-20, 0.99e-4 * math.pi, two_pi, -math.pi / 4, 1e-5, 6.283185307179585]
    for a in specials:
        out.append([dict(axis=rng.choice("XYZ"), angle=a)])
    # angle given TOGETHER with n, d: zero of every kind, tiny, whole turns, ordinary
    zeros = [0.0, -0.0, 0, 5e-324, -5e-324, 1e-20, -1e-20, 1e-9, -1e-9, 3e-5, -3e-5, two_pi, -two_pi, 2 * two_pi,
             -3 * two_pi, nxt(two_pi, -1), nxt(two_pi, 1), 10 * two_pi, 1.0, -2.5, math.pi]
    for a in zeros:
        for (nn, dd) in rng.sample(ND_PAIRS, 3):
            out.append([dict(axis=rng.choice("XYZ"), n=nn, d=dd, angle=a)])
        out.append([dict(axis=rng.choice("XYZ"), n=3, d=1, angle=a)])
        out.append([dict(axis=rng.choice("XYZ"), angle=a)])
    # multiples of pi/16 (what NV hardware supports: the only float angles not refused with is_using_hardware)
    for m in [1, 2, 3, 8, 16, 24, 31, 33, -1, -8]:
        out.append([dict(axis=rng.choice("XYZ"), angle=m * math.pi / 16)])
        out.append([dict(axis=rng.choice("XYZ"), n=3, d=1, angle=m * math.pi / 16)])
    # n, d only
    for (nn, dd) in ND_PAIRS + [(0, 0), (255, 0), (0, 255), (1, 255), (17, 4)]:
        out.append([dict(axis=rng.choice("XYZ"), n=nn, d=dd)])
    out.append([dict(axis="Z")])                       # all defaults: rot_z q 0 0
    for bad in [(256, 0), (0, 256), (300, 1), (1, 1000)]:   # not encodable: must be refused, never altered
        out.append([dict(axis=rng.choice("XYZ"), n=bad[0], d=bad[1])])
    for _ in range(n):
        rots = []
        for _ in range(rng.randint(1, 3)):
            r = rng.random()
            a = rng.uniform(0, two_pi) if r < 0.45 else rng.uniform(-20, 20) if r < 0.8 else rng.choice(
                [-1, 1]) * 10 ** rng.uniform(-8, -2) if r < 0.9 else rng.choice(zeros)
            m = rng.random()
            if m < 0.4:
                rots.append(dict(axis=rng.choice("XYZ"), angle=a))
            elif m < 0.75:
                rots.append(dict(axis=rng.choice("XYZ"), n=rng.randint(0, 255), d=rng.randint(0, 255), angle=a))
            else:
                rots.append(dict(axis=rng.choice("XYZ"), n=rng.randint(0, 255), d=rng.choice([0, 1, 2, 3, 8, 31, 32, 255, rng.randint(0, 255)])))
        out.append(rots)
    return out


def _away_from_zero(angle, tol):
    return float(circle_dist(F(angle))) > 20 * tol


def gen_builder_runs(rng, n, tol=1e-4):
    """[[dict(axis, n?, d?, angle?)]]: 2..4 CONSECUTIVE rotation calls on one qubit, no separator.
    Every angle is farther than 20 tol from a multiple of 2 pi and every n/d-only call is encodable, so
    each call emits at least one instruction and the emitted stream splits into the same maximal
    same-axis groups as the calls.  Families: (a) shared exponent: the last step of one call and the
    first step of the next have the same d (m*pi/2^k followed by (n2+f)*pi/2^k, also via n/d-only
    calls), same and different axes; (b) random angles / n,d."""
    out = []

    def shared(k):
        m = rng.randrange(1, 256, 2)
        n2 = rng.randrange(129, 256, 2)
        return m * math.pi / 2 ** k, (n2 + rng.uniform(0.05, 0.95)) * math.pi / 2 ** k, m, n2

    out.append([dict(axis="Z", angle=201 * math.pi / 256), dict(axis="Z", angle=2.47)])
    for k in list(range(1, 16)) * 3:
        a1, a2, m, n2 = shared(k)
        ax = rng.choice("XYZ")
        ax2 = ax if rng.random() < 0.75 else rng.choice("XYZ")
        cand = [[dict(axis=ax, angle=a1), dict(axis=ax2, angle=a2)],
                [dict(axis=ax, n=m, d=k), dict(axis=ax2, angle=a2)],
                [dict(axis=ax, angle=a1), dict(axis=ax2, n=n2, d=k)],
                [dict(axis=ax, n=m, d=k), dict(axis=ax2, n=n2, d=k)],
                [dict(axis=ax, angle=rng.uniform(0.1, 6.0)), dict(axis=ax, angle=a1), dict(axis=ax2, angle=a2),
                 dict(axis=rng.choice("XYZ"), angle=rng.uniform(0.1, 6.0))]]
        for c in cand:
            if all(r.get("angle") is None or _away_from_zero(r["angle"], tol) for r in c):
                out.append(c)
    while len(out) < n:
        rots = []
        ax = rng.choice("XYZ")
        for _ in range(rng.randint(2, 4)):
            if rng.random() < 0.3:
                ax = rng.choice("XYZ")
            if rng.random() < 0.75:
                a = rng.uniform(-20, 20) if rng.random() < 0.7 else rng.randint(1, 511) * math.pi / 2 ** rng.randint(1, 9)
                if not _away_from_zero(a, tol):
                    continue
                rots.append(dict(axis=ax, angle=a))
            else:
                rots.append(dict(axis=ax, n=rng.randint(0, 255), d=rng.randint(0, 12)))
        if len(rots) >= 2:
            out.append(rots)
    return out


def call_groups(rots):
    """maximal runs of calls about the same axis: [(axis, [rot, ...])]"""
    groups = []
    for r in rots:
        if groups and groups[-1][0] == r["axis"]:
            groups[-1][1].append(r)
        else:
            groups.append((r["axis"], [r]))
    return groups


def instr_groups(run):
    groups = []
    for (m, n, d) in run:
        if groups and groups[-1][0] == m:
            groups[-1][1].append([n, d])
        else:
            groups.append((m, [[n, d]]))
    return groups


def run_oracle(rots, run, tol):
    """The property on a whole emitted run (None = the SDK raised).  Rotations about one axis
    commute, so per maximal same-axis group the emitted steps must add up (mod 2 pi) to the sum of
    the requested angles (n/d-only calls count exactly) within (#angle calls) * (tol + 2^-49)."""
    if run is None:
        return dict(ok=False, why="the SDK raised (flush refuses an instruction or a call failed)")
    bad = [[m, n, d] for (m, n, d) in run if not (0 <= n <= 255 and 0 <= d <= 255)]
    if bad:
        return dict(ok=False, why=f"unencodable instruction(s) {bad}")
    cg, ig = call_groups(rots), instr_groups(run)
    if [a for a, _ in cg] != [m[-1].upper() for m, _ in ig]:
        return dict(ok=False, why=f"axes of the emitted groups {[m for m, _ in ig]} differ from the calls {[a for a, _ in cg]}")
    for (ax, calls), (_, nds) in zip(cg, ig):
        target, allow = F(0), F(0)
        for r in calls:
            if r.get("angle") is not None:
                target += F(r["angle"])
                allow += F(tol) + FE_ALLOW
            else:
                target += F(r.get("n", 0), 2 ** r.get("d", 0)) * PI
        err = circle_dist(half_turns(nds) * PI - target)
        if err > allow:
            return dict(ok=False, why="axis %s: steps %s miss the sum of the requested angles by %.6g rad > %.6g" % (
                ax, nds, float(err), float(allow)), err=float(err))
    return dict(ok=True, why="")


def rot_json(r):
    """JSON form of one rotation call: the angle as float.hex() (ints as 'int:<n>')"""
    o = dict(axis=r["axis"])
    for k in ("n", "d"):
        if k in r:
            o[k] = r[k]
    if r.get("angle") is not None:
        a = r["angle"]
        o["angle"] = ("int:%d" % a) if type(a) is int else float(a).hex()
        o["angle_repr"] = repr(a)
    return o


def rot_from_json(o):
    r = dict(axis=o["axis"])
    for k in ("n", "d"):
        if k in o:
            r[k] = o[k]
    if "angle" in o:
        r["angle"] = int(o["angle"][4:]) if o["angle"].startswith("int:") else float.fromhex(o["angle"])
    return r


# --------------------------------------------------------------------- Coq case files
def qlit(x):
    fr = F(x)
    n = f"({fr.numerator})%Z" if fr.numerator < 0 else f"{fr.numerator}%Z"
    return f"(Qmake {n} {fr.denominator}%positive)"


def coq_out(nds):
    if nds is None:
        return "None"
    return "(Some [" + "; ".join(f"(({n})%Z, ({d})%Z)" for n, d in nds) + "])"


CASE_HEADER = """From Coq Require Import ZArith QArith List.
From NQ Require Import Num.Angle Num.AngleCheck.
Import ListNotations.
"""


def write_case_file(path, cases):
    """cases: [(angle, tol, nds|None)]"""
    with open(path, "w") as f:
        f.write(CASE_HEADER)
        f.write("Definition cases : list acase :=\n [" + ";\n  ".join(
            f"mkA {qlit(a)} {qlit(t)} {coq_out(o)}" for a, t, o in cases) + "].\n")
        f.write("Eval vm_compute in (failing cases).\n")


def parse_failing(out):
    m = re.search(r"=\s*(.*?)\s*:\s*list \(Z \* Z\)", out.replace("\n", " "))
    if not m:
        return None
    txt = m.group(1).replace("%Z", "")
    return [(int(a), int(b)) for a, b in re.findall(r"\((-?\d+),\s*(-?\d+)\)", txt)]


def front_replica(angle, tol):
    """the four front-end statements of the repaired code, re-executed (used only when the
    implementation's locals cannot be observed)"""
    import numpy as np
    a = angle % (2 * np.pi)
    rest = a / np.pi
    if rest >= 2:
        rest -= 2
    return float(rest), float(tol / np.pi)


def flit(x):
    h = float(x).hex()
    return f"({h})%float"


FCASE_HEADER = """From Coq Require Import ZArith QArith List Floats.PrimFloat.
From NQ Require Import Num.Angle Num.AngleFloat Num.AngleCheck.
Import ListNotations.
"""


def correspond_front(ctx, fcases, per_file=500):
    """fcases: [(angle, tol, rest, thr)] floats -> {index: bits} for bits != 0; None if a file did not compile."""
    files = []
    for i in range(0, len(fcases), per_file):
        name = f"fcases_{i // per_file:04d}.v"
        with open(os.path.join(ctx.build, name), "w") as f:
            f.write(FCASE_HEADER)
            f.write("Definition cases : list fcase :=\n [" + ";\n  ".join(
                f"mkF {flit(a)} {flit(t)} {flit(r)} {flit(h)}" for a, t, r, h in fcases[i:i + per_file]) + "].\n")
            f.write("Eval vm_compute in (ffailing cases).\n")
        files.append((name, i))
    res = ctx.run_case_files([f for f, _ in files], timeout=900, jobs=10)
    codes = {}
    for name, base in files:
        r = res[name]
        fl = parse_failing(r.out) if r.ok else None
        if fl is None:
            ctx.broken.append(f"case file {name} did not evaluate: {r.err.strip()[-300:]}")
            return None
        for i, c in fl:
            codes[base + i] = c
    return codes


def correspond(ctx, cases, per_file=500):
    """cases: [(angle, tol, nds|None)] -> {index: code} for codes != 0; None if a case file did not compile."""
    files = []
    for i in range(0, len(cases), per_file):
        name = f"cases_{i // per_file:04d}.v"
        write_case_file(os.path.join(ctx.build, name), cases[i:i + per_file])
        files.append((name, i))
    res = ctx.run_case_files([f for f, _ in files], timeout=900, jobs=10)
    codes = {}
    for name, base in files:
        r = res[name]
        fl = parse_failing(r.out) if r.ok else None
        if fl is None:
            ctx.broken.append(f"case file {name} did not evaluate: {r.err.strip()[-300:]}")
            return None
        for i, c in fl:
            codes[base + i] = c
    return codes
