"""C12 harness: drives the REAL Executor (through QNodeController.handle_netqasm_message)
with event sequences -- subroutines that issue create_epr / recv_epr and then block in
wait instructions (kept alive as generators), link-layer responses arriving at any
point, retries of the pending list at the back end's yield points, qfree/qalloc -- and
observes request queues, pending list, arrays, unit module and live subroutines after
every event.  Also contains the independent FIFO reference (written from the property
text) used as oracle, and the Coq emission for Exec/EprCheck.v."""
from coqemit import z, lst, nat, b as coqb

EXC_CLASS = {"KeyError": 0, "ValueError": 1, "IndexError": 2, "RuntimeError": 3, "AssertionError": 4}
WAIT = "harness-wait-marker"


class LinkLayerBusy(RuntimeError):
    """raised by the scripted network stack's put() when the scenario says so"""


def purpose_of(pm, sock):
    """pm: "id" | "swap" (cross-connected sockets 0 <-> 1) | ("off", d)"""
    if pm == "id":
        return sock
    if pm == "swap":
        return 1 - sock
    return sock + pm[1]


def make_classes(m):
    Executor = m["executor"].Executor
    QNodeController = m["qnodeos"].QNodeController
    BaseNetworkStack = m["network_stack"].BaseNetworkStack

    class Stack(BaseNetworkStack):
        def __init__(self, pm="id"):
            self.requests = []
            self.pm = pm
            self.refuse = False      # fault injection: the next put is refused

        def put(self, request):
            if self.refuse:
                self.refuse = False
                raise LinkLayerBusy("link layer busy: request refused")
            self.requests.append(request)

        def setup_epr_socket(self, epr_socket_id, remote_node_id, remote_epr_socket_id, timeout=1.0):
            pass

        def get_purpose_id(self, remote_node_id, epr_socket_id):
            # the socket -> purpose assignment is part of the scenario
            return purpose_of(self.pm, epr_socket_id)

    class Ex(Executor):
        _nid = 0

        @property
        def node_id(self):
            return self._nid

        def _wait_to_handle_epr_responses(self):
            # yield point of the back end: the harness decides when to retry (event Retry)
            pass

        def _do_wait(self):
            # yield point: the subroutine stays alive, blocked in its wait instruction
            yield WAIT

    import importlib
    InstrLogger = importlib.import_module("netqasm.logging.output").InstrLogger

    class HarnessInstrLogger(InstrLogger):
        """the real instruction logger; only the hooks the base class leaves to back ends are filled in"""

        @classmethod
        def _get_qubit_groups(cls):
            return None

        def _get_node_name(self):
            return self._executor._name

    Ex.instr_logger_class = HarnessInstrLogger

    class Ctrl(QNodeController):
        @classmethod
        def _get_executor_class(cls, flavour=None):
            return Ex

        def stop(self):
            pass

        def _mark_message_finished(self, msg_id, msg):
            pass

    return Stack, Ex, Ctrl


# events (python tuples):
#   ("Init", app, n) ("Stop", app)
#   ("Create", app, (remote, local socket), tpk, vs, n, qarr, args, res, ws)
#   ("Recv",   app, (remote, local socket), vs_or_None, n, qarr, res, ws)
#   ("CreateRefused", app, (remote, local socket), tpk, vs, n, qarr, args, res)
#   ("Resp",   dict(k, remote, purpose, flag, q, cid, seq, good, x, bell))
#   ("Retry",) ("Poll", sid) ("Free", app, v) ("Alloc", app, v)
#   a response dict may carry fmt = "native" | "qlink" (qlink-interface 1.0 Res* object)
#   ws: list of ("WAll", addr, lo, hi) | ("WAny", addr, lo, hi) | ("WSingle", addr, i)

def info_of(r):
    if r["k"]:
        return [0, r["cid"], r["q"], r["flag"], r["seq"], r["purpose"], r["remote"], r["good"], r["x"], r["bell"]]
    return [1, r["cid"], r["q"], r["x"], r["flag"], r["seq"], r["purpose"], r["remote"], r["good"], r["bell"]]


class EprWorld:
    def __init__(self, m, classes, node_id, pm="id", instr_log_dir=None):
        self.m = m
        Stack, Ex, Ctrl = classes
        m["shared_memory"].SharedMemoryManager.reset_memories()
        # instruction logging is an optional collaborator of the executor: with instr_log_dir the
        # controller attaches an InstrLogger that is called after every instruction with the live
        # instruction object and reads the executor's arrays / unit modules.  (Loggers are cached per
        # node name process-wide and registered in a module-level list: start clean for every run.)
        Ex._INSTR_LOGGERS.clear()
        import netqasm.logging.output as nlo
        nlo.reset_struct_loggers()
        self.ctrl = Ctrl("Alice", instr_log_dir=instr_log_dir)
        assert (self.ctrl._executor._instr_logger is not None) == (instr_log_dir is not None)
        self.ctrl.network_stack = Stack(pm)
        self.ex = self.ctrl._executor
        self.ex._nid = node_id
        self.msg_id = 0
        self.gens = {}
        self.slots = {}
        self.dead = set()       # subroutines that ended at an injected put() fault (the executor keeps
                                # their entry in _subroutines: exceptions skip _clear_subroutine)

    # ------------------------------------------------------------------ subroutines as generators
    def _start(self, app, body):
        sid = self.ex._next_subroutine_id
        sub = self.m["parsing"].parse_text_subroutine(f"# NETQASM 1.0\n# APPID {app}\n" + body)
        self.msg_id += 1
        g = self.ctrl.handle_netqasm_message(self.msg_id, self.m["messages"].SubroutineMessage(sub))
        self.gens[sid] = g
        return sid

    def _advance(self, sid):
        g = self.gens[sid]
        try:
            while True:
                if next(g) == WAIT:
                    return "blocked"
        except StopIteration:
            del self.gens[sid]
            self.slots.pop(sid, None)
            return "done"
        except Exception:
            self.gens.pop(sid, None)
            self.slots.pop(sid, None)
            raise

    def _wait_text(self, slot, ws):
        a, b_ = f"C{2 * slot}", f"C{2 * slot + 1}"
        out = ""
        for w in ws:
            if w[0] == "WAll":
                out += f"set {a} {w[2]}\nset {b_} {w[3]}\nwait_all @{w[1]}[{a}:{b_}]\n"
            elif w[0] == "WAny":
                out += f"set {a} {w[2]}\nset {b_} {w[3]}\nwait_any @{w[1]}[{a}:{b_}]\n"
            else:
                out += f"set {a} {w[2]}\nwait_single @{w[1]}[{a}]\n"
        return out

    def _slot(self):
        usedslots = set(self.slots.values())
        for j in range(7):
            if j not in usedslots:
                return j
        raise AssertionError("too many concurrent subroutines for the harness's register plan")

    @staticmethod
    def _fill(addr, vs):
        t = f"set R0 {len(vs)}\narray R0 @{addr}\n"
        for i, v in enumerate(vs):
            t += f"set R0 {v}\nset R1 {i}\nstore R0 @{addr}[R1]\n"
        return t

    def apply(self, ev):
        """returns -1 (no fault) or the exception class code"""
        try:
            kind = ev[0]
            M = self.m["messages"]
            if kind == "Init":
                self.msg_id += 1
                list(self.ctrl.handle_netqasm_message(self.msg_id, M.InitNewAppMessage(ev[1], ev[2])))
            elif kind == "Stop":
                self.msg_id += 1
                list(self.ctrl.handle_netqasm_message(self.msg_id, M.StopAppMessage(ev[1])))
            elif kind == "Create":
                _, app, (remote, sock), tpk, vs, n, qarr, args, res, ws = ev
                slot = self._slot()
                t = self._fill(qarr, vs) if tpk else ""
                t += (f"set R0 20\narray R0 @{args}\nset R0 {0 if tpk else 1}\nset R1 0\nstore R0 @{args}[R1]\n"
                      f"set R0 {n}\nset R1 1\nstore R0 @{args}[R1]\nset R0 {10 * n}\narray R0 @{res}\n"
                      f"set R0 {remote}\nset R1 {sock}\n" + (f"set R2 {qarr}\n" if tpk else "")
                      + f"set R3 {args}\nset R4 {res}\ncreate_epr R0 R1 {'R2' if tpk else 'C15'} R3 R4\n")
                t += self._wait_text(slot, ws)
                sid = self._start(app, t)
                self.slots[sid] = slot
                self._advance(sid)
            elif kind == "CreateRefused":
                _, app, (remote, sock), tpk, vs, n, qarr, args, res = ev
                t = self._fill(qarr, vs) if tpk else ""
                t += (f"set R0 20\narray R0 @{args}\nset R0 {0 if tpk else 1}\nset R1 0\nstore R0 @{args}[R1]\n"
                      f"set R0 {n}\nset R1 1\nstore R0 @{args}[R1]\nset R0 {10 * n}\narray R0 @{res}\n"
                      f"set R0 {remote}\nset R1 {sock}\n" + (f"set R2 {qarr}\n" if tpk else "")
                      + f"set R3 {args}\nset R4 {res}\ncreate_epr R0 R1 {'R2' if tpk else 'C15'} R3 R4\n"
                      f"set C14 0\nset C15 {10 * n}\nwait_all @{res}[C14:C15]\n")
                self.ctrl.network_stack.refuse = True
                sid = self._start(app, t)
                try:
                    self._advance(sid)
                    raise AssertionError("harness: the refused create_epr did not fault")
                except LinkLayerBusy:
                    self.dead.add(sid)      # the instruction faulted at that line, the subroutine ended
                finally:
                    self.ctrl.network_stack.refuse = False
            elif kind == "Recv":
                _, app, (remote, sock), vs, n, qarr, res, ws = ev
                slot = self._slot()
                t = self._fill(qarr, vs) if vs is not None else ""
                t += (f"set R0 {10 * n}\narray R0 @{res}\nset R0 {remote}\nset R1 {sock}\n"
                      + (f"set R2 {qarr}\n" if vs is not None else "")
                      + f"set R4 {res}\nrecv_epr R0 R1 {'R2' if vs is not None else 'C15'} R4\n")
                t += self._wait_text(slot, ws)
                sid = self._start(app, t)
                self.slots[sid] = slot
                self._advance(sid)
            elif kind == "Resp":
                r = ev[1]
                Q = self.m["qlink_compat"]
                if r.get("fmt", "native") == "qlink":
                    # the qlink-interface 1.0 dataclass format; _handle_epr_response converts it
                    import qlink_interface as ql
                    common = dict(create_id=r["cid"], directionality_flag=r["flag"], sequence_number=r["seq"],
                                  purpose_id=r["purpose"], remote_node_id=r["remote"], goodness=r["good"],
                                  bell_state=ql.BellState[Q.BellState(r["bell"]).name])
                    if r["k"]:
                        resp = ql.ResCreateAndKeep(logical_qubit_id=r["q"], time_of_goodness=r["x"], **common)
                    else:
                        resp = ql.ResMeasureDirectly(measurement_outcome=r["q"],
                                                     measurement_basis=ql.MeasurementBasis(r["x"]), **common)
                elif r["k"]:
                    resp = Q.LinkLayerOKTypeK(Q.ReturnType.OK_K, r["cid"], r["q"], r["flag"], r["seq"], r["purpose"],
                                              r["remote"], r["good"], r["x"], Q.BellState(r["bell"]))
                else:
                    resp = Q.LinkLayerOKTypeM(Q.ReturnType.OK_M, r["cid"], r["q"], r["x"], r["flag"], r["seq"],
                                              r["purpose"], r["remote"], r["good"], Q.BellState(r["bell"]))
                self.ex._handle_epr_response(resp)
            elif kind == "Retry":
                self.ex._handle_pending_epr_responses()
            elif kind == "Poll":
                self._advance(ev[1])
            elif kind == "Free":
                sid = self._start(ev[1], f"set Q0 {ev[2]}\nqfree Q0\n")
                self._advance(sid)
            elif kind == "Alloc":
                sid = self._start(ev[1], f"set Q0 {ev[2]}\nqalloc Q0\n")
                self._advance(sid)
            else:
                raise AssertionError(kind)
        except AssertionError as e:
            if "harness" in str(e):
                raise
            return EXC_CLASS["AssertionError"]
        except Exception as e:  # noqa
            return EXC_CLASS.get(type(e).__name__, 9)
        return -1

    # ------------------------------------------------------------------ observation
    def observe(self):
        ex = self.ex

        def qview(d):
            out = {}
            for key, lst_ in d.items():
                if lst_:
                    out[tuple(key)] = [(c.subroutine_id, c.ent_results_array_address,
                                        c.q_array_address, c.tot_pairs, c.pairs_left) for c in lst_]
            return out

        pend = []
        for r in ex._pending_epr_responses:
            pend.append([x.value if hasattr(x, "value") else x for x in r])
        return dict(arrs={(app, a): list(l) for app, arrs in ex._app_arrays.items() for a, l in arrs._arrays.items()},
                    ums={app: list(um) for app, um in ex._qubit_unit_modules.items()},
                    creq=qview(ex._epr_create_requests), rreq=qview(ex._epr_recv_requests),
                    pend=pend, alive=sorted(k for k in ex._subroutines.keys() if k not in self.dead),
                    blocked=sorted(self.gens.keys()))


# ---------------------------------------------------------------------- independent FIFO reference (oracle)
class FifoRef:
    """Written from the property text: per (remote, purpose, role) a FIFO of requests (of any
    application), each with a count of consumed pairs; a response is consumed by the oldest
    outstanding request for its remote node, purpose and role; pair k fills slice k of that
    request's result array and maps its k-th virtual qubit (arrays and qubits of the request's
    application); the request is retired after its number of pairs; a keep response is deferred
    while its virtual qubit is allocated; among the waiting responses the earliest arrived one that
    can be consumed goes first.  Registering / stopping an application touches only that
    application's arrays and qubits: responses waiting for a request nobody has issued yet stay."""

    def __init__(self, node, pm="id"):
        self.node = node
        # the purpose the network stack assigned to each local socket (requests are matched on
        # purpose ids, which is what responses carry)
        self.purpose = {0: 0, 1: 1} if pm == "id" else {0: 1, 1: 0} if pm == "swap" else {0: pm[1], 1: 1 + pm[1]}
        self.q = {}
        self.pending = []
        self.arrays = {}       # (app, addr) -> list
        self.ums = {}          # app -> unit module
        self.consumed = []     # (cid, app, res, k)
        self.dropped = set()   # cids whose result array went away with its application
        self.arrived = []
        self.wait = {}         # sid -> (app, remaining waits)
        self.nsid = 0

    def _new_sub(self, app, ws):
        sid = self.nsid
        self.nsid += 1
        if ws is not None:
            self.wait[sid] = (app, list(ws))
            self.poll(sid)
        return sid

    def request(self, app, key, creator, vs, n, qarr, res, ws, args=None, tpk=None):
        key = (key[0], self.purpose[key[1]])       # (remote node, local socket) -> (remote node, purpose)
        if vs is not None:
            self.arrays[(app, qarr)] = list(vs)
        if args is not None:
            self.arrays[(app, args)] = [0 if tpk else 1, n] + [None] * 18
        self.arrays[(app, res)] = [None] * (10 * n)
        self.q.setdefault((key, creator), []).append(dict(app=app, res=res, qarr=qarr if vs is not None else None,
                                                          tot=n, done=0, sid=self.nsid))
        self._new_sub(app, ws)

    def role(self, r):
        creator_node = r["remote"] if r["flag"] == 1 else self.node
        return creator_node == self.node

    def response(self, r):
        self.pending.append(r)
        self.arrived.append(r["cid"])
        self.drain()

    def drain(self):
        progress = True
        while progress:
            progress = False
            for r in self.pending:
                fifo = self.q.get(((r["remote"], r["purpose"]), self.role(r)), [])
                if not fifo:
                    continue
                head = fifo[0]
                app = head["app"]
                k = head["done"]
                if r["k"]:
                    v = self.arrays[(app, head["qarr"])][k]
                    if self.ums[app][v] is not None:
                        continue
                    self.ums[app][v] = r["q"]
                self.arrays[(app, head["res"])][10 * k:10 * k + 10] = info_of(r)
                self.consumed.append((r["cid"], app, head["res"], k))
                head["done"] += 1
                if head["done"] == head["tot"]:
                    fifo.pop(0)
                self.pending.remove(r)
                progress = True
                break

    def poll(self, sid):
        app, ws = self.wait[sid]
        while ws:
            w = ws[0]
            arr = self.arrays[(app, w[1])]
            if w[0] == "WAll":
                ok = all(x is not None for x in arr[w[2]:w[3]])
            elif w[0] == "WAny":
                ok = any(x is not None for x in arr[w[2]:w[3]])
            else:
                ok = arr[w[2]] is not None
            if not ok:
                return
            ws.pop(0)
        del self.wait[sid]

    def busy_apps(self):
        """applications with an outstanding request or a waiting subroutine (they are not stopped)"""
        return {c["app"] for l in self.q.values() for c in l} | {a for a, _ in self.wait.values()}

    def apply(self, ev):
        k = ev[0]
        if k == "Init":
            self.ums[ev[1]] = [None] * ev[2]
        elif k == "Stop":
            app = ev[1]
            del self.ums[app]
            for key in [x for x in self.arrays if x[0] == app]:
                del self.arrays[key]
            self.dropped |= {c[0] for c in self.consumed if c[1] == app}
        elif k == "Create":
            _, app, key, tpk, vs, n, qarr, args, res, ws = ev
            self.request(app, key, True, vs if tpk else None, n, qarr, res, ws, args=args, tpk=tpk)
        elif k == "Recv":
            _, app, key, vs, n, qarr, res, ws = ev
            self.request(app, key, False, vs, n, qarr, res, ws)
        elif k == "CreateRefused":
            # the network stack refused the request: nothing is outstanding because of it
            _, app, key, tpk, vs, n, qarr, args, res = ev
            if tpk:
                self.arrays[(app, qarr)] = list(vs)
            self.arrays[(app, args)] = [0 if tpk else 1, n] + [None] * 18
            self.arrays[(app, res)] = [None] * (10 * n)
            self.nsid += 1
        elif k == "Resp":
            self.response(ev[1])
        elif k == "Retry":
            self.drain()
        elif k == "Poll":
            self.poll(ev[1])
        elif k == "Free":
            self.nsid += 1
            self.ums[ev[1]][ev[2]] = None
        elif k == "Alloc":
            self.nsid += 1
            usedp = {p for um in self.ums.values() for p in um if p is not None}
            p = 0
            while p in usedp:
                p += 1
            self.ums[ev[1]][ev[2]] = p

    def compare(self, ob):
        """differences between the reference and the observed executor state"""
        bad = []
        if ob["ums"] != self.ums:
            bad.append(f"unit modules {ob['ums']} != reference {self.ums}")
        for a, l in self.arrays.items():
            if ob["arrs"].get(a) != l:
                bad.append(f"array @{a} {ob['arrs'].get(a)} != reference {l}")
        for creator, name in ((True, "creq"), (False, "rreq")):
            ref = {key: [(c["res"], c["tot"], c["tot"] - c["done"]) for c in lst_]
                   for (key, cr), lst_ in self.q.items() if cr == creator and lst_}
            got = {key: [(c[1], c[3], c[4]) for c in lst_] for key, lst_ in ob[name].items()}
            if ref != got:
                bad.append(f"outstanding {'create' if creator else 'receive'} requests {got} != reference {ref}")
        if [r[1] for r in ob["pend"]] != [r["cid"] for r in self.pending]:
            bad.append(f"pending responses {[r[1] for r in ob['pend']]} != reference {[r['cid'] for r in self.pending]}")
        if sorted(self.wait) != ob["blocked"]:
            bad.append(f"subroutines still waiting {ob['blocked']} != reference {sorted(self.wait)}")
        # exactly once, read off the implementation: every arrived response is either still
        # pending or sits in exactly one result-array slice (or its array went away with its application)
        tags = [r[1] for r in ob["pend"]] + sorted(self.dropped)
        resaddrs = {(c["app"], c["res"]) for lst_ in self.q.values() for c in lst_} \
            | {(c[1], c[2]) for c in self.consumed if c[0] not in self.dropped}
        for a in resaddrs:
            l = ob["arrs"].get(a, [])
            for i in range(0, len(l), 10):
                if l[i] is not None:
                    tags.append(l[i + 1])
        if sorted(tags) != sorted(self.arrived):
            bad.append(f"responses seen in pending list + result arrays {sorted(tags)} != arrived {sorted(self.arrived)}")
        return bad


# ---------------------------------------------------------------------- Coq emission
def coq_opt(v):
    return "None" if v is None else f"(Some {z(v)})"


def coq_arr(l):
    return lst(coq_opt(v) for v in l)


def coq_key(k):
    return f"({z(k[0])}, {z(k[1])})"


def coq_ws(ws):
    out = []
    for w in ws:
        if w[0] == "WSingle":
            out.append(f"WSingle {z(w[1])} {nat(w[2])}")
        else:
            out.append(f"{w[0]} {z(w[1])} {nat(w[2])} {nat(w[3])}")
    return lst(out)


def coq_resp(r):
    return (f"(mkResp 0%nat {coqb(r['k'])} {z(r['remote'])} {z(r['purpose'])} {z(r['flag'])} {z(r['q'])} {z(r['cid'])} "
            f"{z(r['seq'])} {z(r['good'])} {z(r['x'])} {z(r['bell'])})")


def coq_event(ev):
    k = ev[0]
    if k == "Init":
        return f"(IOther (Init {z(ev[1])} {nat(ev[2])}))"
    if k == "Stop":
        return f"(IOther (Stop {z(ev[1])}))"
    if k == "Create":
        _, app, key, tpk, vs, n, qarr, args, res, ws = ev
        return (f"(ICreate {z(app)} {z(key[0])} {z(key[1])} {coqb(tpk)} {lst(z(v) for v in vs)} {nat(n)} {z(qarr)} {z(args)} {z(res)} "
                f"{coq_ws(ws)})")
    if k == "CreateRefused":
        _, app, key, tpk, vs, n, qarr, args, res = ev
        return (f"(ICreateRefused {z(app)} {z(key[0])} {z(key[1])} {coqb(tpk)} {lst(z(v) for v in vs)} {nat(n)} {z(qarr)} {z(args)} "
                f"{z(res)})")
    if k == "Recv":
        _, app, key, vs, n, qarr, res, ws = ev
        vst = "None" if vs is None else f"(Some {lst(z(v) for v in vs)})"
        return f"(IRecv {z(app)} {z(key[0])} {z(key[1])} {vst} {nat(n)} {z(qarr)} {z(res)} {coq_ws(ws)})"
    if k == "Resp":
        return f"(IOther (Resp {coq_resp(ev[1])}))"
    if k == "Retry":
        return "(IOther Retry)"
    if k == "Poll":
        return f"(IOther (Poll {z(ev[1])}))"
    if k in ("Free", "Alloc"):
        return f"(IOther ({k} {z(ev[1])} {z(ev[2])}))"
    raise AssertionError(ev)


def coq_queue(d):
    items = []
    for key in sorted(d):
        reqs = lst(f"({z(c[0])}, {z(c[1])}, {coq_opt(c[2])}, {nat(c[3])}, {nat(c[4])})" for c in d[key])
        items.append(f"({coq_key(key)}, {reqs})")
    return lst(items)


def coq_obs(fault, ob):
    if ob is None:
        return f"(mkObs {z(fault)} [] [] [] [] [] [])"
    arrs = lst(f"(({z(a[0])}, {z(a[1])}), {coq_arr(l)})" for a, l in sorted(ob["arrs"].items()))
    ums = lst(f"({z(a)}, {coq_arr(l)})" for a, l in sorted(ob["ums"].items()))
    pend = lst(lst(z(x) for x in r) for r in ob["pend"])
    return (f"(mkObs {z(fault)} {arrs} {ums} {coq_queue(ob['creq'])} {coq_queue(ob['rreq'])} {pend} "
            f"{lst(z(x) for x in ob['alive'])})")


CASE_HEADER = """From Coq Require Import ZArith List.
From NQ Require Import Exec.Qmem Exec.Epr Exec.EprCheck.
Import ListNotations.
Open Scope Z_scope.
"""


def coq_tree(node):
    return (f"(T {z(node['id'])} {coq_event(node['ev'])} {coq_obs(node['fault'], node['obs'])}\n "
            f"{lst((coq_tree(k) for k in node['kids']), sep=';')})")


def coq_pm(pm):
    return "PId" if pm == "id" else "PSwap" if pm == "swap" else f"(POff {z(pm[1])})"


def write_case_file(path, groups):
    """groups: list of (pm, node_id, [trees])"""
    with open(path, "w") as f:
        f.write(CASE_HEADER)
        for i, (pm, nd, trees) in enumerate(groups):
            f.write(f"Definition cases{i} : list tcase :=\n [" + ";\n  ".join(coq_tree(t) for t in trees) + "].\n")
        f.write("Eval vm_compute in (" + " ++ ".join(f"failing {coq_pm(pm)} {z(nd)} cases{i}"
                                                      for i, (pm, nd, _) in enumerate(groups)) + ").\n")


def parse_failing(out):
    import re
    parts = re.findall(r"=\s*(\[[^\]]*\]|nil)\s*:\s*list Z", out.replace("\n", " "))
    return [[int(x) for x in re.findall(r"-?\d+", p)] for p in parts]
