"""c10_ring — the ring half of C10 (parts (a) Bell corrections, (d) measure-directly
post-processing), as a library for harness/checks/c10.py:

    import c10_ring
    ok = c10_ring.run_ring(ctx)      # regenerates Gen_Bell.v, compiles props/C10_ring.v,
                                     # runs the numpy oracle on the regenerated tables

Violations carry the concrete Bell state / basis: keys  C10:bell-correction:<b>,
C10:postprocess:<basis>:<b>.
"""
import json
import math
import os

import numpy as np

import qcommon as qc

R = math.sqrt(0.5)
BELL = {"PHI_PLUS": np.array([R, 0, 0, R], dtype=complex), "PSI_PLUS": np.array([0, R, R, 0], dtype=complex),
        "PSI_MINUS": np.array([0, R, -R, 0], dtype=complex), "PHI_MINUS": np.array([R, 0, 0, -R], dtype=complex)}


def oracle(ctx, data):
    """Independent numeric check of the regenerated tables."""
    name_of = {v: n for n, v in data["numbering"]}
    phi = BELL["PHI_PLUS"]
    for n, v in data["numbering"]:
        U = qc.I2
        for g, nn, d in data["corrections"][str(v)]:
            U = qc.rot_nd(g[-1], nn, d) @ U
        got = np.kron(U, qc.I2) @ BELL[n]
        ctx.note_case(("bell-correction", n))
        if not qc.phase_equal(got.reshape(4, 1), phi.reshape(4, 1)):
            ctx.violation(f"the SDK's correction for Bell state {n} (={v}) does not produce Phi+",
                          dict(kind="bell-correction", bell=n, value=v, gates=data["corrections"][str(v)]),
                          key=f"C10:bell-correction:{n}")
    tbl = {(tuple(r["rot"]), r["bell"], r["m"]): r["out"] for r in data["postprocess"]}
    bases = {}
    for r in data["postprocess"]:
        bases[tuple(r["rot"])] = r["basis"]
    for rot, bname in bases.items():
        U = qc.rot_nd("x", rot[2], 4) @ qc.rot_nd("y", rot[1], 4) @ qc.rot_nd("x", rot[0], 4)
        proj = [U.conj().T @ np.diag([1, 0]).astype(complex) @ U, U.conj().T @ np.diag([0, 1]).astype(complex) @ U]

        def joint(vec):
            return {(a, b): float(np.real(np.vdot(vec, np.kron(proj[a], proj[b]) @ vec))) for a in (0, 1) for b in (0, 1)}

        ref = joint(phi)
        for v, n in sorted(name_of.items()):
            raw = joint(BELL[n])
            post = {(a, b): 0.0 for a in (0, 1) for b in (0, 1)}
            for (ml, mr), p in raw.items():
                post[(tbl[(rot, v, ml)], mr)] += p
            ctx.note_case(("postprocess", bname, n))
            if any(abs(post[k] - ref[k]) > qc.TOL for k in ref):
                ctx.violation(f"measure-directly post-processing in basis {bname} on {n}: joint statistics differ from Phi+",
                              dict(kind="postprocess", basis=bname, rot=list(rot), bell=n, got=[[k, p] for k, p in post.items()],
                                   phi_plus=[[k, p] for k, p in ref.items()]), key=f"C10:postprocess:{bname}:{n}")


def run_ring(ctx):
    jpath = os.path.join(ctx.build, "bell.json")
    ok, err = ctx.gen("bell_tables.py", "Gen_Bell.v", "--json", jpath)
    ctx.gen_obligation("translator bell_tables.py understands the SDK", ok, err.strip()[-400:])
    ctx.trusted.append("gen/bell_tables.py: BellState numbering; corrections recorded by running the real "
                       "_build_cmds_epr_keep_corrections_single_pair through builder -> bytes -> Executor (gate log); "
                       "EprMeasureResult.measurement_outcome evaluated on all 6 x 4 x 2 inputs")
    ctx.assume.append("measure-directly: both nodes rotate by the same triple (X by x1*pi/16, Y by y*pi/16, X by "
                      "x2*pi/16) and then measure Z; the six triples of basis_to_rotation have one non-zero component")
    if not ok:
        return False
    r = ctx.coqc("Gen_Bell.v")
    ctx.gen_obligation("Gen_Bell.v type-checks", r.ok, r.err[-300:])
    oracle(ctx, json.load(open(jpath)))
    res = ctx.props("C10_ring")
    if res.ok:
        # instantiation at the complex numbers (axioms of the reals, named in the evidence)
        qc.complex_props(ctx, "C10_ring_complex")
    return bool(r.ok and res.ok)
